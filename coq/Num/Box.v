(** Model of the ROMC bounding-box region and the posterior built on it (C19).

    elfi/methods/inference/romc.py : NDimBoundingBox.__init__ / _secure_limits / _compute_volume /
                                     contains / sample / pdf ; line_search
    elfi/methods/posteriors.py     : RomcPosterior._pdf_unnorm_single_point / _sum_over_indicators /
                                     _sum_over_regions / _sum_over_regions_indicators ; weight loop of
                                     sample (= _worker_compute_weight)

    Real-valued data are exact rationals [Q] (every binary64 is one); vectors are lists, a matrix is the
    list of its rows.  [np.linalg.inv(rotation)] is NOT re-implemented: the inverse is an input of the
    model ([option mat], [None] = singular) and is validated inside Coq ([is_inverse]: the product with
    the rotation is the identity, exactly).  Objective functions and the prior density are oracles.
    No proofs in this file.                                                                          *)
From Coq Require Import ZArith QArith Qabs List Bool Arith.
Import ListNotations.
Open Scope Q_scope.

Definition Qltb (a b : Q) : bool := negb (Qle_bool b a).

Definition vec := list Q.
Definition mat := list (list Q).
Definition lims := list (Q * Q).

(** ---- linear algebra on lists ---- *)

Fixpoint dot (a b : vec) : Q :=
  match a, b with
  | x :: a', y :: b' => x * y + dot a' b'
  | _, _ => 0
  end.

(** [np.dot(M, v)] *)
Definition mv (M : mat) (v : vec) : vec := map (fun r => Qred (dot r v)) M.

Fixpoint vadd (a b : vec) : vec :=
  match a, b with
  | x :: a', y :: b' => Qred (x + y) :: vadd a' b'
  | _, _ => []
  end.

Definition vneg (a : vec) : vec := map Qopp a.

(** [point = np.dot(rotation_inv, point) + np.dot(rotation_inv, -center)]  (contains) *)
Definition to_box (Rinv : mat) (c p : vec) : vec := vadd (mv Rinv p) (mv Rinv (vneg c)).

(** [theta_new = np.dot(rot, theta.T).T + center]  (sample) *)
Definition from_box (R : mat) (c th : vec) : vec := vadd (mv R th) c.

(** validation of the supplied inverse: [Rinv * R = I] exactly, both square of size [n] *)
Definition col (M : mat) (j : nat) : vec := map (fun r => nth j r 0) M.
Definition unit_vec (n i : nat) : vec := map (fun j => if Nat.eqb i j then 1 else 0) (seq 0 n).
Fixpoint vec_eqb (a b : vec) : bool :=
  match a, b with
  | [], [] => true
  | x :: a', y :: b' => Qeq_bool x y && vec_eqb a' b'
  | _, _ => false
  end.
Definition square (n : nat) (M : mat) : bool :=
  Nat.eqb (length M) n && forallb (fun r => Nat.eqb (length r) n) M.
Definition mmul (A B : mat) (n : nat) : mat :=
  map (fun r => map (fun j => Qred (dot r (col B j))) (seq 0 n)) A.
Definition is_inverse (n : nat) (Rinv R : mat) : bool :=
  square n Rinv && square n R &&
  forallb (fun i => vec_eqb (nth i (mmul Rinv R n) []) (unit_vec n i)) (seq 0 n).

(** ---- _secure_limits ---- *)

(** the binary64 constants [.001] and [1e-09] (default rel_tol of math.isclose), exactly *)
Definition eps_secure : Q := 1152921504606847 # 1152921504606846976.
Definition rel_tol : Q := 4835703278458517 # 4835703278458516698824704.

(** [math.isclose(a, b, abs_tol=eps)] as CPython computes it *)
Definition isclose (a b : Q) : bool :=
  Qeq_bool a b ||
  (let d := Qabs (b - a) in
   Qle_bool d (Qabs (rel_tol * b)) || Qle_bool d (Qabs (rel_tol * a)) || Qle_bool d eps_secure).

(** one iteration of the loop; [None] = AssertionError *)
Definition secure_one (l : Q * Q) : option (Q * Q) :=
  let '(lo, hi) := l in
  if negb (Qle_bool lo 0) then None
  else if negb (Qle_bool 0 hi) then None
  else if isclose lo hi then Some (Qred (lo - eps_secure * (1 # 2)), Qred (hi + eps_secure * (1 # 2)))
  else Some (lo, hi).

Fixpoint secure_limits (l : lims) : option lims :=
  match l with
  | [] => Some []
  | x :: r =>
      match secure_one x with
      | None => None
      | Some y => match secure_limits r with None => None | Some r' => Some (y :: r') end
      end
  end.

(** [_compute_volume]: [np.prod(-limits[:,0] + limits[:,1])] *)
Fixpoint volume (l : lims) : Q :=
  match l with
  | [] => 1
  | (lo, hi) :: r => Qred ((- lo + hi) * volume r)
  end.

(** ---- the box ---- *)

Record box := {
  b_dim : nat;
  b_rot : mat;
  b_rotinv : mat;
  b_center : vec;
  b_lims : lims;       (* after _secure_limits *)
  b_vol : Q
}.

(** [NDimBoundingBox.__init__]; [None] = AssertionError (shape, rank, limit signs, volume) *)
Definition mk_box (R : mat) (Rinv : option mat) (c : vec) (l : lims) : option box :=
  let n := length R in
  if negb (square n R && Nat.eqb (length c) n) then None else
  match Rinv with
  | None => None                      (* matrix_rank(rotation) < dim *)
  | Some Ri =>
      if negb (is_inverse n Ri R) then None else
      match secure_limits l with
      | None => None
      | Some l' =>
          let v := volume l' in
          if Qle_bool 0 v then
            Some {| b_dim := n; b_rot := R; b_rotinv := Ri; b_center := c; b_lims := l'; b_vol := v |}
          else None
      end
  end.

(** the [for i in range(point.shape[0])] loop of [contains] with its early exit;
    [None] = IndexError (fewer limit rows than coordinates, reached before an exit) *)
Fixpoint inside_loop (p : vec) (l : lims) : option bool :=
  match p with
  | [] => Some true
  | x :: p' =>
      match l with
      | [] => None
      | (lo, hi) :: l' => if Qltb x lo || Qltb hi x then Some false else inside_loop p' l'
      end
  end.

(** [contains]; [None] = AssertionError on the shape of the point, or IndexError *)
Definition contains (b : box) (p : vec) : option bool :=
  if Nat.eqb (length p) (b_dim b) then inside_loop (to_box (b_rotinv b) (b_center b) p) (b_lims b)
  else None.

(** [pdf]: [self.contains(theta) / self.volume] *)
Definition pdf (b : box) (p : vec) : option Q :=
  match contains b p with
  | Some true => Some (Qred (1 / b_vol b))
  | Some false => Some 0
  | None => None
  end.

(** [sample], one row: coordinate [i] is [uniform(loc=lo_i, scale=hi_i-lo_i)] = [lo_i + (hi_i-lo_i)*u_i]
    for the generator's draw [u_i] in [0,1), then rotated and shifted *)
Fixpoint box_coords (l : lims) (u : vec) : vec :=
  match l, u with
  | (lo, hi) :: l', x :: u' => Qred (lo + (hi - lo) * x) :: box_coords l' u'
  | _, _ => []
  end.
Definition sample_point (b : box) (u : vec) : vec :=
  from_box (b_rot b) (b_center b) (box_coords (b_lims b) u).

(** specification-level containment (no loop, no early exit) *)
Fixpoint within (q : vec) (l : lims) : bool :=
  match q, l with
  | x :: q', (lo, hi) :: l' => Qle_bool lo x && Qle_bool x hi && within q' l'
  | [], [] => true
  | _, _ => false
  end.

(** ---- line_search ----
    The objective is an oracle [f] on the offset along the search direction
    ([f off] = the coded [f(th_star + off*vd)]).  Every evaluation of [f] is logged. *)

(** [while f(th) < eps and rep <= rep_lim: th += eta*vd; offset += eta; rep += 1] *)
Fixpoint ls_while (fuel : nat) (f : Q -> Q) (eps eta : Q) (rep_lim : nat)
         (off : Q) (rep : nat) (log : list Q) : Q * nat * list Q :=
  match fuel with
  | O => (off, rep, log)
  | S k =>
      if Qltb (f off) eps && Nat.leb rep rep_lim
      then ls_while k f eps eta rep_lim (Qred (off + eta)) (S rep) (off :: log)
      else (off, rep, off :: log)
  end.

(** the loop terminates after at most [rep_lim + 2] evaluations of the condition *)
Definition ls_fuel (rep_lim : nat) : nat := S (S rep_lim).

(** [for i in range(K)]: returns (offset, eta, log) *)
Fixpoint ls_outer (K : nat) (f : Q -> Q) (eps eta : Q) (rep_lim : nat) (off : Q) (log : list Q)
  : Q * Q * list Q :=
  match K with
  | O => (off, eta, log)
  | S k =>
      let '(off1, rep, log1) := ls_while (ls_fuel rep_lim) f eps eta rep_lim off 0 log in
      let off2 := Qred (off1 - eta) in
      if Nat.ltb rep_lim rep then (off2, eta, log1)               (* break *)
      else ls_outer k f eps (Qred (eta * (1 # 2))) rep_lim off2 log1
  end.

(** returns (result, probed offsets in call order) *)
Definition line_search (f : Q -> Q) (eps : Q) (K : nat) (eta : Q) (rep_lim : nat) : Q * list Q :=
  let '(off, eta', log) := ls_outer K f eps eta rep_lim 0 [] in
  ((if Qle_bool off 0 then eta' else off), rev log).

(** piecewise-constant objective used by the harness: value of the first entry whose breakpoint
    is above [t], else [dflt] *)
Fixpoint pw (tbl : list (Q * Q)) (dflt : Q) (t : Q) : Q :=
  match tbl with
  | [] => dflt
  | (b, v) :: r => if Qltb t b then v else pw r dflt t
  end.

(** ---- RomcPosterior ---- *)

(** [_sum_over_indicators]: [ds] = values [func_i(theta)] *)
Fixpoint sum_over_indicators (ds : list Q) (eps : Q) : nat :=
  match ds with
  | [] => O
  | d :: r => (if Qle_bool d eps then 1 else 0) + sum_over_indicators r eps
  end.

(** [_sum_over_regions] *)
Fixpoint sum_over_regions (cs : list bool) : nat :=
  match cs with
  | [] => O
  | c :: r => (if c then 1 else 0) + sum_over_regions r
  end.

(** [_sum_over_regions_indicators]: [reg.contains(theta) and (func(theta) <= eps)];
    also returns the indices of the objectives that were evaluated (short-circuit) *)
Fixpoint sum_over_regions_indicators (i : nat) (cs : list bool) (ds : list Q) (eps : Q) : nat * list nat :=
  match cs, ds with
  | c :: cs', d :: ds' =>
      let '(n, called) := sum_over_regions_indicators (S i) cs' ds' eps in
      if c then ((if Qle_bool d eps then 1 else 0) + n, i :: called)%nat else (n, called)
  | _, _ => (O, [])
  end.

Fixpoint contains_all (bs : list box) (th : vec) : option (list bool) :=
  match bs with
  | [] => Some []
  | b :: r =>
      match contains b th, contains_all r th with
      | Some c, Some cs => Some (c :: cs)
      | _, _ => None
      end
  end.

(** [_pdf_unnorm_single_point]: (value, indicator sum, objectives called) *)
Definition pdf_unnorm (surrogate : bool) (bs : list box) (th : vec) (ds : list Q) (eps pr : Q)
  : option (Q * nat * list nat) :=
  if surrogate then
    match contains_all bs th with
    | None => None
    | Some cs =>
        let '(n, called) := sum_over_regions_indicators 0 cs ds eps in
        Some (Qred (pr * inject_Z (Z.of_nat n)), n, called)
    end
  else
    let n := sum_over_indicators ds eps in
    Some (Qred (pr * inject_Z (Z.of_nat n)), n, seq 0 (length ds)).

(** weight of one drawn sample: [ind = dist < eps; res = ind*pr/q if q > 0 else 0] *)
Definition weight (q pr dist eps : Q) : Q :=
  if Qltb 0 q then Qred ((if Qltb dist eps then 1 else 0) * pr / q) else 0.

(** ================= correspondence-check interface ================= *)

(** numeric closeness: |a-b| <= 1e-9 * (1 + |a| + |b|)  (model exact, implementation binary64) *)
Definition ntol : Q := 1 # 1000000000.
Definition close (a b : Q) : bool := Qle_bool (Qabs (a - b)) (ntol * (1 + Qabs a + Qabs b)).
Fixpoint vclose (a b : vec) : bool :=
  match a, b with
  | [], [] => true
  | x :: a', y :: b' => close x y && vclose a' b'
  | _, _ => false
  end.
Fixpoint lclose (a b : lims) : bool :=
  match a, b with
  | [], [] => true
  | (x1, x2) :: a', (y1, y2) :: b' => close x1 y1 && close x2 y2 && lclose a' b'
  | _, _ => false
  end.
Fixpoint mclose (a b : mat) : bool :=
  match a, b with
  | [], [] => true
  | x :: a', y :: b' => vclose x y && mclose a' b'
  | _, _ => false
  end.

(** a containment decision is compared only when no box coordinate is within [tol] of a limit
    ([tol = 0]: inputs on which binary64 is exact, everything is compared, boundary included) *)
Fixpoint decided (tol : Q) (q : vec) (l : lims) : bool :=
  match q, l with
  | x :: q', (lo, hi) :: l' =>
      Qltb tol (Qabs (x - lo)) && Qltb tol (Qabs (x - hi)) && decided tol q' l'
  | _, _ => true
  end.
Definition decided0 (tol : Q) (q : vec) (l : lims) : bool := Qeq_bool tol 0 || decided tol q l.

Definition beqb (a b : bool) : bool := if a then b else negb b.

(** [po_tol]: 0 when binary64 is exact on this point (small dyadic data), else the margin below which a
    containment decision is not compared *)
Record pt_obs := { po_p : vec; po_tol : Q; po_contains : bool; po_pdf : Q }.
(** one row of [sample()]: generator draws [u] (one per coordinate), returned point, and what the
    implementation's own [contains]/[pdf] say about it *)
Record smp_obs := { so_u : vec; so_p : vec; so_contains : bool; so_pdf : Q }.

Record box_case := {
  bc_rot : mat; bc_rotinv : option mat; bc_center : vec; bc_lims : lims;
  bc_tol : Q;
  bc_impl_ok : bool;              (* false: the constructor raised AssertionError *)
  bc_impl_lims : lims; bc_impl_vol : Q; bc_impl_rotinv : mat;
  bc_pts : list pt_obs; bc_smps : list smp_obs
}.

Definition agree_pt (b : box) (o : pt_obs) : bool :=
  match contains b (po_p o), pdf b (po_p o) with
  | Some c, Some d =>
      if decided0 (po_tol o) (to_box (b_rotinv b) (b_center b) (po_p o)) (b_lims b)
      then beqb c (po_contains o) && close d (po_pdf o) else true
  | _, _ => false
  end.

Definition agree_smp (b : box) (tol : Q) (o : smp_obs) : bool :=
  vclose (sample_point b (so_u o)) (so_p o) &&
  match contains b (so_p o) with
  | Some c => if decided (Qabs tol + ntol) (to_box (b_rotinv b) (b_center b) (so_p o)) (b_lims b)
              then beqb c (so_contains o) else true
  | None => false
  end.

Definition agree_box (c : box_case) : bool :=
  match mk_box (bc_rot c) (bc_rotinv c) (bc_center c) (bc_lims c) with
  | None => negb (bc_impl_ok c)
  | Some b =>
      bc_impl_ok c && lclose (b_lims b) (bc_impl_lims c) && close (b_vol b) (bc_impl_vol c)
      && mclose (b_rotinv b) (bc_impl_rotinv c)
      && forallb (agree_pt b) (bc_pts c) && forallb (agree_smp b (bc_tol c)) (bc_smps c)
  end.

(** the property's own statement on the implementation's outputs:
    secured limits are proper, the volume is their positive product, every drawn sample is contained
    (and has density 1/volume), the density of a test point is 1/volume or 0 according to the
    implementation's containment answer, and that answer is the specification's [within]
    of the exact box-frame coordinates. *)
Definition ok_pt (c : box_case) (Ri : mat) (o : pt_obs) : bool :=
  close (po_pdf o) (if po_contains o then 1 / bc_impl_vol c else 0) &&
  (let q := to_box Ri (bc_center c) (po_p o) in
   if decided0 (po_tol o) q (bc_impl_lims c) then beqb (po_contains o) (within q (bc_impl_lims c)) else true).

Definition ok_smp (c : box_case) (o : smp_obs) : bool :=
  so_contains o && close (so_pdf o) (1 / bc_impl_vol c).

Definition ok_box (c : box_case) : bool :=
  if bc_impl_ok c then
    forallb (fun l => Qltb (fst l) (snd l)) (bc_impl_lims c)
    && Qltb 0 (bc_impl_vol c) && close (bc_impl_vol c) (volume (bc_impl_lims c))
    && forallb (ok_smp c) (bc_smps c)
    && match bc_rotinv c with
       | Some Ri => forallb (ok_pt c Ri) (bc_pts c)
       | None => true
       end
  else true.

(** line search: scripted objective [pw tbl dflt]; the implementation's probes are (offset, value) *)
Record ls_case := {
  lc_tbl : list (Q * Q); lc_dflt : Q; lc_eps : Q; lc_K : nat; lc_eta : Q; lc_rep_lim : nat;
  lc_impl_res : Q; lc_impl_probes : list (Q * Q)
}.

Definition agree_ls (c : ls_case) : bool :=
  let '(r, log) := line_search (pw (lc_tbl c) (lc_dflt c)) (lc_eps c) (lc_K c) (lc_eta c) (lc_rep_lim c) in
  Qeq_bool r (lc_impl_res c) && vec_eqb log (map fst (lc_impl_probes c))
  && forallb (fun pv => Qeq_bool (pw (lc_tbl c) (lc_dflt c) (fst pv)) (snd pv)) (lc_impl_probes c).

(** [probes_ok strict res eps probes]: every probed offset [<= res] ([< res] when [strict]) had value [< eps] *)
Definition probes_ok (strict : bool) (res eps : Q) (probes : list (Q * Q)) : bool :=
  forallb (fun pv => if (if strict then Qltb (fst pv) res else Qle_bool (fst pv) res)
                     then Qltb (snd pv) eps else true) probes.

Definition ok_ls (c : ls_case) : bool :=
  match lc_impl_probes c with
  | (o0, v0) :: _ =>
      if Qeq_bool o0 0 && Qltb v0 (lc_eps c) && Qltb 0 (lc_eta c) then
        Qltb 0 (lc_impl_res c)
        && probes_ok true (lc_impl_res c) (lc_eps c) (lc_impl_probes c)
        && (if Nat.leb 1 (lc_rep_lim c)
            then probes_ok false (lc_impl_res c) (lc_eps c) (lc_impl_probes c) else true)
      else true
  | [] => true      (* K = 0: nothing probed; the result is compared by [agree_ls] only *)
  end.

(** posterior at a point / weights of drawn samples *)
Record region_in := { ri_rot : mat; ri_rotinv : option mat; ri_center : vec; ri_lims : lims }.

Record post_case := {
  pc_regions : list region_in; pc_surrogate : bool; pc_theta : vec;
  pc_dists : list Q;               (* func_i(theta), oracle *)
  pc_eps : Q; pc_prior : Q;        (* eps_cutoff, prior.pdf(theta) oracle *)
  pc_tol : Q;
  pc_impl_val : Q; pc_impl_called : list nat
}.

Fixpoint mk_boxes (l : list region_in) : option (list box) :=
  match l with
  | [] => Some []
  | r :: l' =>
      match mk_box (ri_rot r) (ri_rotinv r) (ri_center r) (ri_lims r), mk_boxes l' with
      | Some b, Some bs => Some (b :: bs)
      | _, _ => None
      end
  end.

Definition nat_list_eqb (a b : list nat) : bool := if list_eq_dec Nat.eq_dec a b then true else false.

Definition all_decided (tol : Q) (bs : list box) (th : vec) : bool :=
  forallb (fun b => decided0 tol (to_box (b_rotinv b) (b_center b) th) (b_lims b)) bs.

Definition agree_post (c : post_case) : bool :=
  match mk_boxes (pc_regions c) with
  | None => false
  | Some bs =>
      if all_decided (pc_tol c) bs (pc_theta c) then
        match pdf_unnorm (pc_surrogate c) bs (pc_theta c) (pc_dists c) (pc_eps c) (pc_prior c) with
        | Some (v, _, called) => close v (pc_impl_val c) && nat_list_eqb called (pc_impl_called c)
        | None => false
        end
      else true
  end.

(** specification: prior times the number of problems with distance within the cut-off
    (and, with surrogates, whose region contains the point) — no loop, via [filter] *)
Definition spec_count (surrogate : bool) (bs : list box) (th : vec) (ds : list Q) (eps : Q) : nat :=
  length (filter (fun bd : box * Q =>
                    (if surrogate
                     then within (to_box (b_rotinv (fst bd)) (b_center (fst bd)) th) (b_lims (fst bd))
                     else true) && Qle_bool (snd bd) eps)
                 (combine bs ds)).

Definition ok_post (c : post_case) : bool :=
  match mk_boxes (pc_regions c) with
  | None => true
  | Some bs =>
      if all_decided (pc_tol c) bs (pc_theta c) then
        close (pc_impl_val c)
              (pc_prior c * inject_Z (Z.of_nat (spec_count (pc_surrogate c) bs (pc_theta c) (pc_dists c) (pc_eps c))))
      else true
  end.

(** weights: per drawn sample of region [wc_region]: point, prior value, distance; implementation's
    weight and the region density the implementation itself reports at that point *)
Record w_obs := { wo_p : vec; wo_prior : Q; wo_dist : Q; wo_impl_w : Q; wo_impl_q : Q }.
(** [wc_drawn]: the points are the rows [sample()] returned for this region (else: chosen points handed to
    [_worker_compute_weight]) *)
Record w_case := { wc_region : region_in; wc_eps : Q; wc_tol : Q; wc_drawn : bool; wc_obs : list w_obs }.

Definition agree_w (c : w_case) : bool :=
  match mk_box (ri_rot (wc_region c)) (ri_rotinv (wc_region c)) (ri_center (wc_region c)) (ri_lims (wc_region c)) with
  | None => false
  | Some b =>
      forallb (fun o =>
                 match pdf b (wo_p o) with
                 | Some q =>
                     if decided (Qabs (wc_tol c) + ntol) (to_box (b_rotinv b) (b_center b) (wo_p o)) (b_lims b)
                     then close q (wo_impl_q o) && close (weight q (wo_prior o) (wo_dist o) (wc_eps c)) (wo_impl_w o)
                     else true
                 | None => false
                 end) (wc_obs c)
  end.

(** weight = [dist < eps] * prior / region density, with the density the implementation reports;
    drawn samples have positive density *)
Definition ok_w (c : w_case) : bool :=
  forallb (fun o =>
             if Qltb 0 (wo_impl_q o)
             then close (wo_impl_w o) ((if Qltb (wo_dist o) (wc_eps c) then 1 else 0) * wo_prior o / wo_impl_q o)
             else negb (wc_drawn c) && Qeq_bool (wo_impl_w o) 0)
          (wc_obs c).

(** ---- construction histories: a family of boxes ----
    Several boxes are built one after another, possibly from the SAME array objects (limits, rotation,
    centre) and with the caller overwriting its limits buffer between two constructions.  Every member
    records the values that were handed to ITS constructor and what the implementation reports about THAT
    box once the whole history is over (attributes, contains/pdf on chosen points, sample() rows).
    The model has no state shared between boxes: every member is compared with a fresh [mk_box] of its
    own inputs, and every member has to satisfy the property on its own ([ok_box]: proper limits, volume =
    product of the widths of the limits the box reports, density 1/volume exactly on the set its
    [contains] accepts = [within] those limits, drawn samples contained). *)
Definition agree_fam (l : list box_case) : bool := forallb agree_box l.
Definition ok_fam (l : list box_case) : bool := forallb ok_box l.

(** ---- call histories on one posterior ----
    One [RomcPosterior] object; the steps are [reset_eps_cutoff(eps)], an evaluation of the unnormalised
    density at a point ([_pdf_unnorm_single_point] / one row of [pdf_unnorm_batched]) and the weights
    [sample()] gives to the rows drawn from one region.  The only state of the model is the current
    cut-off: the constructor's value until the first reset, then the value of the latest reset. *)
Record ev_obs := {
  eo_theta : vec; eo_dists : list Q; eo_prior : Q;    (* point, func_i(theta) oracle, prior.pdf(theta) oracle *)
  eo_tol : Q;                                          (* as [pc_tol] *)
  eo_impl_val : Q; eo_impl_called : list nat
}.
Record hw_obs := { ho_region : nat; ho_drawn : bool; ho_obs : list w_obs }.

Inductive hstep :=
| HReset (eps : Q)
| HEval (e : ev_obs)
| HWeight (w : hw_obs).

Record hist_case := {
  hc_regions : list region_in; hc_surrogate : bool;
  hc_eps0 : Q;                     (* eps_cutoff given to the constructor *)
  hc_tol : Q;                      (* margin for the weight steps, as [wc_tol] *)
  hc_steps : list hstep
}.

(** [hist_all f eps steps]: [f cut-off step] holds at every non-reset step, the cut-off being threaded *)
Fixpoint hist_all (f : Q -> hstep -> bool) (eps : Q) (steps : list hstep) : bool :=
  match steps with
  | [] => true
  | HReset e :: r => hist_all f e r
  | s :: r => f eps s && hist_all f eps r
  end.

(** the cut-off in force at step [i]: declarative counterpart (latest reset strictly before [i]) *)
Fixpoint cutoff_at (eps : Q) (steps : list hstep) (i : nat) : Q :=
  match i, steps with
  | S j, HReset e :: r => cutoff_at e r j
  | S j, _ :: r => cutoff_at eps r j
  | _, _ => eps
  end.

Definition step_post (c : hist_case) (eps : Q) (e : ev_obs) : post_case :=
  {| pc_regions := hc_regions c; pc_surrogate := hc_surrogate c; pc_theta := eo_theta e;
     pc_dists := eo_dists e; pc_eps := eps; pc_prior := eo_prior e; pc_tol := eo_tol e;
     pc_impl_val := eo_impl_val e; pc_impl_called := eo_impl_called e |}.

Definition step_w (c : hist_case) (eps : Q) (w : hw_obs) : option w_case :=
  match nth_error (hc_regions c) (ho_region w) with
  | Some r => Some {| wc_region := r; wc_eps := eps; wc_tol := hc_tol c; wc_drawn := ho_drawn w; wc_obs := ho_obs w |}
  | None => None
  end.

Definition agree_step (c : hist_case) (eps : Q) (s : hstep) : bool :=
  match s with
  | HReset _ => true
  | HEval e => agree_post (step_post c eps e)
  | HWeight w => match step_w c eps w with Some wc => agree_w wc | None => false end
  end.

Definition ok_step (c : hist_case) (eps : Q) (s : hstep) : bool :=
  match s with
  | HReset _ => true
  | HEval e => ok_post (step_post c eps e)
  | HWeight w => match step_w c eps w with Some wc => ok_w wc | None => true end
  end.

Definition agree_hist (c : hist_case) : bool := hist_all (agree_step c) (hc_eps0 c) (hc_steps c).
Definition ok_hist (c : hist_case) : bool := hist_all (ok_step c) (hc_eps0 c) (hc_steps c).

(** the model's own run of a history of queries (the [eo_impl_*] fields of the input are ignored and
    replaced by the model's answers; weight steps are dropped) *)
Definition model_eval (sur : bool) (bs : list box) (eps : Q) (e : ev_obs) : ev_obs :=
  match pdf_unnorm sur bs (eo_theta e) (eo_dists e) eps (eo_prior e) with
  | Some (v, _, called) =>
      {| eo_theta := eo_theta e; eo_dists := eo_dists e; eo_prior := eo_prior e; eo_tol := eo_tol e;
         eo_impl_val := v; eo_impl_called := called |}
  | None => e
  end.
Fixpoint model_hist (sur : bool) (bs : list box) (eps : Q) (steps : list hstep) : list hstep :=
  match steps with
  | [] => []
  | HReset e :: r => HReset e :: model_hist sur bs e r
  | HEval e :: r => HEval (model_eval sur bs eps e) :: model_hist sur bs eps r
  | HWeight _ :: r => model_hist sur bs eps r
  end.

Inductive case :=
| CBox (c : box_case)
| CLine (c : ls_case)
| CPost (c : post_case)
| CWeight (c : w_case)
| CFam (l : list box_case)
| CHist (c : hist_case).

Definition agree (c : case) : bool :=
  match c with
  | CBox b => agree_box b | CLine l => agree_ls l | CPost p => agree_post p | CWeight w => agree_w w
  | CFam l => agree_fam l | CHist h => agree_hist h
  end.

Definition ok (c : case) : bool :=
  match c with
  | CBox b => ok_box b | CLine l => ok_ls l | CPost p => ok_post p | CWeight w => ok_w w
  | CFam l => ok_fam l | CHist h => ok_hist h
  end.
