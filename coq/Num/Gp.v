(** C10 — hand-written model of the BOLFI posterior's control flow and of the surrogate's
    evidence store (no proofs here; proofs are in Proofs/C10_Post.v).

    Anchored code (elfi/methods/posteriors.py, class BolfiPosterior):
      [_within_bounds]                          -> [within_bounds]   (fold over the coordinates)
      [_unnormalized_loglikelihood]             -> [ll_row], [loglik_out]  (mask, scatter, shape rule)
      [_gradient_unnormalized_loglikelihood]    -> [grad_coord], [gradlik_row], [gradlik_out]
      [logpdf], [gradient_logpdf]               -> [logpdf_row], [gradpdf_row]
    elfi/methods/bo/gpy_regression.py, class GPyRegression:
      [update] / [X] / [Y] / [n_evidence]       -> [update], [run_updates], [n_evidence]

    Numbers are exact rationals ([Q]); every binary64 the implementation produced is one.
    The surrogate (GPy) and the library functions sqrt / exp / normal pdf, cdf, logpdf, logcdf are
    ORACLES: the harness records, per query row, the values the real surrogate handed to the
    implementation (spied) and the values scipy/numpy return at the occurring arguments
    ([gp_oracle]); [oracle_ok] checks inside Coq that the recorded values are mutually consistent
    (sd*sd ~ var, z ~ (t - mean)/sd, exp(logpdf - logcdf) ~ pdf/cdf, Mills-ratio bounds in the far
    tail) so that the model's arithmetic is tied to the recorded arguments.  The formula of the gradient also exists as a *generated* definition
    (Gen/C10_Gradient.v, from the source text); [agree_gen] in Num/GpGen.v evaluates that one. *)
From Coq Require Import List QArith Qabs Bool Arith ZArith.
From Coq Require String.
Notation string := String.string.
Import ListNotations.

(** * extended values *)
Inductive ext := Fin (q : Q) | NegInf.

(** [-inf + y = -inf], [x + -inf = -inf] (the prior's log density is never [+inf]) *)
Definition ext_add (a b : ext) : ext :=
  match a, b with Fin x, Fin y => Fin (x + y) | _, _ => NegInf end.

(** what the implementation returned in one float slot *)
Inductive obs := OFin (q : Q) | ONegInf | OOther.   (* OOther: nan / +inf *)

(** * [_within_bounds]: for i in range(dim): logical *= x_i >= lo_i; logical *= x_i <= hi_i *)
Definition bound := (Q * Q)%type.

Definition within_step (acc : bool) (p : Q * bound) : bool :=
  let '(xi, (lo, hi)) := p in (acc && Qle_bool lo xi) && Qle_bool xi hi.

Definition within_bounds (x : list Q) (b : list bound) : bool :=
  fold_left within_step (combine x b) true.

(** * [GPyRegression.__init__]: from the user's bounds dict to [surrogate.bounds] (what [_within_bounds] reads)

      elif len(bounds) != input_dim: raise ValueError
      elif isinstance(bounds, dict):
          if len(bounds) == 1: bounds = [bounds[n] for n in bounds.keys()]      (parameter_names may be None)
          else:                bounds = [bounds[n] for n in parameter_names]

    The dict is an association list in INSERTION order (the order in which the user wrote the keys);
    [_within_bounds] pairs [model.bounds[i]] with coordinate i = parameter_names[i].  (Same text as
    the C11 model Num/Acq.v [box_of]; kept separately so that this file depends on no other property.) *)
Definition bdict := list (string * bound).

Fixpoint lookup (d : bdict) (n : string) : option bound :=
  match d with
  | [] => None
  | (k, iv) :: d' => if String.eqb k n then Some iv else lookup d' n
  end.

(** [[bounds[n] for n in names]] ([None]: KeyError) *)
Fixpoint lookup_all (d : bdict) (names : list string) : option (list bound) :=
  match names with
  | [] => Some []
  | n :: r => match lookup d n, lookup_all d r with
              | Some iv, Some b => Some (iv :: b)
              | _, _ => None
              end
  end.

Definition box_of (names : list string) (d : bdict) : option (list bound) :=
  if negb (Nat.eqb (length d) (length names)) then None          (* ValueError *)
  else if Nat.eqb (length d) 1 then Some (map snd d)
  else lookup_all d names.

Definition bound_eqb (x y : bound) : bool := Qeq_bool (fst x) (fst y) && Qeq_bool (snd x) (snd y).

(** * oracle values recorded for one query row *)
Record gp_oracle := {
  o_mean : Q;            (* model.predict(x)[0] *)
  o_var : Q;             (* model.predict(x)[1]  (noisy predictive variance) *)
  o_gmean : list Q;      (* model.predictive_gradients(x)[0], one per coordinate *)
  o_gvar : list Q;       (* model.predictive_gradients(x)[1] *)
  o_sd : Q;              (* np.sqrt(o_var) *)
  o_z : Q;               (* the binary64 term = (t - mean)/sd at which the values below were taken *)
  o_pdf : Q;             (* ss.norm.pdf(o_z)     (may have underflowed to 0 in the far lower tail) *)
  o_cdf : Q;             (* ss.norm.cdf(o_z)     (likewise) *)
  o_logpdf : Q;          (* ss.norm.logpdf(o_z) *)
  o_logcdf : Q;          (* ss.norm.logcdf(o_z) *)
  o_lr : Q;              (* the binary64 o_logpdf - o_logcdf *)
  o_ratio : Q            (* np.exp(o_lr)  =  phi(z)/Phi(z) *)
}.

Record row := {
  r_x : list Q;
  r_orc : gp_oracle;
  r_lprior : ext;        (* prior.logpdf(x) *)
  r_gprior : list Q      (* prior.gradient_logpdf(x) *)
}.

(** relative/absolute closeness used for every float-vs-rational comparison: 1e-9 *)
Definition tol : Q := 1 # 1000000000.
Definition close (a b : Q) : bool := Qle_bool (Qabs (a - b)) (tol * (1 + Qabs b)).

Definition Qlt_bool (a b : Q) : bool := negb (Qle_bool b a).

(** consistency of the recorded library values: sd^2 ~ var, z ~ (t - mean)/sd, lr ~ logpdf - logcdf,
    and the ratio exp(lr) really is phi(z)/Phi(z): checked against pdf/cdf where cdf has not
    underflowed, and against the Mills-ratio bounds  -z < phi(z)/Phi(z) < -z + 1/(-z)  for z < -1
    (the only check available in the far tail, where pdf and cdf are both 0.0 in binary64) *)
Definition oracle_ok (dim : nat) (t : Q) (o : gp_oracle) : bool :=
  Qlt_bool 0 (o_var o) && Qlt_bool 0 (o_sd o) && Qle_bool 0 (o_ratio o)
  && close (o_sd o * o_sd o) (o_var o)
  && close (o_z o) ((t - o_mean o) / o_sd o)
  && close (o_lr o) (o_logpdf o - o_logcdf o)
  && (if Qlt_bool (1 # 1000000000000) (o_cdf o) then close (o_ratio o * o_cdf o) (o_pdf o) else true)
  && (if Qlt_bool (o_z o) (- (1))
      then (* the binary64 difference logpdf - logcdf carries an absolute error of a few ulp of its
              operands (cancellation: ~ eps z^2), which is a relative error of exp of it *)
           let slack := tol + (Qabs (o_logpdf o) + Qabs (o_logcdf o)) * (4 # 4503599627370496) in
           Qle_bool ((- o_z o) * (1 - slack)) (o_ratio o)
           && Qle_bool (o_ratio o) ((- o_z o + 1 / (- o_z o)) * (1 + slack))
      else true)
  && (length (o_gmean o) =? dim) && (length (o_gvar o) =? dim).

(** * the formula lines (hand-written mirror; the generated twin is Gen/C10_Gradient.gradQ) *)

(** ss.norm.logcdf(threshold, mean, np.sqrt(var)) = ln Phi((t - mean)/sd): the oracle's value *)
Definition ll_value (o : gp_oracle) : Q := o_logcdf o.

Definition grad_coord (t : Q) (o : gp_oracle) (gm gv : Q) : Q :=
  let std := o_sd o in
  let factor := (- gm) * std - (t - o_mean o) * (1 # 2) * gv / std in
  let factor := factor / o_var o in
  (* pdf_cdf_ratio = np.exp(ss.norm.logpdf(term) - ss.norm.logcdf(term)): the oracle's value *)
  factor * o_ratio o.

Fixpoint map2 {A B C} (f : A -> B -> C) (l : list A) (m : list B) : list C :=
  match l, m with a :: l', b :: m' => f a b :: map2 f l' m' | _, _ => [] end.

(** * per-row results (mask + scatter: rows outside keep the initial -inf / zero row) *)
Definition ll_row (b : list bound) (r : row) : ext :=
  if within_bounds (r_x r) b then Fin (ll_value (r_orc r)) else NegInf.

Definition logpdf_row (b : list bound) (r : row) : ext := ext_add (ll_row b r) (r_lprior r).

Definition gradlik_row (b : list bound) (t : Q) (r : row) : list Q :=
  if within_bounds (r_x r) b
  then map2 (grad_coord t (r_orc r)) (o_gmean (r_orc r)) (o_gvar (r_orc r))
  else map (fun _ => 0) (r_x r).

Definition gradpdf_row (b : list bound) (t : Q) (r : row) : list Q :=
  map2 Qplus (gradlik_row b t r) (r_gprior r).

(** * shape rule: [if ndim == 0 or (ndim == 1 and self.dim > 1): out = out[0]] *)
Inductive shaped (A : Type) := Scalar (a : A) | Vec (l : list A).
Arguments Scalar {A} a.
Arguments Vec {A} l.

Definition takes_first (ndim dim : nat) : bool := (ndim =? 0) || ((ndim =? 1) && (1 <? dim)).

Definition shape_out {A} (ndim dim : nat) (d : A) (rows : list A) : shaped A :=
  if takes_first ndim dim then Scalar (hd d rows) else Vec rows.

Definition loglik_out (ndim dim : nat) (b : list bound) (rows : list row) : shaped ext :=
  shape_out ndim dim NegInf (map (ll_row b) rows).

Definition gradlik_out (ndim dim : nat) (b : list bound) (t : Q) (rows : list row) : shaped (list Q) :=
  shape_out ndim dim [] (map (gradlik_row b t) rows).

(** * the property's own reading (used by [ok], independent of the fold above) *)
Definition coord_outside (p : Q * bound) : bool :=
  let '(xi, (lo, hi)) := p in Qlt_bool xi lo || Qlt_bool hi xi.

Definition outside (x : list Q) (b : list bound) : bool := existsb coord_outside (combine x b).

(** d/dx_j ln Phi((t - mu)/sd), chain rule form:  phi(z)/Phi(z) * ( -mu'_j/sd - (t - mu) v'_j / (2 sd v) ) *)
Definition spec_grad_coord (t : Q) (o : gp_oracle) (gm gv : Q) : Q :=
  o_ratio o * (- gm / o_sd o - (t - o_mean o) * gv / (2 * o_sd o * o_var o)).

Definition spec_logpdf (b : list bound) (r : row) : ext :=
  if outside (r_x r) b then NegInf
  else match r_lprior r with Fin p => Fin (o_logcdf (r_orc r) + p) | NegInf => NegInf end.

(** * comparisons with observations *)
Definition ext_obs_close (m : ext) (o : obs) : bool :=
  match m, o with
  | Fin a, OFin b => close b a
  | NegInf, ONegInf => true
  | _, _ => false
  end.

Fixpoint all2 {A B} (f : A -> B -> bool) (l : list A) (m : list B) : bool :=
  match l, m with
  | [], [] => true
  | a :: l', b :: m' => f a b && all2 f l' m'
  | _, _ => false
  end.

Definition q_obs_close (m : Q) (o : option Q) : bool :=
  match o with Some b => close b m | None => false end.

Definition shaped_all2 {A B} (f : A -> B -> bool) (m : shaped A) (o : shaped B) : bool :=
  match m, o with
  | Scalar a, Scalar b => f a b
  | Vec l, Vec k => all2 f l k
  | _, _ => false
  end.

(** * evidence store: [update] rebuilds the GP on np.r_[old, new]; first update initialises *)
Section Evidence.
  Context {A : Type}.
  Definition evidence := option (list A).          (* None: self._gp is None *)
  Definition update (st : evidence) (batch : list A) : evidence :=
    match st with None => Some batch | Some e => Some (e ++ batch) end.
  Definition rows_of (st : evidence) : list A := match st with None => [] | Some e => e end.
  Definition n_evidence (st : evidence) : nat := length (rows_of st).
  (** snapshots after each update *)
  Fixpoint run_updates (st : evidence) (bs : list (list A)) : list evidence :=
    match bs with [] => [] | b :: r => update st b :: run_updates (update st b) r end.
  Definition final (st : evidence) (bs : list (list A)) : evidence := fold_left update bs st.
End Evidence.

Definition Qeqb_strict (a b : Q) : bool := Z.eqb (Qnum a) (Qnum b) && Pos.eqb (Qden a) (Qden b).
Definition erow := (list Q * Q)%type.     (* one evidence row: (X[i, :], Y[i, 0]) *)
Definition erow_eqb (a b : erow) : bool := all2 Qeqb_strict (fst a) (fst b) && Qeqb_strict (snd a) (snd b).

(** [l] is a prefix of [m] and the rest of [m] is [rest], exactly and in order *)
Fixpoint prefix_then (l m rest : list erow) : bool :=
  match l, m with
  | [], _ => all2 erow_eqb m rest
  | a :: l', b :: m' => erow_eqb a b && prefix_then l' m' rest
  | _ :: _, [] => false
  end.

(** * correspondence-check interface *)
Record post_case := {
  pc_dim : nat;
  pc_ndim : nat;                         (* x.ndim of the query as passed *)
  pc_names : list string;                (* surrogate.parameter_names *)
  pc_dict : bdict;                       (* the bounds dict as the user wrote it (key order = insertion order) *)
  pc_impl_bounds : list bound;           (* surrogate.bounds as read back from the constructed object *)
  pc_t : Q;                              (* posterior.threshold *)
  pc_rows : list row;
  pc_impl_ll : shaped obs;               (* _unnormalized_loglikelihood(x), with its shape class *)
  pc_impl_gl : shaped (list (option Q)); (* _gradient_unnormalized_loglikelihood(x) *)
  pc_impl_logpdf : list obs;             (* logpdf(x), flattened: one per row *)
  pc_impl_grad : list (list (option Q))  (* gradient_logpdf(x), one row per query row *)
}.

Record ev_case := {
  ec_batches : list (list erow);                  (* update(x_k, y_k) calls in order *)
  ec_snaps : list (list erow * nat)               (* (zip X Y, n_evidence) observed after each call *)
}.

Inductive case := PostCase (c : post_case) | EvCase (c : ev_case).

(** the box the MODEL's posterior tests against: [box_of parameter_names dict] ([[]] if the constructor raises) *)
Definition pc_bounds (c : post_case) : list bound :=
  match box_of (pc_names c) (pc_dict c) with Some b => b | None => [] end.

Definition post_agree (c : post_case) : bool :=
  let b := pc_bounds c in let t := pc_t c in
  match box_of (pc_names c) (pc_dict c) with Some _ => true | None => false end
  && all2 bound_eqb b (pc_impl_bounds c)
  && forallb (fun r => oracle_ok (pc_dim c) t (r_orc r) && (length (r_x r) =? pc_dim c)) (pc_rows c)
  && (length b =? pc_dim c)
  && shaped_all2 ext_obs_close (loglik_out (pc_ndim c) (pc_dim c) b (pc_rows c)) (pc_impl_ll c)
  && shaped_all2 (all2 q_obs_close) (gradlik_out (pc_ndim c) (pc_dim c) b t (pc_rows c)) (pc_impl_gl c)
  && all2 ext_obs_close (map (logpdf_row b) (pc_rows c)) (pc_impl_logpdf c)
  && all2 (all2 q_obs_close) (map (gradpdf_row b t) (pc_rows c)) (pc_impl_grad c).

(** property on the implementation's own output:
    outside -> -inf; inside -> logcdf + logprior; inside with finite prior: gradient = chain rule *)
Definition row_ok (b : list bound) (t : Q) (r : row) (lp : obs) (g : list (option Q)) : bool :=
  ext_obs_close (spec_logpdf b r) lp
  && (if outside (r_x r) b then true
      else all2 q_obs_close
             (map2 Qplus (map2 (spec_grad_coord t (r_orc r)) (o_gmean (r_orc r)) (o_gvar (r_orc r))) (r_gprior r)) g).

Fixpoint rows_ok (b : list bound) (t : Q) (rows : list row) (lps : list obs) (gs : list (list (option Q))) : bool :=
  match rows, lps, gs with
  | [], [], [] => true
  | r :: rows', lp :: lps', g :: gs' => row_ok b t r lp g && rows_ok b t rows' lps' gs'
  | _, _, _ => false
  end.

(** "the bounds" of the property are the USER's, parameter by parameter: coordinate i is judged against
    the interval the dict binds to the NAME parameter_names[i] ([lookup_all], whatever the key order;
    independent of [box_of] and of what the constructed surrogate stores) *)
Definition post_ok (c : post_case) : bool :=
  match lookup_all (pc_dict c) (pc_names c) with
  | Some b => (length (pc_names c) =? pc_dim c)
              && forallb (fun r => length (r_x r) =? pc_dim c) (pc_rows c)
              && rows_ok b (pc_t c) (pc_rows c) (pc_impl_logpdf c) (pc_impl_grad c)
  | None => false
  end.

Definition ev_agree (c : ev_case) : bool :=
  all2 (fun (m : @evidence erow) (s : list erow * nat) =>
          all2 erow_eqb (rows_of m) (fst s) && (n_evidence m =? snd s))
       (run_updates None (ec_batches c)) (ec_snaps c).

(** each observed snapshot = previous snapshot ++ the batch just added, and n_evidence counts it *)
Fixpoint ev_ok_from (prev : list erow) (bs : list (list erow)) (snaps : list (list erow * nat)) : bool :=
  match bs, snaps with
  | [], [] => true
  | b :: bs', (s, n) :: snaps' => prefix_then prev s b && (length s =? n) && ev_ok_from s bs' snaps'
  | _, _ => false
  end.

Definition ev_ok (c : ev_case) : bool := ev_ok_from [] (ec_batches c) (ec_snaps c).

Definition agree (c : case) : bool := match c with PostCase p => post_agree p | EvCase e => ev_agree e end.
Definition ok (c : case) : bool := match c with PostCase p => post_ok p | EvCase e => ev_ok e end.
