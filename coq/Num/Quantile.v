(** Model of the weighted-sample helpers of [elfi/methods/utils.py] (C13):
    [weighted_sample_quantile], [normalize_weights], [compute_ess], [weighted_var] and
    [GMDistribution.pdf/logpdf/rvs].

    Data values are exact rationals (every binary64 is one).  Weight vectors are lists of such
    numeric values ONLY: the model has no notion of the array's dtype or container (float64,
    float32, int64/int32/uint8, bool, Python list) nor of the common magnitude of the weights, so a
    result may depend on nothing but the numeric values (and, by the scale-invariance theorems,
    only on their ratios).  The argsort of the quantile is an
    explicit oracle argument [index] (any permutation that sorts the values); [argsort] is one
    concrete stable choice used for execution.  Errors raised by the Python code (IndexError,
    ValueError, ZeroDivisionError) and non-finite results (nan/inf) are [None].
    No proofs in this file.                                                                     *)
From Coq Require Import List ZArith QArith Qabs Bool Arith.
Import ListNotations.
Open Scope Q_scope.

Definition Qltb (a b : Q) : bool := negb (Qle_bool b a).
(** sum of a list; reduced at every step only to keep evaluation cheap ([Qred q == q]) *)
Definition qsum (l : list Q) : Q := fold_right (fun a acc => Qred (a + acc)) 0 l.
Definition sq (x : Q) : Q := x * x.
Definition ones {A} (l : list A) : list Q := map (fun _ => 1) l.

(** ---------------------------------------------------------------------------------------- *)
(** * normalize_weights / compute_ess                                                         *)

(** [w = atleast_1d(weights); any(w<0) -> ValueError; sum==0 -> ValueError; w / wsum] *)
Definition normalize_weights (ws : list Q) : option (list Q) :=
  if existsb (fun w => Qltb w 0) ws then None
  else let s := qsum ws in
       if Qeq_bool s 0 then None else Some (map (fun w => Qred (w / s)) ws).

(** [numer = square(sum(w)); denom = sum(square(w)); numer / denom] on the normalised weights *)
Definition compute_ess (ws : list Q) : option Q :=
  match normalize_weights ws with
  | None => None
  | Some nw => Some (Qred (sq (qsum nw) / qsum (map sq nw)))
  end.

(** ---------------------------------------------------------------------------------------- *)
(** * weighted_var (one column of x)                                                          *)

Definition wtot (xw : list (Q * Q)) : Q := qsum (map snd xw).

(** the variance formula on rows [(x_i, w_i)] whose weights are already normalised:
    [V_1 = sum(w); V_2 = sum(w**2); xbar = average(x, weights=w);
     numerator = w.dot((x - xbar)**2); numerator / (V_1 - V_2 / V_1)]                         *)
Definition wvar_core (xw : list (Q * Q)) : option Q :=
  let V1 := wtot xw in
  let V2 := qsum (map (fun p => sq (snd p)) xw) in
  if Qeq_bool V1 0 then None else                       (* np.average: ZeroDivisionError *)
  let xbar := Qred (qsum (map (fun p => fst p * snd p) xw) / V1) in
  let numerator := qsum (map (fun p => snd p * sq (fst p - xbar)) xw) in
  let den := V1 - V2 / V1 in
  if Qeq_bool den 0 then None else                      (* x/0: nan or inf *)
  Some (Qred (numerator / den)).

(** as coded since /repo 7d9ef43: [weights = asarray(weights, dtype=float); weights = weights / sum(weights)]
    first (a zero sum makes every weight nan or inf and the result nan), then the formula above *)
Definition wvar_rows (xw : list (Q * Q)) : option Q :=
  let s := wtot xw in
  if Qeq_bool s 0 then None
  else wvar_core (map (fun p => (fst p, / s * snd p)) xw).

Definition weighted_var (xs : list Q) (ws : option (list Q)) : option Q :=
  let w := match ws with Some w => w | None => ones xs end in
  if negb (length w =? length xs)%nat then None else wvar_rows (combine xs w).

(** ---------------------------------------------------------------------------------------- *)
(** * weighted_sample_quantile                                                                *)

(** [where(logical_and(cum[:-1] < alpha, alpha <= cum[1:]))[0][0]] over the sorted rows, with
    [cum[0] = 0], [cum[i+1] = cum[i] + w_i] and the last entry overwritten by [1.0];
    [c] is [cum[i]] of the current row; no hit is an IndexError.                              *)
Fixpoint scan (alpha c : Q) (sp : list (Q * Q)) : option Q :=
  match sp with
  | [] => None
  | (x, w) :: r =>
      let c' := match r with [] => 1 | _ => c + w end in
      if Qltb c alpha && Qle_bool alpha c' then Some x else scan alpha (Qred (c + w)) r
  end.

(** [index] is what [np.argsort(x)] returned *)
Definition wsq_idx (index : list nat) (xs : list Q) (alpha : Q) (ws : option (list Q)) : option Q :=
  if Qeq_bool alpha 0 then
    match index with [] => None | i :: _ => Some (nth i xs 0) end          (* x[index[0]] *)
  else
    let w := match ws with Some w => w | None => ones index end in
    if negb (length w =? length xs)%nat then None else
    let s := qsum w in
    if Qeq_bool s 0 then
      (* all normalised weights are nan, so cum = [0, nan, .., nan, 1.0]: the only possible hit is
         the single row of a one-element sample (cum = [0, 1.0]) *)
      match index with
      | [i] => if Qltb 0 alpha && Qle_bool alpha 1 then Some (nth i xs 0) else None
      | _ => None
      end
    else
    let nw := map (fun v => Qred (v / s)) w in
    scan alpha 0 (map (fun i => (nth i xs 0, nth i nw 0)) index).

(** a concrete stable argsort (insertion) *)
Fixpoint ins (xs : list Q) (i : nat) (l : list nat) : list nat :=
  match l with
  | [] => [i]
  | j :: r => if Qle_bool (nth i xs 0) (nth j xs 0) then i :: l else j :: ins xs i r
  end.
Definition argsort (xs : list Q) : list nat := fold_right (ins xs) [] (seq 0 (length xs)).

Definition wsq (xs : list Q) (alpha : Q) (ws : option (list Q)) : option Q :=
  wsq_idx (argsort xs) xs alpha ws.

(** the property's vocabulary: (unnormalised) weight of the rows with value [<= q] / [< q] *)
Definition wle (q : Q) (xw : list (Q * Q)) : Q :=
  qsum (map (fun p => if Qle_bool (fst p) q then snd p else 0) xw).
Definition wlt (q : Q) (xw : list (Q * Q)) : Q :=
  qsum (map (fun p => if Qltb (fst p) q then snd p else 0) xw).

(** ---------------------------------------------------------------------------------------- *)
(** * GMDistribution                                                                          *)

(** [pdf] at one point; [dens] = the component densities [N(x; m_i, C)] in component order:
    [d = 0; for m, w in zip(means, weights): d += w * N(x; m, C)]                             *)
Definition gm_pdf (dens : list Q) (ws : option (list Q)) : option Q :=
  let w := match ws with Some w => w | None => ones dens end in
  match normalize_weights w with
  | None => None
  | Some nw => Some (fold_left (fun d p => Qred (d + fst p * snd p)) (combine nw dens) 0)
  end.

Section GM.
  Variables X M : Type.
  Variable Nd : X -> M -> Q.       (* the normal density N(x; m, C) for the shared C *)
  Variable ln : Q -> Q.
  Definition gm_pdf_at (x : X) (means : list M) (ws : option (list Q)) : option Q :=
    gm_pdf (map (Nd x) means) ws.
  Definition gm_logpdf_at (x : X) (means : list M) (ws : option (list Q)) : option Q :=
    option_map ln (gm_pdf_at x means ws).
End GM.

(** [rvs] with a validity test: the accept loop.  [draw t n] is the batch of [n] proposals
    ([means[inds] + perturb]) made in trial [t]; [acc] is [output[:n_accepted]].            *)
Section Rvs.
  Variable X : Type.
  Variable valid : X -> bool.                    (* isfinite(prior_logpdf(x)) *)
  Variable draw : nat -> nat -> list X.
  Fixpoint rvs_loop (fuel : nat) (trial : nat) (size : nat) (acc : list X) : option (list X) :=
    if (size <=? length acc)%nat then Some acc else          (* while n_accepted < size *)
    match fuel with
    | O => None
    | S f =>
        let n_left := (size - length acc)%nat in
        let b := draw trial n_left in
        if negb (length b =? n_left)%nat then None else
        rvs_loop f (S trial) size (acc ++ filter valid b)
    end.
  Definition rvs (fuel size : nat) : option (list X) := rvs_loop fuel 0%nat size [].
End Rvs.

(** ---------------------------------------------------------------------------------------- *)
(** * correspondence-check interface                                                          *)

Definition close (tol a b : Q) : bool := Qle_bool (Qabs (a - b)) (tol * (1 + Qabs a)).
Definition opt_close (tol : Q) (m i : option Q) : bool :=
  match m, i with
  | Some a, Some b => close tol a b
  | None, None => true
  | _, _ => false
  end.
Definition opt_eq (m i : option Q) : bool := opt_close 0 m i.
Fixpoint all2 {A B} (f : A -> B -> bool) (a : list A) (b : list B) : bool :=
  match a, b with
  | [], [] => true
  | x :: a', y :: b' => f x y && all2 f a' b'
  | _, _ => false
  end.

(** one call of the quantile: [alpha], result on [ws], result on [scale * ws] *)
Record qrun := { r_alpha : Q; r_impl : option Q; r_impl_scaled : option Q }.

(** one call of [normalize_weights] and [compute_ess] on the weights [w_scale * ws] (the product
    is exact in the representation handed to the implementation); [w_tol]: relative tolerance of
    the representation's arithmetic (1e-9 for binary64 and integers, 1e-5 for binary32) *)
Record wrun := { w_scale : Q; w_tol : Q; w_norm : option (list Q); w_ess : option Q }.

(** one call of the class-level API [GMDistribution.pdf / logpdf / rvs] inside a HISTORY of calls.
    A call is described by the numbers passed at that call only (component densities of the points
    for the means / covariance of that call, the weights of that call; size, constraint and
    proposal batches of that call): the model has no state that survives a call, so whatever the
    caller evaluated before, and whichever array objects it re-uses or edits in place between two
    calls, the answer is the model's answer for the current numbers.  [i_exp] of a [logpdf] call is
    [exp] of the returned log densities ([ln] is abstract in the model: [logpdf = ln pdf]).      *)
Inductive gmcall :=
| GPdf (dens : list (list Q)) (ws : option (list Q)) (tol : Q) (i_pdf : option (list Q))
| GLogpdf (dens : list (list Q)) (ws : option (list Q)) (tol : Q) (i_exp : option (list Q))
| GRvs (size : nat) (box : option (list (Q * Q))) (batches : list (list (list Q)))
       (i_out : option (list (list Q))).

Inductive case :=
| CQuant (xs : list Q) (ws : option (list Q)) (tol scale : Q) (index : list nat) (runs : list qrun)
| CStat (xs : list Q) (ws : option (list Q)) (tol : Q)
        (i_norm : option (list Q)) (i_ess : option Q) (i_var : option Q)
| CPdf (dens : list (list Q)) (ws : option (list Q)) (tol : Q) (i_pdf : option (list Q))
| CRvs (size : nat) (box : option (list (Q * Q))) (batches : list (list (list Q)))
       (i_out : option (list (list Q)))
  (** [normalize_weights] / [compute_ess] called several times on the numeric weights [ws], each
      time in another representation (dtype, container) and/or multiplied by an exactly
      representable common factor *)
| CWeights (ws : list Q) (wruns : list wrun)
  (** a history of calls on the class [GMDistribution] (the caller re-uses and edits in place the
      arrays it passed before); every call is compared with the stateless model *)
| CHist (calls : list gmcall).

(** -- quantile -- *)
Definition rows (xs : list Q) (ws : option (list Q)) : list (Q * Q) :=
  combine xs (match ws with Some w => w | None => ones xs end).

Definition wf_weights (xs : list Q) (ws : option (list Q)) : bool :=
  match ws with
  | Some w => (length w =? length xs)%nat && forallb (Qle_bool 0) w && Qltb 0 (qsum w)
  | None => negb (length xs =? 0)%nat
  end.
Definition wf_alpha (a : Q) : bool := Qle_bool 0 a && Qle_bool a 1.

Definition is_sorting_perm (index : list nat) (xs : list Q) : bool :=
  let n := length xs in
  (length index =? n)%nat
  && forallb (fun k => existsb (Nat.eqb k) index) (seq 0 n)
  && (fix srt (l : list nat) : bool :=
        match l with
        | i :: ((j :: _) as r) => Qle_bool (nth i xs 0) (nth j xs 0) && srt r
        | _ => true
        end) index.

Definition clamp01 (a : Q) : Q := if Qle_bool a 0 then 0 else if Qle_bool 1 a then 1 else a.

(** model against implementation for one call.  [tol == 0]: the inputs were generated so that
    binary64 is exact and the results must be equal.  Otherwise the implementation may resolve
    a cumulative weight within [tol] of [alpha] either way: its answer must lie between the
    model's answers for [alpha - tol] and [alpha + tol] (float mode is used for well-formed
    inputs only).                                                                             *)
Definition max_value (xs : list Q) : option Q :=
  match rev (argsort xs) with i :: _ => Some (nth i xs 0) | [] => None end.

Definition agree_q (tol : Q) (ix : option (list nat)) (xs : list Q) (ws : option (list Q)) (alpha : Q)
           (i : option Q) : bool :=
  if Qeq_bool tol 0
  then opt_eq (match ix with Some index => wsq_idx index xs alpha ws | None => wsq xs alpha ws end) i
  else match wsq xs (clamp01 (alpha - tol)) ws,
             (* within [tol] of 1 every rounded cumulative weight may fall short of alpha, and the
                forced last entry then selects the largest value (possibly a zero-weight row) *)
             (if Qle_bool 1 (alpha + tol) then max_value xs else wsq xs (alpha + tol) ws), i with
       | Some lo, Some hi, Some q => Qle_bool lo q && Qle_bool q hi
       | _, _, _ => false
       end.

Definition agree_quant xs ws tol scale index runs : bool :=
  (negb (wf_weights xs ws) || is_sorting_perm index xs)
  && forallb (fun r =>
        (* with a negative weight (malformed stream) the answer depends on the order of tied values:
           only then is the model run with numpy's own argsort instead of its own *)
        let ix := if wf_weights xs ws then None else Some index in
        agree_q tol ix xs ws (r_alpha r) (r_impl r)
        && (if Qeq_bool tol 0 then opt_eq (wsq_idx index xs (r_alpha r) ws) (r_impl r) else true)
        && match ws with
           | Some w => agree_q tol ix xs (Some (map (fun v => Qred (scale * v)) w)) (r_alpha r) (r_impl_scaled r)
           | None => true
           end) runs.

(** the defining inequalities, on the implementation's answer *)
Definition quant_ok (tol : Q) (xw : list (Q * Q)) (alpha q : Q) : bool :=
  existsb (fun p => Qeq_bool (fst p) q) xw
  && Qle_bool ((alpha - tol) * wtot xw) (wle q xw)
  && Qle_bool (wlt q xw) ((alpha + tol) * wtot xw).

Fixpoint monotone (prev : option (Q * Q)) (l : list (Q * Q)) : bool :=
  match l with
  | [] => true
  | (a, q) :: r =>
      match prev with
      | Some (a0, q0) => (negb (Qle_bool a0 a) || Qle_bool q0 q) && (negb (Qle_bool a a0) || Qle_bool q q0)
      | None => true
      end && monotone (Some (a, q)) r
  end.

Definition ok_quant xs ws tol (runs : list qrun) : bool :=
  if negb (wf_weights xs ws) then true else
  let good := filter (fun r => wf_alpha (r_alpha r)) runs in
  forallb (fun r =>
     match r_impl r with
     | Some q => quant_ok tol (rows xs ws) (r_alpha r) q
                 && match ws, r_impl_scaled r with
                    | Some _, Some q' => if Qeq_bool tol 0 then Qeq_bool q q'
                                         else quant_ok tol (rows xs ws) (r_alpha r) q'
                    | Some _, None => false
                    | None, _ => true
                    end
     | None => false
     end) good
  && (if Qeq_bool tol 0
      then monotone None (flat_map (fun r => match r_impl r with Some q => [(r_alpha r, q)] | None => [] end) good)
      else true).

(** -- normalize_weights / ess / var -- *)
Definition spec_ess (ws : list Q) : Q := sq (qsum ws) / qsum (map sq ws).
(** reliability-weights unbiased variance with normalised weights [v_i = w_i / sum w]:
    [sum v_i (x_i - mu)^2 / (1 - sum v_i^2)], [mu = sum v_i x_i]                              *)
Definition spec_var (xw : list (Q * Q)) : Q :=
  let s := wtot xw in
  let mu := qsum (map (fun p => snd p / s * fst p) xw) in
  qsum (map (fun p => snd p / s * sq (fst p - mu)) xw) / (1 - qsum (map (fun p => sq (snd p / s)) xw)).
Definition var_defined (xw : list (Q * Q)) : bool :=
  negb (Qeq_bool (wtot xw) 0)
  && negb (Qeq_bool (wtot xw - qsum (map (fun p => sq (snd p)) xw) / wtot xw) 0).

Definition wf_stat_w (w : list Q) : bool := forallb (Qle_bool 0) w && Qltb 0 (qsum w).

Definition agree_stat xs ws tol i_norm i_ess i_var : bool :=
  match ws with
  | Some w =>
      match normalize_weights w, i_norm with
      | Some m, Some i => all2 (close tol) m i
      | None, None => true
      | _, _ => false
      end
      && opt_close tol (compute_ess w) i_ess
  | None => true
  end
  && opt_close tol (weighted_var xs ws) i_var.

Definition ok_stat xs ws tol i_norm i_ess i_var : bool :=
  match ws with
  | Some w =>
      if wf_stat_w w then
        match i_norm with
        | Some nw => close tol 1 (qsum nw) && forallb (Qle_bool 0) nw
                     && all2 (fun v u => close tol v (u * qsum w)) w nw
        | None => false
        end
        && match i_ess with Some e => close tol (spec_ess w) e | None => false end
      else true
  | None => true
  end
  && (let xw := rows xs ws in
      if match ws with Some w => (length w =? length xs)%nat && wf_stat_w w | None => true end
         && var_defined xw
      then match i_var with Some v => close tol (spec_var xw) v | None => false end
      else true).

(** -- normalize_weights / compute_ess over representations and common scales -- *)
Definition spec_norm (w : list Q) : list Q := map (fun v => v / qsum w) w.

(** the definitions, at the weights [w], on one implementation answer *)
Definition ok_norm_ess (w : list Q) (tol : Q) (i_norm : option (list Q)) (i_ess : option Q) : bool :=
  match i_norm with
  | Some nw => close tol 1 (qsum nw) && forallb (Qle_bool 0) nw && all2 (close tol) (spec_norm w) nw
  | None => false
  end
  && match i_ess with Some e => close tol (spec_ess w) e | None => false end.

Definition agree_norm (tol : Q) (m i : option (list Q)) : bool :=
  match m, i with
  | Some m, Some i => all2 (close tol) m i
  | None, None => true
  | _, _ => false
  end.

(** the model is run on the very numbers the implementation received ([w_scale * ws]) *)
Definition agree_weights (w : list Q) (runs : list wrun) : bool :=
  forallb (fun r => let w' := map (Qmult (w_scale r)) w in
                    agree_norm (w_tol r) (normalize_weights w') (w_norm r)
                    && opt_close (w_tol r) (compute_ess w') (w_ess r)) runs.

(** every answer, whatever the representation and the (positive) common factor, must be the
    normalised weights / the effective sample size of the UNSCALED [w] (scale invariance) *)
Definition ok_weights (w : list Q) (runs : list wrun) : bool :=
  if wf_stat_w w then
    forallb (fun r => if Qltb 0 (w_scale r) then ok_norm_ess w (w_tol r) (w_norm r) (w_ess r) else true) runs
  else true.

(** -- GMDistribution.pdf -- *)
Definition spec_pdf (dens w : list Q) : Q :=
  qsum (map (fun p => fst p / qsum w * snd p) (combine w dens)).

Definition agree_pdf (dens : list (list Q)) ws tol (i_pdf : option (list Q)) : bool :=
  match i_pdf with
  | Some l => all2 (fun d i => opt_close tol (gm_pdf d ws) (Some i)) dens l
  | None => forallb (fun d => match gm_pdf d ws with None => true | Some _ => false end) dens
  end.

Definition ok_pdf (dens : list (list Q)) ws tol (i_pdf : option (list Q)) : bool :=
  match i_pdf with
  | Some l =>
      all2 (fun d i =>
              let w := match ws with Some w => w | None => ones d end in
              if wf_stat_w w && (length w =? length d)%nat then close tol (spec_pdf d w) i else true) dens l
  | None =>
      forallb (fun d => let w := match ws with Some w => w | None => ones d end in negb (wf_stat_w w)) dens
  end.

(** -- GMDistribution.rvs -- *)
Definition in_box (box : option (list (Q * Q))) (x : list Q) : bool :=
  match box with
  | None => true
  | Some b => all2 (fun v lh => Qle_bool (fst lh) v && Qle_bool v (snd lh)) x b
  end.
Definition row_eq (a b : list Q) : bool := all2 Qeq_bool a b.

Definition agree_rvs size box (batches : list (list (list Q))) (i_out : option (list (list Q))) : bool :=
  match rvs (list Q) (in_box box) (fun t _ => nth t batches []) (S (length batches)) size, i_out with
  | Some m, Some i => all2 row_eq m i
  | None, None => true
  | _, _ => false
  end.

Definition ok_rvs size box (i_out : option (list (list Q))) : bool :=
  match i_out with
  | Some o => (length o =? size)%nat && forallb (in_box box) o
  | None => false
  end.

(** -- histories of calls on the class: each call against the model's fresh answer -- *)
Definition agree_call (c : gmcall) : bool :=
  match c with
  | GPdf dens ws tol p => agree_pdf dens ws tol p
  | GLogpdf dens ws tol e => agree_pdf dens ws tol e
  | GRvs size box batches o => agree_rvs size box batches o
  end.
Definition ok_call (c : gmcall) : bool :=
  match c with
  | GPdf dens ws tol p => ok_pdf dens ws tol p
  | GLogpdf dens ws tol e => ok_pdf dens ws tol e
  | GRvs size box batches o => ok_rvs size box o
  end.

(** the model's own answer to a call: computed from the numbers of that call alone *)
Definition model_pdf (dens : list (list Q)) (ws : option (list Q)) : option (list Q) :=
  fold_right (fun d acc => match gm_pdf d ws, acc with
                           | Some p, Some l => Some (p :: l)
                           | _, _ => None
                           end) (Some []) dens.
Definition model_call (c : gmcall) : gmcall :=
  match c with
  | GPdf dens ws tol _ => GPdf dens ws tol (model_pdf dens ws)
  | GLogpdf dens ws tol _ => GLogpdf dens ws tol (model_pdf dens ws)
  | GRvs size box batches _ =>
      GRvs size box batches
           (rvs (list Q) (in_box box) (fun t _ => nth t batches []) (S (length batches)) size)
  end.

Definition agree (c : case) : bool :=
  match c with
  | CQuant xs ws tol scale index runs => agree_quant xs ws tol scale index runs
  | CStat xs ws tol n e v => agree_stat xs ws tol n e v
  | CPdf dens ws tol p => agree_pdf dens ws tol p
  | CRvs size box batches o => agree_rvs size box batches o
  | CWeights w runs => agree_weights w runs
  | CHist calls => forallb agree_call calls
  end.

Definition ok (c : case) : bool :=
  match c with
  | CQuant xs ws tol scale index runs => ok_quant xs ws tol runs
  | CStat xs ws tol n e v => ok_stat xs ws tol n e v
  | CPdf dens ws tol p => ok_pdf dens ws tol p
  | CRvs size box batches o => ok_rvs size box o
  | CWeights w runs => ok_weights w runs
  | CHist calls => forallb ok_call calls
  end.
