(** Model of [elfi.methods.mcmc.metropolis] (C09), bit-exact over binary64 ([PrimFloat]).

    [random_state] is modelled by the finite list of draws it yields, each tagged with the call
    that produced it: [DN z] = one [randn( *params0.shape)] call (a vector of normals), [DU u] = one
    [rand()] call.  The code draws, in every iteration, first the normals and then ALWAYS one
    uniform (the [np.exp(..) < random_state.rand()] disjunct is evaluated first).
    [target] and [np.exp] are oracles (Section variables); for execution the harness supplies
    the tables recorded from the run.  Target values are binary64 values including
    [-inf], [+inf] and [nan]; [np.isinf]/[np.isnan] are [is_infinity]/[is_nan].            *)
From Coq Require Import List Bool Arith ZArith Uint63 PrimFloat.
Import ListNotations.

Definition vec := list float.

(** A number as the caller stores it.  [params0] and [sigma_proposals] may arrive as arrays of any
    real dtype (or, where the entry point takes them, Python sequences): every binary16/32/64
    value IS a binary64 value ([NF], the harness embeds it exactly); an integer of an int8..int64,
    uint8..uint32 or bool array, or a Python int, is [NI].  The code never keeps the caller's
    storage: [samples = np.empty(shape)] is a float64 buffer and [samples[0, :] = params0]
    converts, [sigma_proposals * randn(..)] promotes to float64.  [to_f64] is that conversion
    (round to nearest even; exact for |z| <= 2^53; faithful to numpy for |z| < 2^63). *)
Inductive num :=
| NF (x : float)
| NI (z : Z).

Definition of_Z (z : Z) : float :=
  match z with
  | Z0 => zero
  | Zpos _ => of_uint63 (Uint63.of_Z z)
  | Zneg p => (- of_uint63 (Uint63.of_Z (Zpos p)))%float
  end.

Definition to_f64 (v : num) : float :=
  match v with NF x => x | NI z => of_Z z end.

Inductive draw :=
| DN (z : vec)        (* random_state.randn( *params0.shape) *)
| DU (u : float).     (* random_state.rand() *)

Fixpoint map2 {A B C} (f : A -> B -> C) (l : list A) (m : list B) : list C :=
  match l, m with
  | a :: l', b :: m' => f a b :: map2 f l' m'
  | _, _ => []
  end.

Inductive result :=
| BadInit                  (* ValueError: target(params0) is +-inf *)
| StreamError              (* the recorded stream is too short / has the wrong call order *)
| Chain (l : list vec).    (* samples[(1 + warmup):, :] *)

Section Metropolis.
  Variable target : vec -> float.
  Variable expf : float -> float.
  Variable sigma : vec.

  (** [samples[ii-1, :] + sigma_proposals * randn] : the product is rounded, then the sum *)
  Definition propose (prev z : vec) : vec :=
    map2 (fun p sz => (p + sz)%float) prev (map2 (fun s x => (s * x)%float) sigma z).

  (** the condition of the [if] at mcmc.py:417-419 *)
  Definition reject (tprev tcur u : float) : bool :=
    (expf (tcur - tprev) <? u)%float || is_infinity tcur || is_nan tcur.

  (** one loop iteration on the pair (samples[ii-1], target_current) *)
  Definition step (cur : vec) (tcur : float) (z : vec) (u : float) : vec * float :=
    let prop := propose cur z in
    let tc := target prop in
    if reject tcur tc u then (cur, tcur) else (prop, tc).

  (** the [for ii in range(1, n_samples + warmup + 1)] loop; returns samples[1:] *)
  Fixpoint run (k : nat) (cur : vec) (tcur : float) (st : list draw) : option (list vec) :=
    match k with
    | O => Some []
    | S k' =>
        match st with
        | DN z :: DU u :: st' =>
            let '(c, t) := step cur tcur z u in
            match run k' c t st' with
            | Some l => Some (c :: l)
            | None => None
            end
        | _ => None
        end
    end.

  Definition metropolis (n_samples warmup : nat) (x0 : vec) (st : list draw) : result :=
    let t0 := target x0 in
    if is_infinity t0 then BadInit else
    match run (n_samples + warmup) x0 t0 st with
    | None => StreamError
    | Some l => Chain (skipn warmup l)
    end.

  (** the points at which the loop evaluates [target], in order (for the correspondence) *)
  Fixpoint proposals (k : nat) (cur : vec) (tcur : float) (st : list draw) : list vec :=
    match k with
    | O => []
    | S k' =>
        match st with
        | DN z :: DU u :: st' =>
            let '(c, t) := step cur tcur z u in
            propose cur z :: proposals k' c t st'
        | _ => []
        end
    end.

  (** ---- the specification: random-walk Metropolis as a memoryless transition ---- *)

  (** accepted precisely when the proposed log-target is finite and the uniform draw is not
      above the target ratio (the code's test is [not (ratio < u)]: a tie [u = ratio] accepts) *)
  Definition accept (x y : vec) (u : float) : bool :=
    is_finite (target y) && negb (expf (target y - target x) <? u)%float.

  Definition mh_step (x : vec) (d : vec * float) : vec :=
    let y := propose x (fst d) in
    if accept x y (snd d) then y else x.

  (** states after each transition: [x1; x2; ...] *)
  Fixpoint scan (x : vec) (ds : list (vec * float)) : list vec :=
    match ds with
    | [] => []
    | d :: r => let y := mh_step x d in y :: scan y r
    end.

  (** the first [k] (normals, uniform) pairs of the stream *)
  Fixpoint pairs (k : nat) (st : list draw) : option (list (vec * float)) :=
    match k with
    | O => Some []
    | S k' =>
        match st with
        | DN z :: DU u :: st' =>
            match pairs k' st' with Some l => Some ((z, u) :: l) | None => None end
        | _ => None
        end
    end.

  Definition spec (n_samples warmup : nat) (x0 : vec) (st : list draw) : result :=
    if is_infinity (target x0) then BadInit else
    match pairs (n_samples + warmup) st with
    | None => StreamError
    | Some ds => Chain (skipn warmup (scan x0 ds))
    end.
End Metropolis.

(** the entry point as the caller sees it: start and proposal scales in the caller's storage.
    Nothing but their binary64 values enters the chain; all states are binary64 vectors. *)
Definition metropolis_entry (target : vec -> float) (expf : float -> float)
           (sigma_in : list num) (n_samples warmup : nat) (start : list num) (st : list draw) : result :=
  metropolis target expf (map to_f64 sigma_in) n_samples warmup (map to_f64 start) st.

(** ---- correspondence-check interface ---- *)

(** bit-level equality (distinguishes +0/-0, identifies nan with nan) *)
Definition feqb (x y : float) : bool := Leibniz.eqb x y.

Fixpoint veqb (a b : vec) : bool :=
  match a, b with
  | [], [] => true
  | x :: a', y :: b' => feqb x y && veqb a' b'
  | _, _ => false
  end.

Fixpoint vseqb (a b : list vec) : bool :=
  match a, b with
  | [], [] => true
  | x :: a', y :: b' => veqb x y && vseqb a' b'
  | _, _ => false
  end.

(** oracle tables recorded from the run; a point that was never evaluated reads as [nan] *)
Fixpoint lookup_t (tbl : list (vec * float)) (v : vec) : float :=
  match tbl with
  | [] => nan
  | (k, t) :: r => if veqb k v then t else lookup_t r v
  end.

Fixpoint lookup_e (tbl : list (float * float)) (x : float) : float :=
  match tbl with
  | [] => nan
  | (k, e) :: r => if feqb k x then e else lookup_e r x
  end.

Fixpoint mem_t (tbl : list (vec * float)) (v : vec) : bool :=
  match tbl with
  | [] => false
  | (k, _) :: r => veqb k v || mem_t r v
  end.

Inductive impl_result :=
| IBadInit                   (* ValueError raised *)
| IChain (l : list vec).     (* returned array, row by row *)

Record case := {
  c_n : nat;                          (* n_samples *)
  c_warmup : nat;
  c_start : list num;                 (* params0 as the caller stored it (flattened) *)
  c_sigma_in : list num;              (* sigma_proposals as the caller stored it, broadcast to the shape of params0 *)
  c_stream : list draw;               (* every call on random_state, in call order *)
  c_target : list (vec * float);      (* every (argument, value) of target, in call order *)
  c_exp : list (float * float);       (* every (argument, value) of np.exp, in call order *)
  c_out_f64 : bool;                   (* the returned array's dtype is float64 *)
  c_impl : impl_result
}.

(** the double-precision values of the start and of the proposal scales *)
Definition c_x0 (c : case) : vec := map to_f64 (c_start c).
Definition c_sigma (c : case) : vec := map to_f64 (c_sigma_in c).

Definition res_eqb (m : result) (i : impl_result) : bool :=
  match m, i with
  | BadInit, IBadInit => true
  | Chain l, IChain l' => vseqb l l'
  | _, _ => false
  end.

Definition model_of (c : case) : result :=
  metropolis_entry (lookup_t (c_target c)) (lookup_e (c_exp c)) (c_sigma_in c)
                   (c_n c) (c_warmup c) (c_start c) (c_stream c).

(** model = implementation: same outcome, bit for bit; the stream is consumed completely; the
    model evaluates the target at exactly the recorded points, in the recorded order *)
Definition agree (c : case) : bool :=
  let tg := lookup_t (c_target c) in
  res_eqb (model_of c) (c_impl c)
  && match c_impl c with
     | IBadInit => match c_stream c with [] => true | _ => false end
     | IChain _ =>
         (length (c_stream c) =? 2 * (c_n c + c_warmup c))
         && vseqb (c_x0 c :: proposals tg (lookup_e (c_exp c)) (c_sigma c)
                                       (c_n c + c_warmup c) (c_x0 c) (tg (c_x0 c)) (c_stream c))
                  (map fst (c_target c))
     end.

(** the property's own statement on the implementation's output: the returned chain is the
    double-precision Metropolis chain of the stream ([spec]) started from the binary64 values of
    the caller's start - whatever storage the start and the scales came in -, it is a float64
    array, has [n_samples] states, and - when the start has a finite log-target - every returned
    state was evaluated and has a finite log-target *)
Definition ok (c : case) : bool :=
  let tg := lookup_t (c_target c) in
  res_eqb (spec tg (lookup_e (c_exp c)) (c_sigma c) (c_n c) (c_warmup c) (c_x0 c) (c_stream c))
          (c_impl c)
  && match c_impl c with
     | IBadInit => is_infinity (tg (c_x0 c))
     | IChain l =>
         (length l =? c_n c)
         && c_out_f64 c
         && negb (is_infinity (tg (c_x0 c)))
         && (negb (is_finite (tg (c_x0 c)))
             || forallb (fun x => mem_t (c_target c) x && is_finite (tg x)) l)
     end.
