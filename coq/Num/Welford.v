(** Model of [elfi.AdaptiveDistance] (C12, second half) and of the distance part of
    [Rejection._update_distances].

    Anchors: [elfi/model/elfi_model.py: AdaptiveDistance.init_state / init_adaptation_round /
    add_data / update_distance / nested_distance], [elfi/methods/inference/samplers.py:
    Rejection._update_distances] (as it is now: [sort_distance[sort_mask]]).

    [state['store'] = [n, mean, M2]]: [n] is a Python int, [mean] and [M2] start as the int 0 and
    become vectors by broadcasting at the first [add_data] ([bvec]).  [state['scale']] is
    [sqrt(M2 / n)] and [state['w'][-1]] is [1 / scale]: both irrational, so the model carries their
    squares ([scale2 = M2 / n], [w2 = 1 / scale2]); the function appended by [update_distance] is
    [cdist(metric='euclidean', w=weis**2)], i.e. exactly the weight vector [w2].

    The update in [add_data] is the BATCH form that the code uses (not one-at-a-time Welford):
        n     += len(data)
        d1     = data - mean                      (old mean)
        mean  += sum(d1, axis=0) / n              (new n)
        d2     = data - mean                      (new mean)
        M2    += sum(d1 * d2, axis=0)
    Preconditions of the model (stated in the theorems / respected by the generator): all batches of
    one adaptation round have the same width.  No proofs in this file.

    NUMERIC VALUES ONLY.  The model takes the summaries as the rational numbers they denote: it has no
    storage dtype (float32/float64, int8..int64, uint8..uint64, bool, or a mix of them across the
    batches of a round all denote numbers) and no absolute scale (no floor, ceiling or threshold on
    [scale2]: [scale_mat] below and Proofs/C12_Units.v - data expressed in another unit, [c * data],
    has [scale2] multiplied by [c * c] and weights divided by it, for every [c], however small or
    large).  The correspondence check therefore hands the implementation the same numbers in every
    storage dtype and at units 2^-100 .. 2^100 and compares with this one model.                  *)
From Coq Require Import String.
From Coq Require Import ZArith QArith Qabs List Bool Arith.
From Elfi Require Import Num.Distance.
Import ListNotations.
Open Scope Q_scope.

(** ** the running moments *)

Inductive bvec := BSc (q : Q) | BVec (v : list Q).

Definition bget (b : bvec) (j : nat) : Q :=
  match b with BSc q => q | BVec v => nth j v 0 end.

Record store := { s_n : nat; s_mean : bvec; s_m2 : bvec }.

Definition store0 : store := {| s_n := 0; s_mean := BSc 0; s_m2 := BSc 0 |}.

Definition col (j : nat) (m : mat) : list Q := map (fun r => nth j r 0) m.

(** one column of the four update lines; [nq] is the NEW count as a rational *)
Definition col_mean (nq : Q) (mean : Q) (xs : list Q) : Q :=
  Qred (mean + qsum (map (fun x => x - mean) xs) / nq).

Definition col_m2 (mean mean' m2 : Q) (xs : list Q) : Q :=
  Qred (m2 + qsum (zipw Qmult (map (fun x => x - mean) xs) (map (fun x => x - mean') xs))).

(** [add_data] on the column-stacked batch *)
Definition add_data (st : store) (data : mat) : store :=
  let n' := (s_n st + length data)%nat in
  let js := seq 0 (width data) in
  let mean' := map (fun j => col_mean (Qn n') (bget (s_mean st) j) (col j data)) js in
  let m2' := map (fun j => col_m2 (bget (s_mean st) j) (nth j mean' 0) (bget (s_m2 st) j) (col j data)) js in
  {| s_n := n'; s_mean := BVec mean'; s_m2 := BVec m2' |}.

(** the same data expressed in another unit: every entry multiplied by [c] *)
Definition scale_mat (c : Q) (m : mat) : mat := map (map (Qmult c)) m.

(** [state['scale']**2 = store[2] / store[0]] *)
Definition scale2_of (st : store) : list Q :=
  match s_m2 st with
  | BSc q => [Qred (q / Qn (s_n st))]
  | BVec v => map (fun x => Qred (x / Qn (s_n st))) v
  end.

(** ** the node state *)

Record astate := {
  a_store : store;
  a_scale2 : option (list Q);              (* state['scale']**2; absent until the first add_data *)
  a_w2 : list (option (list Q));           (* state['w'], squared entry-wise; starts as [None] *)
  a_funcs : list (option (list Q))         (* the [w=] argument of each distance function *)
}.

(** [init_state] *)
Definition astate0 : astate :=
  {| a_store := store0; a_scale2 := None; a_w2 := [None]; a_funcs := [None] |}.

(** [init_adaptation_round]: only the store is reset ([state['scale']] survives) *)
Definition init_round (a : astate) : astate :=
  {| a_store := store0; a_scale2 := a_scale2 a; a_w2 := a_w2 a; a_funcs := a_funcs a |}.

Definition add_data_state (a : astate) (data : mat) : astate :=
  let st := add_data (a_store a) data in
  {| a_store := st; a_scale2 := Some (scale2_of st); a_w2 := a_w2 a; a_funcs := a_funcs a |}.

(** [update_distance]; [None] = KeyError (no 'scale' yet) *)
Definition update_distance (a : astate) : option astate :=
  match a_scale2 a with
  | None => None
  | Some sc =>
      let w2 := map (fun s => Qred (/ s)) sc in       (* weis**2 = (1/scale)**2 *)
      Some {| a_store := store0; a_scale2 := a_scale2 a;
              a_w2 := a_w2 a ++ [Some w2]; a_funcs := a_funcs a ++ [Some w2] |}
  end.

(** ** a sampler round on an adaptive node ([samplers.py: Rejection.__init__ / _merge_batch /
    extract_result -> _update_distances]; [AdaptiveDistanceSMC] runs one such [Rejection] per population)

    [Rejection.__init__] calls [init_adaptation_round]; [_merge_batch] hands the summaries of the WHOLE
    batch to [add_data] before, and independently of, the acceptance test ([batch[d] <= threshold] for
    every nested distance), which only decides which rows are stored as samples; [extract_result]
    calls [update_distance].  A batch is therefore its column-stacked summaries together with the
    acceptance mask the sampler computed for it; the mask does not reach the node. *)
Record sbatch := { sb_data : mat; sb_accept : list bool }.

Definition merge_batch (a : astate) (b : sbatch) : astate := add_data_state a (sb_data b).

Definition rejection_round (a : astate) (bs : list sbatch) : option astate :=
  update_distance (fold_left merge_batch bs (init_round a)).

(** consecutive rounds on one node (Rejection after Rejection, or the populations of an SMC run) *)
Fixpoint rejection_rounds (a : astate) (rs : list (list sbatch)) : option astate :=
  match rs with
  | [] => Some a
  | bs :: rest => match rejection_round a bs with Some a' => rejection_rounds a' rest | None => None end
  end.

(** squared weighted Euclidean distance: the "metric" the nested distance is instantiated with *)
Definition weuclid2 (w : option (list Q)) (u v : list Q) : Q := metric_pow (MEuclid w) u v.

(** the node's operation: [distance_as_discrepancy(self.nested_distance, *summaries, observed)] *)
Definition adaptive_node (a : astate) (summaries observed : list arr) : option (@dout Q) :=
  distance_as_discrepancy (nested_distance weuclid2 (a_funcs a)) summaries observed.

(** ** [Rejection._update_distances], distance part:
    [sort_distance = atleast_2d(transpose(ds))[-1]] is the newest column; the stored distances are
    [sort_distance[argsort(sort_distance)]] *)
Definition newest_col {D} (dflt : D) (o : @dout D) : list D :=
  match o with D1 v => v | D2 rows => map (fun r => last r dflt) rows end.

Fixpoint insertQ (x : Q) (l : list Q) : list Q :=
  match l with [] => [x] | y :: r => if Qle_bool x y then x :: l else y :: insertQ x r end.
Definition sortQ (l : list Q) : list Q := fold_right insertQ [] l.

(** ** scripts: one AdaptiveDistance node driven through its methods *)

Inductive op :=
| OAdd (batch : list arr)      (* add_data( *batch ) *)
| OBatch (batch : list arr) (accepted : list bool)
                               (* a simulated batch reaching Rejection.update: its summaries and the rows that
                                  passed the sampler's threshold test *)
| OUpdate                      (* update_distance() *)
| OInit                        (* init_adaptation_round() *)
| OGen (vals : list arr)       (* node.generate(M, with_values = vals) *)
| OSorted (vals : list arr).   (* the same call made by Rejection._update_distances on the rows it returns *)

(** model observations (squares of the implementation's observables) *)
Inductive mobs :=
| MAdd (n : nat) (mean m2 scale2 : list Q)
| MUpdate (w2 : list Q) (nfun : nat)
| MInit
| MGen (o : option (@dout Q))
| MErr.

Definition bvec_list (b : bvec) : list Q := match b with BSc q => [q] | BVec v => v end.

Definition step (obsd : list arr) (a : astate) (o : op) : astate * mobs :=
  match o with
  | OAdd b =>
      match column_stack b with
      | None => (a, MErr)
      | Some data =>
          let a' := add_data_state a data in
          (a', MAdd (s_n (a_store a')) (bvec_list (s_mean (a_store a'))) (bvec_list (s_m2 (a_store a')))
                    (scale2_of (a_store a')))
      end
  | OBatch b acc =>
      match column_stack b with
      | None => (a, MErr)
      | Some data =>
          let a' := merge_batch a {| sb_data := data; sb_accept := acc |} in
          (a', MAdd (s_n (a_store a')) (bvec_list (s_mean (a_store a'))) (bvec_list (s_m2 (a_store a')))
                    (scale2_of (a_store a')))
      end
  | OUpdate =>
      match update_distance a with
      | None => (a, MErr)
      | Some a' => (a', MUpdate (match last (a_w2 a') None with Some w => w | None => [] end)
                                (length (a_funcs a')))
      end
  | OInit => (init_round a, MInit)
  | OGen vals => (a, MGen (adaptive_node a vals obsd))
  | OSorted vals => (a, MGen (adaptive_node a vals obsd))
  end.

Fixpoint run (obsd : list arr) (a : astate) (ops : list op) : list mobs :=
  match ops with
  | [] => []
  | o :: r => let '(a', m) := step obsd a o in m :: run obsd a' r
  end.

(** implementation observations (binary64 values as rationals) *)
Inductive iobs :=
| IAdd (n : nat) (mean m2 scale : list Q)     (* store[0], store[1], store[2], state['scale'] *)
| IUpdate (weis : list Q) (nfun : nat) (store_zero : bool)   (* state['w'][-1], len(distance_functions), store == [0,0,0] *)
| IInit (store_zero : bool)
| IGen (o : option (@dout Q))                  (* None = ValueError *)
| ISorted (d : list Q)                         (* the discrepancy column Rejection returns *)
| IErr
| ISkip.                                       (* not observed *)

Record acase := {
  c_observed : list arr;
  c_ops : list op;
  c_impl : list iobs
}.

Definition close_sq (x y : Q) : bool := Qle_bool 0 x && close (Qred (x * x)) y.

Definition close_dout (i m : @dout Q) : bool :=
  match i, m with
  | D1 a, D1 b => all2 close_sq a b
  | D2 a, D2 b => all2 (all2 close_sq) a b
  | _, _ => false
  end.

Definition agree1 (m : mobs) (i : iobs) : bool :=
  match m, i with
  | _, ISkip => true
  | MAdd n mean m2 sc2, IAdd n' mean' m2' sc' =>
      Nat.eqb n n' && all2 close m2' m2 && all2 close_sq sc' sc2
      && all2 (fun ab s2 => close_at ((1 + s2) / 2) (fst ab) (snd ab)) (combine mean' mean) sc2
  | MUpdate w2 nf, IUpdate weis nf' z => all2 close_sq weis w2 && Nat.eqb nf nf' && z
  | MInit, IInit z => z
  | MGen (Some o), IGen (Some o') => close_dout o' o
  | MGen None, IGen None => true
  | MGen (Some o), ISorted d => all2 close_sq d (sortQ (newest_col 0 o))
  | MErr, IErr => true
  | _, _ => false
  end.

Definition agree (c : acase) : bool := all2 agree1 (run (c_observed c) astate0 (c_ops c)) (c_impl c).

(** ** the property's statement, evaluated on the implementation's observations.
    Everything here is computed by the DIRECT formulas over all rows added in the round. *)

Definition colmean (R : mat) (j : nat) : Q := Qred (qsum (col j R) / Qn (length R)).
Definition colss (R : mat) (j : nat) : Q :=
  let m := colmean R j in qsum (map (fun x => Qsq (x - m)) (col j R)).
Definition colvar (R : mat) (j : nat) : Q := Qred (colss R j / Qn (length R)).
(** mean absolute value: the magnitude the rounding error of a float mean is relative to *)
Definition colabs (R : mat) (j : nat) : Q := Qred (qsum (map Qabs (col j R)) / Qn (length R)).

Definition ok_add (R : mat) (n : nat) (mean m2 scale : list Q) : bool :=
  let w := width R in
  Nat.eqb n (length R) && Nat.eqb (length mean) w && Nat.eqb (length m2) w && Nat.eqb (length scale) w
  && forallb (fun j => close_at (colabs R j) (nth j mean 0) (colmean R j)
                       && close (nth j m2 0) (colss R j)
                       && close_sq (nth j scale (-(1))) (colvar R j)) (seq 0 w).

(** [weis = 1/scale]:  weis^2 * variance = 1 *)
Definition ok_update (var weis : list Q) : bool :=
  Nat.eqb (length weis) (length var)
  && all2 (fun w v => Qle_bool 0 w && close (Qred (w * w * v)) 1) weis var.

(** squared distance number [c] of a summary row [u] from the observed row [o]:
    function 0 is the plain Euclidean distance, function [c >= 1] divides by the scale of round [c] *)
Definition dist2 (var : option (list Q)) (u o : list Q) : Q :=
  match var with
  | None => qsum (map Qsq (diffs u o))
  | Some v => qsum (zipw Qdiv (map Qsq (diffs u o)) v)
  end.

Definition row_of (o : @dout Q) (i : nat) : list Q :=
  match o with D1 v => [nth i v (-(1))] | D2 rows => nth i rows [] end.
Definition nrows_of (o : @dout Q) : nat := match o with D1 v => length v | D2 rows => length rows end.

Definition eq_arr (a b : arr) : bool :=
  match a, b with
  | A0 x, A0 y => Qeq_bool x y
  | A1 u, A1 v => eq_vec u v
  | A2 m, A2 m' => all2 eq_vec m m'
  | _, _ => false
  end.

(** every row of [o] has one entry per distance function: entry [c] is the [c]-th distance *)
Definition ok_gen (vars : list (option (list Q))) (obsd vals : list arr) (o : @dout Q) : bool :=
  let M := match vals with [] => 0%nat | a :: _ => length (as_cols a) end in
  if well_shaped M vals obsd then
    Nat.eqb (nrows_of o) M
    && match o with D1 _ => Nat.eqb (length vars) 1 | D2 _ => negb (Nat.eqb (length vars) 1) end
    && forallb (fun i => all2 (fun x var => close_sq x (dist2 var (srow vals i) (orow obsd))) (row_of o i) vars)
               (seq 0 M)
  else true.

(** earlier distances unchanged: the first columns of [o] are bit-identical to the output [o']
    produced earlier for the same values *)
Definition is_prefix_rows (o' o : @dout Q) : bool :=
  Nat.eqb (nrows_of o') (nrows_of o)
  && forallb (fun i => eq_vec (row_of o' i) (firstn (length (row_of o' i)) (row_of o i))) (seq 0 (nrows_of o)).

Fixpoint sortedQ (l : list Q) : bool :=
  match l with
  | x :: ((y :: _) as r) => Qle_bool x y && sortedQ r
  | _ => true
  end.

Record okst := {
  k_round : mat;                               (* rows added in the current adaptation round *)
  k_lastvar : option (list Q);                 (* variance at the latest add_data (what 'scale' holds) *)
  k_vars : list (option (list Q));             (* per distance function *)
  k_prev : list (list arr * @dout Q)           (* earlier generate calls *)
}.

Definition okst0 : okst := {| k_round := []; k_lastvar := None; k_vars := [None]; k_prev := [] |}.

Definition ok_step (obsd : list arr) (k : okst) (o : op) (i : iobs) : okst * bool :=
  match o with
  | OAdd b =>
      match column_stack b with
      | None => (k, match i with IErr | ISkip => true | _ => false end)
      | Some data =>
          let R := k_round k ++ data in
          let k' := {| k_round := R; k_lastvar := Some (map (colvar R) (seq 0 (width R)));
                       k_vars := k_vars k; k_prev := k_prev k |} in
          (k', match i with
               | IAdd n mean m2 sc => ok_add R n mean m2 sc
               | ISkip => true
               | _ => false
               end)
      end
  | OBatch b acc =>
      (* the round's data are ALL rows of every batch, accepted or not *)
      match column_stack b with
      | None => (k, false)
      | Some data =>
          let R := k_round k ++ data in
          let k' := {| k_round := R; k_lastvar := Some (map (colvar R) (seq 0 (width R)));
                       k_vars := k_vars k; k_prev := k_prev k |} in
          (k', Nat.eqb (length acc) (length data)
               && match i with
                  | IAdd n mean m2 sc => ok_add R n mean m2 sc
                  | ISkip => true
                  | _ => false
                  end)
      end
  | OUpdate =>
      match k_lastvar k with
      | None => (k, match i with IErr | ISkip => true | _ => false end)
      | Some var =>
          let k' := {| k_round := []; k_lastvar := k_lastvar k; k_vars := k_vars k ++ [Some var];
                       k_prev := k_prev k |} in
          (k', match i with
               | IUpdate weis nf z =>
                   (* the statement speaks about a round in which data was added *)
                   (if Nat.eqb (length (k_round k)) 0 then true else ok_update var weis)
                   && Nat.eqb nf (length (k_vars k')) && z
               | ISkip => true
               | _ => false
               end)
      end
  | OInit => ({| k_round := []; k_lastvar := k_lastvar k; k_vars := k_vars k; k_prev := k_prev k |},
              match i with IInit z => z | ISkip => true | _ => false end)
  | OGen vals =>
      match i with
      | IGen (Some out) =>
          ({| k_round := k_round k; k_lastvar := k_lastvar k; k_vars := k_vars k;
              k_prev := (vals, out) :: k_prev k |},
           ok_gen (k_vars k) obsd vals out
           && forallb (fun p => if all2 eq_arr (fst p) vals then is_prefix_rows (snd p) out else true) (k_prev k))
      | IGen None =>
          let M := match vals with [] => 0%nat | a :: _ => length (as_cols a) end in
          (k, negb (well_shaped M vals obsd))       (* a well-shaped request must be served *)
      | ISkip => (k, true)
      | _ => (k, false)
      end
  | OSorted vals =>
      (k, match i with
          | ISorted d =>
              let M := match vals with [] => 0%nat | a :: _ => length (as_cols a) end in
              Nat.eqb (length d) M && sortedQ d
              && (if well_shaped M vals obsd then
                    forallb (fun i => close_sq (nth i d (-(1)))
                                               (dist2 (last (k_vars k) None) (srow vals i) (orow obsd))) (seq 0 M)
                  else true)
          | ISkip => true
          | _ => false
          end)
  end.

Fixpoint ok_run (obsd : list arr) (k : okst) (ops : list op) (is : list iobs) : bool :=
  match ops, is with
  | [], [] => true
  | o :: r, i :: r' => let '(k', b) := ok_step obsd k o i in b && ok_run obsd k' r r'
  | _, _ => false
  end.

Definition ok (c : acase) : bool := ok_run (c_observed c) okst0 (c_ops c) (c_impl c).

(** ** one case type for the correspondence driver *)
Inductive case := CD (c : dcase) | CK (c : kcase) | CA (c : acase).

Definition c12_agree (c : case) : bool :=
  match c with CD d => d_agree d | CK k => k_agree k | CA a => agree a end.
Definition c12_ok (c : case) : bool :=
  match c with CD d => d_ok d | CK k => k_ok k | CA a => ok a end.
