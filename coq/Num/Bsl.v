(** Model of the BSL Metropolis-Hastings step and of the sample mean / covariance plumbing of the
    synthetic likelihoods (C20).  Anchors:
      elfi/methods/inference/bsl.py   BSL._get_mh_ratio, _process_simulated, _init_round
      elfi/methods/bsl/pdf_methods.py gaussian_syn_likelihood (mean, cov, whitening), syn_likelihood_misspec (mean / variance adjustment)
      elfi/methods/bsl/cov_warton.py  cov_warton
    Exact rationals stand for binary64 values; [exp], the log-Jacobian of the parameter transform
    ([_jacobian_logit_transform] after [_para_logit_transform], whose per-coordinate formulas are
    translated into Gen/C20_Transforms.v) and [sqrt] are oracle arguments.  No proofs in this file. *)
From Coq Require Import ZArith QArith Qabs Qminmax List Bool.
Import ListNotations.
Local Open Scope Q_scope.

Definition Qltb (a b : Q) : bool := negb (Qle_bool b a).

(** ------------------------------------------------------------------------------------------
    1. The Metropolis-Hastings accept step
    ------------------------------------------------------------------------------------------ *)

(** [res = 700 if res > 700 else res; res = -700 if res < -700 else res] *)
Definition clip700 (r : Q) : Q :=
  let r1 := if Qltb 700 r then 700 else r in
  if Qltb r1 (-700) then -700 else r1.

(** one row of state['params'], state['logprior'], state['logposterior'] *)
Record row := mkRow { r_par : list Q; r_lprior : Q; r_lpost : Q }.

(** [_get_mh_ratio] up to the final [np.exp]: [jac] is the oracle
    [theta |-> _jacobian_logit_transform(_para_logit_transform(theta, bound), bound)];
    [use_tr = false] is [logit_transform_bound is None] ([logp2 = 0]). *)
Definition mh_logratio (use_tr : bool) (jac : list Q -> Q) (p_new : list Q) (lpost_new : Q) (prev : row) : Q :=
  let logp2 := if use_tr then jac p_new - jac (r_par prev) else 0 in
  clip700 (logp2 + lpost_new - r_lpost prev).

(** [prob = np.minimum(1.0, l_ratio)] with [l_ratio = np.exp(res)]; [ex] is the exp oracle *)
Definition accept_prob (ex : Q -> Q) (logratio : Q) : Q := Qmin 1 (ex logratio).

Record state := mkState {
  s_rows : list row;                 (* rows 0 .. n_samples-1 (so n_samples = length) *)
  s_cap : nat;                       (* len(state['params']) = requested n_samples *)
  s_cand : option (list Q * Q);      (* row n_samples as written by _init_round: candidate, its log prior *)
  s_rounds : Z;                      (* objective['round'] *)
  s_acc : nat;                       (* num_accepted *)
  s_sims : nat                       (* data-collection rounds started by _init_round *)
}.

Definition last_row (st : state) : option row :=
  match rev (s_rows st) with [] => None | r :: _ => Some r end.

(** a proposal as seen by [_init_round]: the proposed point and [prior.logpdf] of it,
    [None] = not finite (outside the prior support) *)
Definition proposal := (list Q * option Q)%type.

(** the [else] branch of [_init_round]: copy row n-1 into row n, n_samples += 1, objective round -= 1 *)
Definition reject_unsimulated (st : state) (r : row) : state :=
  mkState (s_rows st ++ [r]) (s_cap st) (s_cand st) (s_rounds st - 1)%Z (s_acc st) (s_sims st).

(** [_init_round]: returns the new state and the number of proposals consumed.
    [props] is the stream of proposals [_propagate_state] would yield (with their log priors). *)
Fixpoint init_round (st : state) (props : list proposal) : state * nat :=
  if (s_cap st <=? length (s_rows st))%nat then (st, O) else     (* while n_samples < len(params) *)
  match props with
  | [] => (st, O)                                                 (* stream too short (excluded by hypotheses) *)
  | (p, Some lp) :: _ =>                                          (* finite log prior: start data collection, break *)
      (mkState (s_rows st) (s_cap st) (Some (p, lp)) (s_rounds st) (s_acc st) (S (s_sims st)), 1%nat)
  | (_, None) :: rest =>
      match last_row st with
      | None => (st, O)                                           (* n = 0: not reachable (called after round 0) *)
      | Some r => let '(st', k) := init_round (reject_unsimulated st r) rest in (st', S k)
      end
  end.

(** [_process_simulated] for a finite synthetic log-likelihood [loglik] and the uniform draw [u]. *)
Definition accepts (ex : Q -> Q) (jac : list Q -> Q) (use_tr : bool) (st : state) (p : list Q) (lpost : Q) (u : Q) : bool :=
  match last_row st with
  | None => true                                                  (* n == 0: accept_candidate = True *)
  | Some prev => Qltb u (accept_prob ex (mh_logratio use_tr jac p lpost prev))
  end.

Definition process_simulated (ex : Q -> Q) (jac : list Q -> Q) (use_tr : bool) (burn_in : nat)
           (st : state) (loglik u : Q) : state :=
  match s_cand st with
  | None => st
  | Some (p, lp) =>
      let n := length (s_rows st) in
      let lpost := loglik + lp in
      if accepts ex jac use_tr st p lpost u then
        mkState (s_rows st ++ [mkRow p lp lpost]) (s_cap st) None (s_rounds st)
                (if (burn_in <=? n)%nat then S (s_acc st) else s_acc st) (s_sims st)
      else
        match last_row st with
        | Some prev => mkState (s_rows st ++ [prev]) (s_cap st) None (s_rounds st) (s_acc st) (s_sims st)
        | None => st
        end
  end.

(** ------------------------------------------------------------------------------------------
    2. Sample mean / covariance, whitening, Warton shrinkage
    ------------------------------------------------------------------------------------------ *)

Definition qsum (l : list Q) : Q := fold_right Qplus 0 l.
Definition qlen (l : list Q) : Q := inject_Z (Z.of_nat (length l)).

(** [ssx.mean(0)] of one column *)
Definition mean (xs : list Q) : Q := qsum xs / qlen xs.

(** [np.cov(ssx, rowvar=False)[i, j]]: two-pass, unbiased (n - 1) *)
Definition cov_entry (xs ys : list Q) : Q :=
  qsum (map (fun p => (fst p - mean xs) * (snd p - mean ys)) (combine xs ys)) / (qlen xs - 1).

(** textbook one-pass form, used by [ok] as the independent statement *)
Definition cov_alt (xs ys : list Q) : Q :=
  (qsum (map (fun p => fst p * snd p) (combine xs ys)) - qlen xs * mean xs * mean ys) / (qlen xs - 1).

Definition col (j : nat) (X : list (list Q)) : list Q := map (fun r => nth j r 0) X.
Definition dot (u v : list Q) : Q := qsum (map (fun p => fst p * snd p) (combine u v)).

Definition mean_vec (d : nat) (X : list (list Q)) : list Q := map (fun j => Qred (mean (col j X))) (seq 0 d).
Definition cov_mat (ce : list Q -> list Q -> Q) (d : nat) (X : list (list Q)) : list (list Q) :=
  map (fun i => map (fun j => Qred (ce (col i X) (col j X))) (seq 0 d)) (seq 0 d).

(** [ssx = np.matmul(ssx, np.transpose(W))], [ssy = np.matmul(W, ssy)] *)
Definition whiten_vec (W : list (list Q)) (y : list Q) : list Q := map (fun w => Qred (dot w y)) W.
Definition whiten_rows (W : list (list Q)) (X : list (list Q)) : list (list Q) := map (whiten_vec W) X.

(** [cov_warton(S, gamma)], entry (i, j); [di], [dj] are the oracle values of [sqrt(S_ii + eps)], [sqrt(S_jj + eps)]:
    D1 = diag(1/d), D2 = diag(d), Sigma = D2 (gamma * (D1 S D1) + (1 - gamma) I) D2 *)
Definition warton_entry (gamma : Q) (sij di dj : Q) (diag : bool) : Q :=
  di * (gamma * ((1 / di) * sij * (1 / dj)) + (1 - gamma) * (if diag then 1 else 0)) * dj.

Definition warton_eps : Q := 1 # 100000.

Definition warton (gamma : Q) (S : list (list Q)) (dd : list Q) : list (list Q) :=
  map (fun i => map (fun j => Qred (warton_entry gamma (nth j (nth i S []) 0) (nth i dd 1) (nth j dd 1) (Nat.eqb i j)))
                    (seq 0 (length S))) (seq 0 (length S)).

(** [syn_likelihood_misspec]: [std = np.sqrt(np.diag(sample_cov))] ([sd], oracle),
    "mean":     [sample_mean = sample_mean + std * gamma]
    "variance": [sample_cov = sample_cov + np.diag((std * gamma) ** 2)]
    The caller's [gamma] is an INPUT: the model has no state between evaluations. *)
Definition mis_mean_entry (m sd g : Q) : Q := m + sd * g.
Definition mis_var_entry (s sd g : Q) (diag : bool) : Q := s + (if diag then (sd * g) * (sd * g) else 0).
(** published form of the variance adjustment, free of the sqrt oracle: Sigma_ii (1 + gamma_i^2) on the diagonal *)
Definition mis_var_spec_entry (s g : Q) (diag : bool) : Q := if diag then s * (1 + g * g) else s.

Definition mis_mean_vec (m sd g : list Q) : list Q :=
  map (fun i => Qred (mis_mean_entry (nth i m 0) (nth i sd 0) (nth i g 0))) (seq 0 (length m)).
Definition mis_var_mat (S : list (list Q)) (sd g : list Q) : list (list Q) :=
  map (fun i => map (fun j => Qred (mis_var_entry (nth j (nth i S []) 0) (nth i sd 0) (nth i g 0) (Nat.eqb i j)))
                    (seq 0 (length S))) (seq 0 (length S)).
Definition mis_var_spec_mat (S : list (list Q)) (g : list Q) : list (list Q) :=
  map (fun i => map (fun j => Qred (mis_var_spec_entry (nth j (nth i S []) 0) (nth i g 0) (Nat.eqb i j)))
                    (seq 0 (length S))) (seq 0 (length S)).

(** ------------------------------------------------------------------------------------------
    3. Correspondence interface
    ------------------------------------------------------------------------------------------ *)

Definition close (tol a b : Q) : bool := Qle_bool (Qabs (a - b)) (tol * (1 + Qabs a)).
Definition tol9 : Q := 1 # 1000000000.
Definition tol7 : Q := 1 # 10000000.

Fixpoint all2 {A B} (f : A -> B -> bool) (l : list A) (m : list B) : bool :=
  match l, m with
  | [], [] => true
  | x :: l', y :: m' => f x y && all2 f l' m'
  | _, _ => false
  end.

Definition vec_close (tol : Q) (u v : list Q) : bool := all2 (close tol) u v.
Definition mat_close (tol : Q) (A B : list (list Q)) : bool := all2 (vec_close tol) A B.
Definition vec_eq (u v : list Q) : bool := all2 Qeq_bool u v.

Definition row_eq (a b : row) : bool :=
  vec_eq (r_par a) (r_par b) && Qeq_bool (r_lprior a) (r_lprior b) && Qeq_bool (r_lpost a) (r_lpost b).
Definition row_close (a b : row) : bool :=
  vec_eq (r_par a) (r_par b) && Qeq_bool (r_lprior a) (r_lprior b) && close tol9 (r_lpost a) (r_lpost b).

(** oracle tables *)
Fixpoint lookup (tbl : list (list Q * Q)) (k : list Q) : Q :=
  match tbl with
  | [] => 0
  | (k', v) :: t => if vec_eq k' k then v else lookup t k
  end.

(** a recorded call of numpy's exp: the argument the code passed and the value it got back *)
Record exp_call := mkExp { e_arg : Q; e_val : Q }.

(** which likelihood a call history evaluates *)
Inductive variant :=
| VStd (W : option (list (list Q))) (shrink : option Q)   (* gaussian_syn_likelihood: whitening matrix, Warton gamma = 1 - penalty *)
| VMean                                                    (* syn_likelihood_misspec, adjustment = "mean" *)
| VVar.                                                    (* syn_likelihood_misspec, adjustment = "variance" *)

(** one evaluation inside a history of calls that share the caller's arrays *)
Record lik_eval := mkEval {
  ev_X : list (list Q);        (* simulated summaries of this evaluation *)
  ev_par : list Q;             (* the adjustment parameter gamma ON RECORD for this evaluation: the content of the caller's
                                  array as the caller last wrote it (direct histories: before the first call; sampler
                                  rounds: state['gamma'][n]); [] for VStd *)
  ev_sd : list Q;              (* oracle: VStd with shrinkage sqrt(diag S + eps); VMean / VVar sqrt(diag S) *)
  ev_y : list Q;               (* implementation: the arguments handed to multivariate_normal.logpdf *)
  ev_mean : list Q;
  ev_cov : list (list Q)
}.

Inductive case :=
(** [_get_mh_ratio] on a constructed sampler state *)
| CMh (use_tr : bool) (p_new : list Q) (lpost_new : Q) (prev : row)
      (jac_impl : list (list Q * Q))    (* theta |-> impl _jacobian(_para_logit_transform theta), called by the harness *)
      (jac_spec : list (list Q * Q))    (* theta |-> sum_i log |d back_i / dy| at y = trans_i theta_i, closed form in theta *)
      (ec : exp_call)                   (* the np.exp call made by _get_mh_ratio *)
      (impl_ratio : Q)                  (* returned value *)
      (log_impl_ratio : Q)              (* harness: math.log of the returned value *)
(** [_process_simulated] with a stub likelihood *)
| CStep (use_tr : bool) (burn_in : nat) (st : state) (loglik u : Q)
        (jac_impl jac_spec : list (list Q * Q)) (ec : option exp_call)
        (impl_row : row) (impl_acc : nat) (impl_n : nat)
(** [_init_round] with scripted proposals *)
| CInit (st : state) (props : list proposal)
        (impl_rows : list row) (impl_cand : option (list Q * Q)) (impl_rounds : Z)
        (impl_consumed : nat) (impl_started : bool)
(** mean / cov / whitening / Warton as handed to multivariate_normal.logpdf by gaussian_syn_likelihood *)
| CLik (d : nat) (X : list (list Q)) (y : list Q) (W : option (list (list Q)))
       (shrink : option (Q * list Q))   (* gamma = 1 - penalty, oracle sqrt(diag(S) + eps) *)
       (impl_y impl_mean : list Q) (impl_cov : list (list Q))
(** a HISTORY of evaluations of one likelihood that re-use the caller's observed vector / whitening matrix /
    gamma array objects (as BSL's sampler does): [y], [v] and [ev_par] are the values on record, every evaluation
    is compared with a fresh run of the (stateless) model on them *)
| CHist (d : nat) (v : variant) (y : list Q) (evals : list lik_eval).

Definition lik_model (ce : list Q -> list Q -> Q) (d : nat) (X : list (list Q)) (y : list Q)
           (W : option (list (list Q))) (shrink : option (Q * list Q)) : list Q * list Q * list (list Q) :=
  let X1 := match W with Some w => whiten_rows w X | None => X end in
  let y1 := match W with Some w => whiten_vec w y | None => y end in
  let Sg := cov_mat ce d X1 in
  let S1 := match shrink with Some (g, dd) => warton g Sg dd | None => Sg end in
  (y1, mean_vec d X1, S1).

Definition sqrt_oracle_ok (S : list (list Q)) (dd : list Q) : bool :=
  (length dd =? length S)%nat &&
  forallb (fun i => let di := nth i dd 1 in
                    Qltb 0 di && close tol9 (nth i (nth i S []) 0 + warton_eps) (di * di))
          (seq 0 (length S)).

Definition symmetric (tol : Q) (A : list (list Q)) : bool :=
  forallb (fun i => forallb (fun j => close tol (nth j (nth i A []) 0) (nth i (nth j A []) 0))
                            (seq 0 (length A))) (seq 0 (length A)).

Definition state_after_init_ok (st : state) (props : list proposal) (rows' : list row)
           (cand' : option (list Q * Q)) (rounds' : Z) (consumed : nat) (started : bool) : bool :=
  match last_row st with
  | None => false
  | Some r =>
      let k := (length rows' - length (s_rows st))%nat in                 (* rows appended *)
      (* the appended rows are copies of the previous row; earlier rows untouched *)
      all2 row_eq rows' (s_rows st ++ repeat r k)
      && (rounds' =? s_rounds st - Z.of_nat k)%Z
      (* exactly the first k proposals were outside the support, none of them started a simulation *)
      && forallb (fun pr => match snd pr with None => true | Some _ => false end) (firstn k props)
      && (if started then
            (consumed =? S k)%nat &&
            match nth_error props k, cand' with
            | Some (p, Some lp), Some (p', lp') => vec_eq p p' && Qeq_bool lp lp'
            | _, _ => false
            end
          else (consumed =? k)%nat && (length rows' =? s_cap st)%nat)
  end.

(** oracle [sd_i = sqrt(S_ii)] *)
Definition sd_oracle_ok (S : list (list Q)) (sd : list Q) : bool :=
  (length sd =? length S)%nat &&
  forallb (fun i => let di := nth i sd 1 in
                    Qltb 0 di && close tol9 (nth i (nth i S []) 0) (di * di))
          (seq 0 (length S)).

(** the model's arguments of the normal density for ONE evaluation; nothing is carried over between evaluations *)
Definition eval_model (ce : list Q -> list Q -> Q) (d : nat) (v : variant) (y : list Q) (e : lik_eval)
  : list Q * list Q * list (list Q) :=
  match v with
  | VStd W sh => lik_model ce d (ev_X e) y W (match sh with Some g => Some (g, ev_sd e) | None => None end)
  | VMean => (y, mis_mean_vec (mean_vec d (ev_X e)) (ev_sd e) (ev_par e), cov_mat ce d (ev_X e))
  | VVar => (y, mean_vec d (ev_X e), mis_var_mat (cov_mat ce d (ev_X e)) (ev_sd e) (ev_par e))
  end.

Definition eval_agree (d : nat) (v : variant) (y : list Q) (e : lik_eval) : bool :=
  let '(y1, m, Sg) := eval_model cov_entry d v y e in
  vec_close tol9 y1 (ev_y e) && vec_close tol9 m (ev_mean e) && mat_close tol7 Sg (ev_cov e)
  && match v with
     | VStd W (Some _) =>
         sqrt_oracle_ok (cov_mat cov_entry d (match W with Some w => whiten_rows w (ev_X e) | None => ev_X e end)) (ev_sd e)
     | VStd _ None => true
     | _ => (length (ev_par e) =? d)%nat && sd_oracle_ok (cov_mat cov_entry d (ev_X e)) (ev_sd e)
     end.

(** the property's statement for one evaluation, on what the implementation handed to the normal density:
    textbook covariance; mean adjustment mu + sd * gamma with sd_i^2 = Sigma_ii; variance adjustment
    Sigma + diag(Sigma_ii * gamma_i^2) (no oracle); gamma = the value on record *)
Definition eval_ok (d : nat) (v : variant) (y : list Q) (e : lik_eval) : bool :=
  match v with
  | VStd W sh =>
      let '(y1, m, Sg) := eval_model cov_alt d v y e in
      vec_close tol9 y1 (ev_y e) && vec_close tol9 m (ev_mean e) && mat_close tol7 Sg (ev_cov e)
      && symmetric tol9 (ev_cov e)
  | VMean =>
      let S := cov_mat cov_alt d (ev_X e) in
      (length (ev_par e) =? d)%nat && sd_oracle_ok S (ev_sd e)
      && vec_close tol9 y (ev_y e)
      && vec_close tol9 (mis_mean_vec (mean_vec d (ev_X e)) (ev_sd e) (ev_par e)) (ev_mean e)
      && mat_close tol7 S (ev_cov e) && symmetric tol9 (ev_cov e)
  | VVar =>
      (length (ev_par e) =? d)%nat
      && vec_close tol9 y (ev_y e) && vec_close tol9 (mean_vec d (ev_X e)) (ev_mean e)
      && mat_close tol7 (mis_var_spec_mat (cov_mat cov_alt d (ev_X e)) (ev_par e)) (ev_cov e)
      && symmetric tol9 (ev_cov e)
  end.

Definition agree (c : case) : bool :=
  match c with
  | CMh use_tr p_new lpost_new prev ji js ec ratio lr =>
      close tol9 (mh_logratio use_tr (lookup ji) p_new lpost_new prev) (e_arg ec)
      && Qeq_bool (e_val ec) ratio
  | CStep use_tr burn st loglik u ji js ec irow iacc inn =>
      let ex := fun _ : Q => match ec with Some e => e_val e | None => 0 end in
      let st' := process_simulated ex (lookup ji) use_tr burn st loglik u in
      match last_row st', s_cand st, ec, last_row st with
      | Some r, Some (p, lp), Some e, Some prev =>
          close tol9 (mh_logratio use_tr (lookup ji) p (loglik + lp) prev) (e_arg e)
          && row_close r irow && (s_acc st' =? iacc)%nat && (length (s_rows st') =? inn)%nat
      | Some r, Some _, None, None =>
          row_close r irow && (s_acc st' =? iacc)%nat && (length (s_rows st') =? inn)%nat
      | _, _, _, _ => false
      end
  | CInit st props irows icand irounds icons istarted =>
      let '(st', k) := init_round st props in
      all2 row_eq (s_rows st') irows
      && (s_rounds st' =? irounds)%Z && (k =? icons)%nat
      && Bool.eqb (s_sims st' =? S (s_sims st))%nat istarted
      && match s_cand st', icand with
         | Some (p, lp), Some (p', lp') => vec_eq p p' && Qeq_bool lp lp'
         | None, None => true
         | _, _ => negb istarted       (* the candidate row is only meaningful when a round was started *)
         end
  | CLik d X y W shrink iy imean icov =>
      let '(y1, m, Sg) := lik_model cov_entry d X y W shrink in
      vec_close tol9 y1 iy && vec_close tol9 m imean && mat_close tol7 Sg icov
      && match shrink with
         | Some (_, dd) => sqrt_oracle_ok (cov_mat cov_entry d (match W with Some w => whiten_rows w X | None => X end)) dd
         | None => true
         end
  | CHist d v y evals => forallb (eval_agree d v y) evals
  end.

(** the property's own statement evaluated on what the implementation returned *)
Definition ok (c : case) : bool :=
  match c with
  | CMh use_tr p_new lpost_new prev ji js ec ratio lr =>
      (* ratio = exp(clip(posterior log-ratio + log-Jacobian difference)), compared through the log oracle *)
      close tol7 (mh_logratio use_tr (lookup js) p_new lpost_new prev) lr
  | CStep use_tr burn st loglik u ji js ec irow iacc inn =>
      match s_cand st, last_row st with
      | Some (p, lp), None =>                     (* n == 0: always accepted *)
          row_close (mkRow p lp (loglik + lp)) irow && (inn =? 1)%nat
      | Some (p, lp), Some prev =>
          let lr := mh_logratio use_tr (lookup js) p (loglik + lp) prev in
          (* accepted iff u < min(1, exp lr); exp through the recorded oracle value, which must belong to lr *)
          match ec with
          | Some e =>
              close tol7 lr (e_arg e)
              && (let prob := Qmin 1 (e_val e) in
                  if Qltb u prob then row_close (mkRow p lp (loglik + lp)) irow
                  else row_eq prev irow)
              && (inn =? S (length (s_rows st)))%nat
          | None => false
          end
      | None, _ => false
      end
  | CInit st props irows icand irounds icons istarted =>
      state_after_init_ok st props irows icand irounds icons istarted
  | CLik d X y W shrink iy imean icov =>
      (* mean and covariance handed to the normal density are the sample mean and the unbiased sample
         covariance (textbook one-pass form) of the (whitened) summaries, shrunk as stated; symmetric *)
      let '(y1, m, Sg) := lik_model cov_alt d X y W shrink in
      vec_close tol9 y1 iy && vec_close tol9 m imean && mat_close tol7 Sg icov && symmetric tol9 icov
  | CHist d v y evals =>
      (* every evaluation of the history satisfies the statement for the values on record *)
      forallb (eval_ok d v y) evals
  end.
