(** C10 — the cached-RBF fast path of GPyRegression.predict / predictive_gradients as matrix
    expressions (mathcomp), next to the Gaussian-process definitions they stand for.
    Definitions only; the identities are proved in Proofs/C10_Mx.v.

    Code (elfi/methods/bo/gpy_regression.py), for ONE query row x (1 x d) and evidence X (n x d):
      _cache_RBF_kernel:  x2sum = sum(X**2, 1);  woodbury = alpha (n x 1);  woodbury_inv = W (n x n);
                          woodbury_chol = L (n x n)      -- GPy internals (oracles), W = (L L^T)^-1
      predict:            r2 = sum(x**2) + x2sum - 2 x X^T
                          kx = rbf_var * exp(r2 * factor) + bias            (entrywise: oracle exp)
                          mu = kx . woodbury
                          var = rbf_var + bias;  var -= kx . (W . kx^T);  var += noise
      predictive_gradients:
                          kx = rbf_var * exp(r2 * factor);  dkdx = 2 factor (x - X) * kx^T   (n x d)
                          grad_mu  = (dkdx^T . woodbury)^T
                          v = solve(L, kx^T + bias);  dvdx = solve(L, dkdx);  grad_var = -2 (dvdx^T . v)^T *)
From mathcomp Require Import all_ssreflect all_algebra.
Set Implicit Arguments.
Unset Strict Implicit.
Unset Printing Implicit Defensive.
Import GRing.Theory.
Local Open Scope ring_scope.

Section FastPath.
Variable R : comRingType.
Variables n d : nat.

Definition sqnorm (x : 'rV[R]_d) : R := (x *m x^T) 0 0.
Definition dot (x y : 'rV[R]_d) : R := (x *m y^T) 0 0.

(** squared distances to every evidence row: as coded, and by definition *)
Definition r2_fast (x : 'rV[R]_d) (X : 'M[R]_(n, d)) : 'rV[R]_n :=
  \row_i (sqnorm x + sqnorm (row i X)) - 2%:R *: (x *m X^T).
Definition r2_def (x : 'rV[R]_d) (X : 'M[R]_(n, d)) : 'rV[R]_n :=
  \row_i sqnorm (x - row i X).

(** predictive mean and its gradient *)
Definition mean_fast (kx : 'rV[R]_n) (alpha : 'cV[R]_n) : 'M[R]_1 := kx *m alpha.
Definition gradmean_fast (dk : 'M[R]_(n, d)) (alpha : 'cV[R]_n) : 'rV[R]_d := (dk^T *m alpha)^T.
Definition gradmean_def (dk : 'M[R]_(n, d)) (alpha : 'cV[R]_n) : 'rV[R]_d := alpha^T *m dk.

(** predictive variance: as coded (prior variance kss = rbf_var + bias, noise added last) and the
    Gaussian-process definition  k** - |L^-1 k|^2 + sigma2  with L the Cholesky factor *)
Definition var_fast (kss noise : R) (kx : 'rV[R]_n) (W : 'M[R]_n) : 'M[R]_1 :=
  kss%:M - kx *m (W *m kx^T) + noise%:M.
Definition var_W (kss noise : R) (kx : 'rV[R]_n) (W : 'M[R]_n) : 'M[R]_1 :=
  kss%:M - kx *m W *m kx^T + noise%:M.
Definition var_chol (kss noise : R) (kx : 'rV[R]_n) (Linv : 'M[R]_n) : 'M[R]_1 :=
  kss%:M - (Linv *m kx^T)^T *m (Linv *m kx^T) + noise%:M.

(** gradient of the variance: as coded from the two triangular solves, and the definition
    d/dx_j [ - k W k^T ] = - 2 k W dk_j  (W symmetric) *)
Definition gradvar_fast (v : 'cV[R]_n) (dv : 'M[R]_(n, d)) : 'rV[R]_d := - 2%:R *: (dv^T *m v)^T.
Definition gradvar_def (k : 'rV[R]_n) (W : 'M[R]_n) (dk : 'M[R]_(n, d)) : 'rV[R]_d :=
  - 2%:R *: (k *m W *m dk).

(** the quadratic form the variance subtracts *)
Definition qform (W : 'M[R]_n) (k : 'rV[R]_n) : 'M[R]_1 := k *m W *m k^T.
End FastPath.
