(** ROMC bounding box as matrices over an ordered field, any dimension (C19, mathcomp part).

    [to_box]   = the change of frame of [NDimBoundingBox.contains]:
                 [np.dot(rotation_inv, point) + np.dot(rotation_inv, -center)]
    [from_box] = the change of frame of [NDimBoundingBox.sample]:
                 [np.dot(rot, theta.T).T + center]
    with [rotation_inv = invmx rotation] (the exact inverse; [np.linalg.inv] is not modelled).
    Points are column vectors.  The list model in Num/Box.v uses the same two formulas.  No proofs here.  *)
From mathcomp Require Import all_ssreflect all_algebra.
Set Implicit Arguments.
Unset Strict Implicit.
Unset Printing Implicit Defensive.
Import GRing.Theory Num.Theory.
Local Open Scope ring_scope.

Section BoxField.
Variable (F : fieldType) (n : nat).
Implicit Types (R : 'M[F]_n) (c p th : 'cV[F]_n).

Definition to_box R c p : 'cV[F]_n := invmx R *m p + invmx R *m (- c).
Definition from_box R c th : 'cV[F]_n := R *m th + c.
End BoxField.

Section BoxOrdered.
Variable (F : realFieldType) (n : nat).
Implicit Types (R : 'M[F]_n) (c p th u lo hi : 'cV[F]_n).

(** [forall i, lo_i <= q_i <= hi_i] -- what the loop of [contains] decides (Proofs/C19_Box.v) *)
Definition within lo hi th : bool := [forall i, (lo i 0 <= th i 0) && (th i 0 <= hi i 0)].

Definition contains R c lo hi p : bool := within lo hi (to_box R c p).

(** box-frame coordinates drawn by [sample]: [uniform(loc=lo_i, scale=hi_i-lo_i)] = [lo_i + (hi_i-lo_i)*u_i] *)
Definition box_coords lo hi u : 'cV[F]_n := \col_i (lo i 0 + (hi i 0 - lo i 0) * u i 0).

Definition sample_point R c lo hi u : 'cV[F]_n := from_box R c (box_coords lo hi u).
End BoxOrdered.
