#!/bin/bash
# Build the whole Coq development from files on disk (offline): translator output first (coq/Gen/*.v is
# regenerated from /repo and not committed), then a full .vo build.
cd "$(dirname "$0")"
export PYTHONHASHSEED=0 PYTHONPATH="${ELFI_REPO:-/repo}:/verif/harness"
mkdir -p coq/Gen work replays evidence
for t in harness/translate_*.py; do
  [ -f "$t" ] || continue
  /venv/bin/python "$t" || { echo "translator $t failed"; exit 1; }
done
bash coq/build.sh
