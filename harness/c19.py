"""C19 — ROMC bounding-box regions, line search, posterior counts and sample weights:
correspondence with coq/Num/Box.v.

Six kinds of case (Coq type Box.case):
  box    NDimBoundingBox(rotation, center, limits): secured limits, volume, rotation_inv, contains/pdf on
         chosen points (inside / outside / on the boundary / far), sample() rows with the generator's
         draws recorded;
  line   line_search on a scripted piecewise-constant objective (direct call, or through
         RegionConstructor.build with a diagonal Hessian);
  post   RomcPosterior built directly: _pdf_unnorm_single_point / pdf_unnorm_batched with recorded calls;
  weight RomcPosterior.sample weights (drawn) and _worker_compute_weight on chosen points;
  fam    construction history: several NDimBoundingBox built from shared / re-used / overwritten array objects
         (several dtypes and layouts of the limits buffer); every member observed after the whole history against
         a fresh model box of its own inputs; the caller's arrays must not be modified by the library;
  hist   call history on one RomcPosterior: evaluations (bit-identical revisits), pdf(), sample(),
         _worker_compute_weight interleaved with reset_eps_cutoff; the model's only state is the current cut-off,
         and every answer also equals that of a posterior constructed at that step with that cut-off.
"""
import math
from fractions import Fraction as Fr

import numpy as np
from common import *

TOL = Fr(1, 10 ** 9)
PYTH = [(3, 4, 5), (5, 12, 13), (8, 15, 17), (7, 24, 25), (4, 3, 5), (12, 5, 13)]


# ---------------------------------------------------------------------------------------------
# exact helpers (Fractions) — used only to build inputs, never as the expected answer
# ---------------------------------------------------------------------------------------------

def f_inv(M):
    n = len(M)
    A = [[Fr(x) for x in row] + [Fr(int(i == j)) for j in range(n)] for i, row in enumerate(M)]
    for c in range(n):
        piv = next((r for r in range(c, n) if A[r][c] != 0), None)
        if piv is None:
            return None
        A[c], A[piv] = A[piv], A[c]
        d = A[c][c]
        A[c] = [x / d for x in A[c]]
        for r in range(n):
            if r != c and A[r][c] != 0:
                k = A[r][c]
                A[r] = [x - k * y for x, y in zip(A[r], A[c])]
    return [row[n:] for row in A]


def f_mm(A, B):
    return [[sum(A[i][k] * B[k][j] for k in range(len(B))) for j in range(len(B[0]))] for i in range(len(A))]


def f_mv(A, v):
    return [sum(a * x for a, x in zip(row, v)) for row in A]


def small_dyadic(x, bits=20):
    f = Fr(x)
    d = f.denominator
    return d & (d - 1) == 0 and d <= 2 ** 12 and abs(f.numerator) < 2 ** bits


def cvec(v):
    return clist([cq(x) for x in v])


def cmat(M):
    return clist([cvec(r) for r in M])


def clims(L):
    return clist(['(%s, %s)' % (cq(a), cq(b)) for a, b in L])


def fl(M):
    """nested lists of Fractions -> float ndarray (what the implementation is given)"""
    return np.array([[float(x) for x in r] for r in M], dtype=float) if M and isinstance(M[0], (list, tuple)) \
        else np.array([float(x) for x in M], dtype=float)


def sfr(x):
    """json-safe exact number"""
    f = Fr(x)
    return [f.numerator, f.denominator]


def ufr(p):
    return Fr(p[0], p[1])


class RecState(np.random.RandomState):
    """RandomState recording every uniform() result (what scipy's uniform.rvs consumes)."""

    def __init__(self, s):
        super().__init__(s)
        self.log = []

    def uniform(self, *a, **k):
        r = super().uniform(*a, **k)
        self.log.append(np.array(r, dtype=float).copy())
        return r


class FloatPrior:
    """prior object returning Python floats (ModelPrior dies under numpy 2, DESIGN section 6)"""

    def __init__(self, dim, kind, par):
        self.dim = dim
        self.kind = kind
        self.par = par

    def value(self, th):
        if self.kind == 'box':
            L, v = self.par
            return float(v) if all(abs(float(x)) <= L for x in th) else 0.0
        if self.kind == 'tent':
            s = sum(abs(float(x)) for x in th)
            return max(0.0, 1.0 - s / self.par)
        return float(self.par)

    def pdf(self, x):
        assert x.ndim == 2 and x.shape[0] == 1
        return self.value(x[0])


class C19(PropCheck):
    pid = 'C19'
    header = ('From Coq Require Import List QArith ZArith Bool.\nFrom Elfi Require Import Base.Harness Num.Box.\n'
              'Import ListNotations.\nOpen Scope Q_scope.\n')
    case_type = 'Box.case'
    preds = (('Box.agree', 'agree'), ('Box.ok', 'ok'))
    chunk = 60
    rule = ('boxes dim 1-4 with signed-permutation / Pythagorean-Givens orthonormal / unimodular / general rational / scaled '
            'rotations, dyadic centres, limits incl. degenerate ones (0,0), (+-2^-11), (+-0.0005) and sign-violating ones; '
            'points inside/outside/on the boundary/far; sample() with recording RandomState, int seed, global seed; line_search '
            'on scripted piecewise-constant objectives (K 0-12, dyadic eta, rep_lim 0-300) directly and through '
            'RegionConstructor.build; RomcPosterior built directly (1-4 regions, surrogate flag on/off, cut-off ties); '
            'construction histories: families of 2-4 boxes whose limits / rotation / centre array objects are fresh, shared as '
            'they are, or (limits) overwritten in place by the caller between constructions and after the last one; limits '
            'buffers float64 C / Fortran order / non-contiguous view / float32 / int64, >= 1 dimension that gets widened in most '
            'families; every member observed after the whole history and compared with a fresh model box of its own inputs; '
            'caller\'s arrays byte-compared around every library call; call histories on one RomcPosterior: evaluations at a '
            'pool of points (bit-identical revisits, same or new array object, single / batched), pdf(), sample(), '
            '_worker_compute_weight interleaved with reset_eps_cutoff to smaller and larger values; every answer compared with the '
            'model run with the cut-off in force and with a posterior constructed at that step with that cut-off. '
            'Non-trivial = box case with a non-axis-aligned rotation and >= 1 boundary or outside point, line case whose first '
            'probe is below the threshold and which probes >= 3 offsets, posterior case where the count is neither 0 nor all, '
            'weight case with both indicator values, family in which a limits array object with a widened dimension is handed to '
            '>= 2 constructors, history in which a point is re-evaluated bit-identically under another cut-off for which the '
            'count differs; distinct by full input')
    trusted = ('np.linalg.inv is not modelled: the exact inverse (harness, Fractions) is an input of the model and is validated '
               'inside Coq (Rinv*R = I exactly); the implementation\'s rotation_inv is compared with it to 1e-9',
               'scipy uniform.rvs(size, random_state) = loc + scale*random_state.uniform(0,1,size) (re-tested on every sample case)',
               'binary64 vs exact Q: numeric outputs compared to 1e-9 relative; containment decisions compared when no box '
               'coordinate is within 1e-9 of a limit, or always when all data are small dyadic numbers (binary64 exact)')

    # ---------------------------------------------------------------- generators
    def rotation(self, D, kind):
        r = self.rng
        I = [[Fr(int(i == j)) for j in range(D)] for i in range(D)]
        if kind == 'perm':
            p = list(range(D))
            r.shuffle(p)
            return [[Fr(r.choice([1, -1]) if p[i] == j else 0) for j in range(D)] for i in range(D)]
        if kind == 'pyth':
            M = I
            for _ in range(r.randint(1, 3) if D > 1 else 0):
                i, j = r.sample(range(D), 2)
                a, b, c = r.choice(PYTH)
                G = [row[:] for row in I]
                G[i][i] = Fr(a, c); G[j][j] = Fr(a, c); G[i][j] = Fr(-b, c); G[j][i] = Fr(b, c)
                M = f_mm(G, M)
            if D == 1:
                M = [[Fr(r.choice([1, -1]))]]
            return M
        if kind == 'unimod':
            M = self.rotation(D, 'perm')
            for _ in range(r.randint(1, 4) if D > 1 else 0):
                i, j = r.sample(range(D), 2)
                k = r.choice([1, -1, 2, -2])
                E = [row[:] for row in I]
                E[i][j] = Fr(k)
                M = f_mm(E, M)
            return M
        if kind == 'scaled':
            M = self.rotation(D, r.choice(['perm', 'unimod']))
            s = [Fr(r.choice([2, 4, 1, Fr(1, 2)])) for _ in range(D)]
            return [[M[i][j] * s[j] for j in range(D)] for i in range(D)]
        if kind == 'intorth' and D >= 2:    # orthogonal, not normalised columns (3,4;-4,3)
            M = I
            i, j = r.sample(range(D), 2)
            a, b, _ = r.choice(PYTH)
            M = [row[:] for row in I]
            M[i][i] = Fr(a); M[j][j] = Fr(a); M[i][j] = Fr(-b); M[j][i] = Fr(b)
            return M
        if kind == 'singular' and D >= 2:
            M = self.rotation(D, 'general')
            i, j = r.sample(range(D), 2)
            M[i] = [2 * x for x in M[j]]
            return M
        if kind == 'singular':
            return [[Fr(0)]]
        while True:
            M = [[Fr(r.randint(-6, 6), r.choice([1, 2, 4, 5, 3])) for _ in range(D)] for _ in range(D)]
            if f_inv(M) is not None:
                return M

    def limits(self, D, malformed):
        r = self.rng
        L = []
        for i in range(D):
            k = r.random()
            if k < 0.62:
                L.append((Fr(-r.randint(1, 24), 8), Fr(r.randint(1, 24), 8)))
            elif k < 0.70:
                L.append((Fr(0), Fr(r.randint(1, 16), 8)))
            elif k < 0.76:
                L.append((Fr(-r.randint(1, 16), 8), Fr(0)))
            elif k < 0.84:
                L.append((Fr(0), Fr(0)))
            elif k < 0.89:
                L.append((Fr(-1, 2048), Fr(1, 2048)))
            elif k < 0.93:
                L.append((Fr(-0.0005), Fr(0.0005)))          # difference == abs_tol exactly
            elif k < 0.96:
                L.append((Fr(0), Fr(0.0011)))                 # just not close
            else:
                L.append((Fr(-0.001), Fr(0)))
        if malformed:
            i = r.randrange(D)
            if r.random() < 0.5:
                L[i] = (Fr(r.randint(1, 8), 8), Fr(r.randint(9, 16), 8))
            else:
                L[i] = (Fr(-r.randint(9, 16), 8), Fr(-r.randint(1, 8), 8))
        return L

    def gen_box(self, D=None, kind=None, malformed=None):
        r = self.rng
        D = D or r.choice([1, 2, 2, 3, 3, 4])
        kind = kind or r.choice(['perm', 'pyth', 'pyth', 'unimod', 'unimod', 'general', 'general', 'scaled', 'intorth'])
        if malformed is None:
            malformed = None if r.random() > 0.06 else r.choice(['singular', 'limits'])
        if malformed == 'singular':
            kind = 'singular'
        R = self.rotation(D, kind)
        c = [Fr(r.randint(-40, 40), 8) if r.random() < 0.8 else Fr(0) for _ in range(D)]
        if r.random() < 0.15:
            c = [Fr(0)] * D
        L = self.limits(D, malformed == 'limits')
        return dict(D=D, kind=kind, malformed=malformed, R=[[sfr(x) for x in row] for row in R],
                    c=[sfr(x) for x in c], L=[[sfr(a), sfr(b)] for a, b in L])

    def generate(self):
        q = self.tier == 'quick'
        nbox, nline, nbuild, npost, nw = (260, 320, 40, 220, 90) if q else (3200, 4000, 500, 2800, 1100)
        nfam, nhist = (110, 90) if q else (1000, 800)
        r = self.rng
        for _ in range(nbox):
            b = self.gen_box()
            b.update(kind_case='box', npts=r.randint(4, 9), n2=r.choice([0, 1, 3, 5]),
                     seedmode=r.choice(['rs', 'rs', 'int', 'none']), seed=r.randrange(2 ** 31), pseed=r.randrange(2 ** 31))
            self.bump('box/rot=' + b['kind'])
            self.bump('box/dim=%d' % b['D'])
            if b['malformed']:
                self.bump('box/malformed=' + b['malformed'])
            yield b
        for k in range(nline + nbuild):
            yield self.gen_line(build=(k >= nline))
        for _ in range(npost):
            yield self.gen_post('post')
        for _ in range(nw):
            yield self.gen_post('weight')
        for _ in range(nfam):
            yield self.gen_fam()
        for _ in range(nhist):
            yield self.gen_hist()

    DEGEN = [(Fr(0), Fr(0)), (Fr(0), Fr(0)), (Fr(-1, 2048), Fr(1, 2048)), (Fr(-0.0005), Fr(0.0005)), (Fr(0), Fr(1, 1024)),
             (Fr(-0.001), Fr(0)), (Fr(-0.00025), Fr(0.00025))]

    def fam_limits(self, D, layout, malformed=False):
        r = self.rng
        if layout == 'i8':
            L = [((Fr(0), Fr(0)) if r.random() < 0.35 else (Fr(-r.randint(0, 3)), Fr(r.randint(1, 3)))) for _ in range(D)]
            if malformed:
                L[r.randrange(D)] = (Fr(1), Fr(2))
            return L
        L = self.limits(D, malformed)
        if r.random() < 0.6:                      # at least one dimension that _secure_limits has to widen
            for i in r.sample(range(D), r.randint(1, D)):
                if not (malformed and (L[i][0] > 0 or L[i][1] < 0)):
                    L[i] = r.choice(self.DEGEN)
        return L

    def gen_fam(self):
        """a construction history: 2-4 boxes of one dimension; limits / rotation / centre array objects are
        fresh, shared as they are, or (limits) overwritten in place by the caller between two constructions"""
        r = self.rng
        D = r.choice([1, 2, 2, 3, 3, 4])
        layout = r.choice(['f8', 'f8', 'f8', 'f8F', 'view', 'f4', 'i8'])
        n = r.randint(2, 4)
        members = []
        prev = None
        for k in range(n):
            lim_mode = 'fresh' if k == 0 else r.choice(['same', 'same', 'same', 'overwrite', 'overwrite', 'fresh'])
            rc_mode = r.choice(['fresh', 'freshF']) if k == 0 else r.choice(['same', 'fresh', 'fresh', 'freshF'])
            mal = lim_mode != 'same' and r.random() < 0.04
            b = self.gen_box(D=D, kind=r.choice(['perm', 'pyth', 'pyth', 'unimod', 'general', 'scaled']), malformed=False)
            m = dict(R=b['R'], c=b['c'], rc_mode=rc_mode, lim_mode=lim_mode,
                     L=[[sfr(a), sfr(b_)] for a, b_ in self.fam_limits(D, layout, mal)],
                     npts=r.randint(2, 4), n2=r.choice([0, 1, 1, 2]), seedmode=r.choice(['rs', 'rs', 'int', 'none']),
                     seed=r.randrange(2 ** 31), pseed=r.randrange(2 ** 31))
            if prev is not None and rc_mode == 'same':
                m['R'], m['c'] = prev['R'], prev['c']
            if prev is not None and lim_mode == 'same':
                m['L'] = prev['L']
            members.append(m)
            prev = m
            self.bump('fam/limits-object=' + lim_mode)
            self.bump('fam/rot-centre-object=' + rc_mode)
        self.bump('fam/layout=' + layout)
        self.bump('fam/dim=%d' % D)
        self.bump('fam/n=%d' % n)
        case = dict(kind_case='fam', D=D, layout=layout, members=members, scribble=r.random() < 0.4)
        ndeg = sum(1 for a, b_ in members[0]['L'] if abs(ufr(b_) - ufr(a)) <= Fr(1, 512))
        self.bump('fam/degenerate-dims-first-box=%s' % (ndeg if ndeg < 2 else '2+'))
        return case

    def gen_profile(self, shape, eps, off_grid):
        r = self.rng
        lo_v = lambda: eps - Fr(r.randint(1, 8), 8)
        hi_v = lambda: eps + Fr(r.randint(0, 8), 8)
        bps = sorted({Fr(r.randint(1, 400), r.choice([1, 2, 4, 8, 16, 64, 256])) for _ in range(r.randint(1, 5))})
        bps = [b + off_grid for b in bps]
        if shape == 'step':
            tbl = [(bps[0], lo_v())]
            dflt = hi_v()
        elif shape == 'bumps':
            tbl = [(b, (lo_v() if i % 2 == 0 else hi_v())) for i, b in enumerate(bps)]
            dflt = r.choice([lo_v(), hi_v()])
        elif shape == 'below':
            tbl = [(b, lo_v()) for b in bps]
            dflt = lo_v()
        elif shape == 'above0':
            tbl = [(bps[0], hi_v())]
            dflt = r.choice([lo_v(), hi_v()])
        else:
            tbl = [(bps[0], lo_v()), (bps[0] + Fr(3, 2), eps)]
            dflt = r.choice([lo_v(), hi_v()])
        return tbl, dflt

    def gen_line(self, build):
        r = self.rng
        shape = r.choice(['step', 'step', 'bumps', 'bumps', 'below', 'above0', 'tie'])
        if build and shape == 'above0':      # keep the two sides' profiles consistent at offset 0
            shape = 'step'
        eps = Fr(r.randint(1, 16), 4)
        off_grid = Fr(1, 2 ** 20) if build else 0
        tbl, dflt = self.gen_profile(shape, eps, off_grid)
        K = r.choice([0, 1, 2, 3, 5, 8, 10, 12])
        eta = Fr(r.choice([1, 1, 1, 2, 3, Fr(1, 2), Fr(1, 4), Fr(3, 2), Fr(3, 4), 5]))
        rep_lim = r.choice([0, 0, 1, 1, 2, 3, 5, 10, 40, 300])
        D = r.randint(1, 3)
        th_star = [Fr(r.randint(-16, 16), 4) for _ in range(D)]
        self.bump('line/shape=' + shape)
        self.bump('line/rep_lim=%s' % (rep_lim if rep_lim < 4 else '4+'))
        self.bump('line/K=%s' % (K if K < 2 else '2+'))
        case = dict(kind_case='build' if build else 'line', tbl=[[sfr(b), sfr(v)] for b, v in tbl], dflt=sfr(dflt), eps=sfr(eps),
                    K=K, eta=sfr(eta), rep_lim=rep_lim, th_star=[sfr(x) for x in th_star])
        if build:
            # a different profile on the negative side (same value at offset 0)
            tn, dn = self.gen_profile(r.choice(['step', 'bumps', 'below', 'tie']), eps, off_grid)
            tn[0] = (tn[0][0], tbl[0][1])
            case['tbl_neg'] = [[sfr(b), sfr(v)] for b, v in tn]
            case['dflt_neg'] = sfr(dn)
            case['side'] = r.choice([0, 1])
            case['rep_lim'] = min(rep_lim, 40)
            case['d'] = r.randrange(D)
            case['hdiag'] = [r.choice([1.0, 2.0, 0.5, 3.0]) for _ in range(D)]
            # the other coordinates' objectives at offset 0 (max-combined): below the threshold
            case['others'] = sfr(eps - Fr(r.randint(1, 8), 8))
            self.bump('line/through-build')
        else:
            vd = [Fr(r.randint(-3, 3)) for _ in range(D)]
            k = r.randrange(D)
            vd[k] = Fr(r.choice([1, -1, 2, -2, Fr(1, 2)]))
            case['vd'] = [sfr(x) for x in vd]
            case['k'] = k
        return case

    def gen_post(self, which):
        r = self.rng
        D = r.choice([1, 2, 2, 3])
        nreg = r.randint(1, 4)
        regs = []
        for _ in range(nreg):
            b = self.gen_box(D=D, kind=r.choice(['perm', 'pyth', 'unimod', 'general', 'unimod']), malformed=False)
            if r.random() < 0.7:   # keep regions near the origin so that they overlap
                b['c'] = [sfr(Fr(r.randint(-8, 8), 8)) for _ in range(D)]
            regs.append(b)
        anchors = [[sfr(Fr(r.randint(-16, 16), 8)) for _ in range(D)] for _ in range(nreg)]
        scales = [r.choice([1, 1, 2, 4]) for _ in range(nreg)]
        eps = Fr(r.randint(1, 24), 8)
        prior = r.choice([['box', [4.0, 0.125]], ['box', [1.0, 0.5]], ['tent', 8.0], ['const', 0.375]])
        case = dict(kind_case=which, D=D, regions=regs, anchors=anchors, scales=scales, eps=sfr(eps), prior=prior,
                    surrogate=r.random() < 0.6)
        if which == 'post':
            # evaluation point: near a region centre / an anchor / on a region boundary / far
            mode = r.choice(['centre', 'anchor', 'boundary', 'rand', 'far', 'tie'])
            case['mode'] = mode
            case['pseed'] = r.randrange(2 ** 31)
            case['batched'] = r.random() < 0.3
            self.bump('post/point=' + mode)
            self.bump('post/surrogate=%s' % case['surrogate'])
        else:
            case['drawn'] = r.random() < 0.6
            case['n2'] = r.randint(1, 5)
            case['seed'] = r.randrange(2 ** 31)
            case['pseed'] = r.randrange(2 ** 31)
            case['emit_region'] = r.randrange(nreg)     # the region whose observations go through Coq
            self.bump('weight/drawn=%s' % case['drawn'])
        self.bump('%s/nreg=%d' % (which, nreg))
        return case

    def gen_hist(self):
        """a call history on ONE RomcPosterior: evaluations of the unnormalised density at a small pool of points
        (so that bit-identical points recur), pdf(), sample(), _worker_compute_weight, interleaved with
        reset_eps_cutoff to smaller and larger values"""
        r = self.rng
        D = r.choice([1, 2, 2, 3])
        nreg = r.randint(1, 4)
        regs = []
        for _ in range(nreg):
            b = self.gen_box(D=D, kind=r.choice(['perm', 'pyth', 'unimod', 'general', 'unimod']), malformed=False)
            if r.random() < 0.7:
                b['c'] = [sfr(Fr(r.randint(-8, 8), 8)) for _ in range(D)]
            regs.append(b)
        anchors = [[sfr(Fr(r.randint(-16, 16), 8)) for _ in range(D)] for _ in range(nreg)]
        scales = [r.choice([1, 1, 2, 4]) for _ in range(nreg)]
        lo, hi = Fr(r.randint(1, 6), 8), Fr(r.randint(10, 28), 8)
        for i in range(nreg):
            # most objectives take, at their region's centre, a value between the smallest and the largest cut-off
            # (so that the count at a revisited point depends on which cut-off is in force)
            if r.random() < 0.85:
                a = [ufr(x) for x in regs[i]['c']]
                a[r.randrange(D)] += r.choice([1, -1]) * (lo + (hi - lo) * Fr(r.randint(1, 3), 4)) / scales[i]
                anchors[i] = [sfr(x) for x in a]
        eps_vals = [lo, hi] + ([Fr(r.randint(4, 16), 8)] if r.random() < 0.5 else [])
        r.shuffle(eps_vals)
        prior = r.choice([['box', [4.0, 0.125]], ['box', [2.0, 0.25]], ['tent', 8.0], ['const', 0.375]])
        npool = r.randint(3, 6)
        pool = [r.choice(['centre', 'centre', 'centre', 'anchor', 'boundary', 'rand', 'rand', 'tie', 'grid', 'far']) for _ in range(npool)]
        pool[0] = 'centre'
        steps = []
        seen = []
        cur = eps_vals[0]

        def ev(i):
            if i not in seen:
                seen.append(i)
            return dict(op='eval', pt=i, batched=r.random() < 0.3, same_obj=r.random() < 0.5)
        steps.append(ev(0))
        for _ in range(r.randint(0, 2)):
            steps.append(ev(r.randrange(npool)))
        nres = 0
        for _ in range(r.randint(4, 10)):
            k = r.random()
            if k < 0.25:
                new = r.choice([e for e in eps_vals if e != cur])
                self.bump('hist/reset=' + ('smaller' if new < cur else 'larger'))
                cur = new
                nres += 1
                steps.append(dict(op='reset', eps=sfr(new)))
                if seen and r.random() < 0.75:          # come back to a point that was evaluated before
                    steps.append(ev(0 if r.random() < 0.5 else r.choice(seen)))
            elif k < 0.70:
                steps.append(ev(r.choice(seen) if seen and r.random() < 0.5 else r.randrange(npool)))
            elif k < 0.80 and D <= 2:
                steps.append(dict(op='pdf', pts=[r.randrange(npool) for _ in range(r.randint(1, 3))]))
            elif k < 0.92:
                steps.append(dict(op='sample', n2=r.randint(1, 3), seed=r.randrange(2 ** 31), emit=r.randrange(nreg)))
            else:
                steps.append(dict(op='worker', n2=r.randint(1, 3), pseed=r.randrange(2 ** 31), emit=r.randrange(nreg)))
        if nres == 0:                                   # every history changes the cut-off at least once
            new = r.choice([e for e in eps_vals if e != cur])
            self.bump('hist/reset=' + ('smaller' if new < cur else 'larger'))
            nres = 1
            steps += [dict(op='reset', eps=sfr(new)), ev(r.choice(seen)), ev(r.choice(seen))]
        for st in steps:
            self.bump('hist/op=' + st['op'])
        self.bump('hist/resets=%s' % (nres if nres < 3 else '3+'))
        self.bump('hist/nreg=%d' % nreg)
        return dict(kind_case='hist', D=D, regions=regs, anchors=anchors, scales=scales, eps=sfr(eps_vals[0]),
                    eps_vals=[sfr(e) for e in eps_vals], prior=prior, surrogate=r.random() < 0.6,
                    pool=pool, pseed=r.randrange(2 ** 31), steps=steps)

    # ---------------------------------------------------------------- implementation drivers
    def box_inputs(self, b):
        R = [[ufr(x) for x in row] for row in b['R']]
        c = [ufr(x) for x in b['c']]
        L = [(ufr(a), ufr(b_)) for a, b_ in b['L']]
        return R, c, L

    def make_bb(self, b):
        from elfi.methods.inference.romc import NDimBoundingBox
        R, c, L = self.box_inputs(b)
        return NDimBoundingBox(fl(R), fl(c), np.array([[float(a), float(b_)] for a, b_ in L], dtype=float))

    def choose_points(self, b, bb, n, prng):
        """points in the ambient frame (exact Fractions of the floats handed to the implementation)"""
        R, c, L0 = self.box_inputs(b)
        D = b['D']
        L = [(Fr(float(bb.limits[i, 0])), Fr(float(bb.limits[i, 1]))) for i in range(D)]
        pts = []
        for _ in range(n):
            mode = prng.choice(['inside', 'inside', 'outside', 'boundary', 'boundary', 'justout', 'far', 'corner'])
            th = []
            for i, (lo, hi) in enumerate(L):
                w = hi - lo
                g = Fr(prng.randint(0, 16), 16)
                th.append(lo + w * g if w > Fr(1, 100) else (lo + hi) / 2)
            i = prng.randrange(D)
            lo, hi = L[i]
            if mode == 'outside':
                th[i] = hi + Fr(prng.randint(1, 16), 8) if prng.random() < 0.5 else lo - Fr(prng.randint(1, 16), 8)
            elif mode == 'boundary':
                th[i] = hi if prng.random() < 0.5 else lo
            elif mode == 'justout':
                th[i] = hi + Fr(1, 2 ** 10) if prng.random() < 0.5 else lo - Fr(1, 2 ** 10)
            elif mode == 'corner':
                th = [hi_ if prng.random() < 0.5 else lo_ for lo_, hi_ in L]
            elif mode == 'far':
                th = [Fr(prng.randint(-200, 200), 4) for _ in range(D)]
            p = [x + y for x, y in zip(f_mv(R, th), c)]
            pf = [float(x) for x in p]
            pts.append((mode, pf))
        return pts

    def exact_point(self, b, Rinv, pf, bb=None):
        """binary64 evaluates contains() without rounding on this point (and np.linalg.inv was exact)"""
        R, c, L = self.box_inputs(b)
        if Rinv is None:
            return False
        if bb is not None and any(Fr(float(bb.rotation_inv[i, j])) != Rinv[i][j]
                                  for i in range(len(Rinv)) for j in range(len(Rinv))):
            return False
        perm = all(sum(1 for x in row if x != 0) == 1 and all(abs(x) in (0, 1) for x in row) for row in Rinv)
        if perm and all(x == 0 for x in c):
            return True
        return (all(small_dyadic(x) for row in Rinv for x in row) and all(small_dyadic(x) for x in c)
                and all(small_dyadic(x) for x in pf))

    def lims_exact(self, b, bb):
        """exactness guard for widened limits: the float limit is the exact (possibly widened) one"""
        R, c, L = self.box_inputs(b)
        eps = Fr(0.001)
        return all((Fr(float(bb.limits[i, 0])) in (L[i][0], L[i][0] - eps / 2)) and
                   (Fr(float(bb.limits[i, 1])) in (L[i][1], L[i][1] + eps / 2)) for i in range(b['D']))

    def run_impl(self, case):
        return getattr(self, 'run_' + case['kind_case'])(case)

    @staticmethod
    def snap(arrs):
        """bytes + dtype + shape of the caller's arrays (values as the caller sees them through its own reference)"""
        return [(a.tobytes(), str(a.dtype), a.shape) for a in arrs]

    def run_box(self, case):
        from elfi.methods.inference.romc import NDimBoundingBox
        R, c, L = self.box_inputs(case)
        Rinv = f_inv(R)
        args = [fl(R), fl(c), np.array([[float(a), float(b_)] for a, b_ in L], dtype=float)]
        before = self.snap(args)
        try:
            bb = NDimBoundingBox(*args)
        except AssertionError:
            return dict(ok=False, Rinv=None if Rinv is None else [[sfr(x) for x in r] for r in Rinv],
                        args_unchanged=self.snap(args) == before)
        out = self.observe_box(case, bb)
        out['args_unchanged'] = self.snap(args) == before
        return out

    def observe_box(self, case, bb):
        """attributes of one constructed box, contains/pdf on chosen points, sample() rows"""
        R, c, L = self.box_inputs(case)
        Rinv = f_inv(R)
        out = dict(ok=True, Rinv=None if Rinv is None else [[sfr(x) for x in r] for r in Rinv],
                   lims=[[float(a), float(b)] for a, b in bb.limits], vol=float(bb.volume),
                   rotinv=[[float(x) for x in r] for r in bb.rotation_inv], pts=[], smps=[], rvs_ok=True)
        lim_exact = self.lims_exact(case, bb)
        prng = random.Random(case['pseed'])
        for mode, pf in self.choose_points(case, bb, case['npts'], prng):
            p = np.array(pf, dtype=float)
            cont = bb.contains(p)
            pdf = bb.pdf(p)
            ex = lim_exact and self.exact_point(case, Rinv, pf, bb)
            out['pts'].append(dict(mode=mode, p=pf, exact=bool(ex), contains=bool(cont), pdf=float(pdf)))
        n2 = case['n2']
        if n2:
            D = case['D']
            sm = case['seedmode']
            if sm == 'rs':
                rs = RecState(case['seed'])
                X = bb.sample(n2, seed=rs)
                U = [np.asarray(u).reshape(-1) for u in rs.log]
                out['rvs_ok'] = (len(U) == D and all(len(u) == n2 for u in U))
            elif sm == 'int':
                X = bb.sample(n2, seed=case['seed'])
                U = [np.random.RandomState(case['seed']).uniform(0, 1, (n2, 1)).reshape(-1) for _ in range(D)]
            else:
                np.random.seed(case['seed'] % (2 ** 32))
                X = bb.sample(n2)
                g = np.random.RandomState(case['seed'] % (2 ** 32))
                U = [g.uniform(0, 1, (n2, 1)).reshape(-1) for _ in range(D)]
            X = np.asarray(X)
            out['shape_ok'] = (X.shape == (n2, D))
            if out['rvs_ok'] and out['shape_ok']:
                for j in range(n2):
                    out['smps'].append(dict(u=[float(U[i][j]) for i in range(D)], p=[float(x) for x in X[j]],
                                            contains=bool(bb.contains(X[j])), pdf=float(bb.pdf(X[j]))))
                # all coordinates driven by the same draw? (observed behaviour with an int seed; not a violation)
                if D > 1 and all(len({float(U[i][j]) for i in range(D)}) == 1 for j in range(n2)):
                    out['same_draw'] = True
        return out

    # ---- construction histories: several boxes, shared array objects, caller-side overwrites
    def lim_buffer(self, D, layout, vals):
        """the caller's limits array in the requested dtype / memory layout, holding `vals` (D x 2 numbers)"""
        v = [[float(a), float(b_)] for a, b_ in vals]
        if layout == 'f8':
            return np.array(v, dtype=np.float64)
        if layout == 'f8F':
            return np.asfortranarray(np.array(v, dtype=np.float64))
        if layout == 'view':                       # non-contiguous view into a wider array of the caller
            big = np.full((D, 5), 7.0)
            buf = big[:, 1:4:2]
            buf[...] = v
            return buf
        if layout == 'f4':
            return np.array(v, dtype=np.float32)
        if layout == 'i8':
            return np.array(v, dtype=np.int64)
        raise ValueError(layout)

    def run_fam(self, case):
        from elfi.methods.inference.romc import NDimBoundingBox
        D = case['D']
        boxes, used, unchanged = [], [], True
        Rarr = carr = buf = None
        for m in case['members']:
            R, c, L = self.box_inputs(m)
            if m['rc_mode'] != 'same' or Rarr is None:
                Rarr = np.asfortranarray(fl(R)) if m['rc_mode'] == 'freshF' else fl(R)
                carr = fl(c)
            if m['lim_mode'] == 'fresh' or buf is None:
                buf = self.lim_buffer(D, case['layout'], L)
            elif m['lim_mode'] == 'overwrite':     # the caller re-uses its buffer for the next box's limits
                buf[...] = [[float(a), float(b_)] for a, b_ in L]
            # 'same': the same object, not touched by the caller since the previous construction
            # what the constructor is handed, exactly (the model's input for this member)
            # (rotation / centre: the exact rationals whose binary64 roundings are handed over, as for single boxes;
            #  limits: read back from the buffer, exactly, since the buffer's dtype may have rounded them)
            used.append(dict(R=m['R'], c=m['c'], L=[[sfr(float(a)), sfr(float(b_))] for a, b_ in buf]))
            args = [Rarr, carr, buf]
            before = self.snap(args)
            try:
                boxes.append(NDimBoundingBox(Rarr, carr, buf))
            except AssertionError:
                boxes.append(None)
            unchanged = unchanged and self.snap(args) == before
        if case['scribble']:                       # the caller clears / re-fills its limits buffer afterwards
            buf[...] = [[-3.0, 5.0]] * D
        final = self.snap([Rarr, carr, buf])
        outs = []
        for m, u, bb in zip(case['members'], used, boxes):
            mm = dict(m, D=D, R=u['R'], c=u['c'], L=u['L'])
            if bb is None:
                Rinv = f_inv(self.box_inputs(mm)[0])
                outs.append(dict(ok=False, Rinv=None if Rinv is None else [[sfr(x) for x in r] for r in Rinv]))
            else:
                outs.append(self.observe_box(mm, bb))
        unchanged = unchanged and self.snap([Rarr, carr, buf]) == final
        return dict(members=outs, used=used, args_unchanged=unchanged)

    def scripted(self, case, neg=False):
        tbl = [(ufr(b), ufr(v)) for b, v in case['tbl_neg' if neg else 'tbl']]
        dflt = ufr(case['dflt_neg' if neg else 'dflt'])

        def g(t):
            for b, v in tbl:
                if t < b:
                    return v
            return dflt
        return g

    def run_line(self, case):
        from elfi.methods.inference import romc
        g = self.scripted(case)
        th0 = fl([ufr(x) for x in case['th_star']])
        vd = fl([ufr(x) for x in case['vd']])
        k = case['k']
        probes = []

        def f(th):
            t = Fr(float(th[k] - th0[k])) / Fr(float(vd[k]))
            v = g(t)
            probes.append([sfr(t), sfr(v)])
            return float(v)
        res = romc.line_search(f, th0.copy(), vd.copy(), float(ufr(case['eps'])), case['K'], float(ufr(case['eta'])),
                               case['rep_lim'])
        return dict(res=sfr(float(res)), probes=probes, th_unchanged=bool(np.all(th0 == fl([ufr(x) for x in case['th_star']]))))

    def run_build(self, case):
        """RegionConstructor.build with a diagonal Hessian (rotation = identity up to eig's ordering/sign):
        returns one line-search observation per (dimension, side) whose search direction is +-e_d, d = case['d']"""
        from elfi.methods.inference import romc
        g = self.scripted(case)
        gneg = self.scripted(case, neg=True)
        x0 = [ufr(x) for x in case['th_star']]
        D = len(x0)
        d = case['d']
        others = ufr(case['others'])
        state = dict(cur=None)
        searches = []

        def func(th):
            # objective: one scripted profile on each side of x_min along coordinate d, others constant
            t = Fr(float(th[d])) - x0[d]
            moved = [i for i in range(D) if Fr(float(th[i])) != x0[i]]
            v = max(g(t) if t >= 0 else gneg(-t), others) if (not moved or moved == [d]) else others
            if state['cur'] is not None:
                state['cur']['probes'].append([[sfr(Fr(float(th[i])) - x0[i]) for i in range(D)], sfr(v)])
            return float(v)
        orig = romc.line_search

        def wrapped(f, th_star, vd, eps, K=10, eta=1., rep_lim=300):
            state['cur'] = dict(vd=[float(x) for x in vd], probes=[])
            res = orig(f, th_star, vd, eps, K, eta, rep_lim)
            state['cur']['res'] = float(res)
            searches.append(state['cur'])
            state['cur'] = None
            return res
        romc.line_search = wrapped
        try:
            res = romc.RomcOptimisationResult(x_min=[float(x) for x in x0], f_min=0.0,
                                              hess_appr=np.diag(case['hdiag']))
            rc = romc.RegionConstructor(res, func, D, float(ufr(case['eps'])), K=case['K'], eta=float(ufr(case['eta'])),
                                        rep_lim=case['rep_lim'])
            bbs = rc.build()
        finally:
            romc.line_search = orig
        bb = bbs[0]
        return dict(searches=searches, lims=[[float(a), float(b)] for a, b in bb.limits],
                    rot=[[float(x) for x in r] for r in bb.rotation], center=[float(x) for x in bb.center], n=len(bbs))

    def objectives(self, case):
        """d_i(theta) = scale_i * sum_k |theta_k - a_ik| ; returns (callables recording calls, exact evaluators, log)"""
        log = []
        exact = []
        funcs = []
        for i, (a, s) in enumerate(zip(case['anchors'], case['scales'])):
            a = [ufr(x) for x in a]

            def ex(th, a=a, s=s):
                return s * sum(abs(Fr(float(x)) - y) for x, y in zip(th, a))

            def fn(th, i=i, ex=ex):
                log.append(i)
                return float(ex(th))
            exact.append(ex)
            funcs.append(fn)
        return funcs, exact, log

    def make_post(self, case):
        from elfi.methods.posteriors import RomcPosterior
        regions = [self.make_bb(b) for b in case['regions']]
        funcs, exact, log = self.objectives(case)
        prior = FloatPrior(case['D'], case['prior'][0], case['prior'][1])
        D = case['D']
        post = RomcPosterior(regions, funcs, funcs, funcs, funcs, list(range(len(regions))), case['surrogate'], prior,
                             np.array([-4.0] * D), np.array([4.0] * D), eps_filter=1.0, eps_region=1.0,
                             eps_cutoff=float(ufr(case['eps'])), parallelize=False)
        return post, regions, funcs, exact, log, prior

    def post_point(self, case, regions, mode, prng, eps):
        D = case['D']
        i = prng.randrange(len(regions))
        if mode == 'centre':
            th = [ufr(x) + Fr(prng.randint(-2, 2), 16) for x in case['regions'][i]['c']]
        elif mode == 'anchor':
            th = [ufr(x) + Fr(prng.randint(-2, 2), 16) for x in case['anchors'][i]]
        elif mode == 'boundary':
            th = [Fr(x) for x in self.choose_points(case['regions'][i], regions[i], 1, prng)[0][1]]
        elif mode == 'far':
            th = [Fr(prng.randint(-100, 100), 4) for _ in range(D)]
        elif mode == 'tie':
            # a point whose distance to anchor i is exactly the cut-off (tests <=)
            a = [ufr(x) for x in case['anchors'][i]]
            th = a[:]
            th[0] = a[0] + eps / case['scales'][i]
        elif mode == 'grid':
            # a node of the grid pdf() integrates over (left_lim = -4, right_lim = 4, 30 nodes per dimension)
            g = np.linspace(-4.0, 4.0, 30)
            th = [Fr(float(g[prng.randrange(8, 22)])) for _ in range(D)]
        else:
            th = [Fr(prng.randint(-16, 16), 8) for _ in range(D)]
        return np.array([float(x) for x in th], dtype=float)

    def eval_obs(self, case, post, regions, exact, log, prior, thf, batched):
        del log[:]
        if batched:
            val = post.pdf_unnorm_batched(np.array([thf]))
            val = float(val[0])
        else:
            val = post._pdf_unnorm_single_point(thf)
        called = list(log)
        cont = [bool(rg.contains(thf)) for rg in regions]
        return dict(theta=[float(x) for x in thf], val=float(val), called=called, dists=[sfr(ex(thf)) for ex in exact],
                    prior=float(prior.value(thf)), contains=cont,
                    exact=[bool(self.exact_point(b, f_inv(self.box_inputs(b)[0]), [float(x) for x in thf], rg)
                                and self.lims_exact(b, rg))
                           for b, rg in zip(case['regions'], regions)])

    def run_post(self, case):
        post, regions, funcs, exact, log, prior = self.make_post(case)
        prng = random.Random(case['pseed'])
        thf = self.post_point(case, regions, case['mode'], prng, ufr(case['eps']))
        return self.eval_obs(case, post, regions, exact, log, prior, thf, case['batched'])

    def weight_obs(self, rg, prior, exact_i, pts, w, dist):
        return [dict(p=[float(x) for x in pts[j]], prior=float(prior.value(pts[j])), dist=float(dist[j]),
                     dist_expected=float(exact_i(pts[j])), w=float(w[j]), q=float(rg.pdf(pts[j])))
                for j in range(len(pts))]

    def run_hist(self, case):
        import contextlib, io
        post, regions, funcs, exact, log, prior = self.make_post(case)
        prng = random.Random(case['pseed'])
        evs = [ufr(e) for e in case['eps_vals']]
        pool = [self.post_point(case, regions, mode, prng, prng.choice(evs)) for mode in case['pool']]
        cur = ufr(case['eps'])
        last = {}                 # pool index -> (cut-off, model-free count) at its previous evaluation
        visible = 0
        steps = []
        bad = []

        def same(a, b):
            a, b = np.asarray(a, dtype=float), np.asarray(b, dtype=float)
            return a.shape == b.shape and bool(np.array_equal(a, b, equal_nan=True))
        for k, st in enumerate(case['steps']):
            op = st['op']
            if op == 'reset':
                cur = ufr(st['eps'])
                post.reset_eps_cutoff(float(cur))
                steps.append(dict(op='reset'))
                continue
            # the reference for this step: a posterior constructed just now with the current cut-off
            twin, tregions, tfuncs, _, _, tprior = self.make_post(dict(case, eps=sfr(cur)))
            if op == 'eval':
                thf = pool[st['pt']] if st['same_obj'] else pool[st['pt']].copy()
                o = self.eval_obs(case, post, regions, exact, log, prior, thf, st['batched'])
                tv = float(twin.pdf_unnorm_batched(np.array([thf]))[0]) if st['batched'] else float(twin._pdf_unnorm_single_point(thf))
                if not same(o['val'], tv):
                    bad.append('step %d: unnormalised density %r at %r, a posterior constructed with the current cut-off %s gives %r'
                               % (k, o['val'], o['theta'], float(cur), tv))
                cnt = sum(1 for d, c in zip(o['dists'], o['contains']) if ufr(d) <= cur and (c or not case['surrogate']))
                if st['pt'] in last and last[st['pt']][0] != cur and last[st['pt']][1] != cnt and o['prior'] > 0:
                    visible += 1
                last[st['pt']] = (cur, cnt)
                o['op'] = 'eval'
                steps.append(o)
            elif op == 'pdf':
                th = np.array([pool[i] for i in st['pts']])
                with np.errstate(all='ignore'):
                    v = post.pdf(th)
                    tv = twin.pdf(th)
                if not same(v, tv):
                    bad.append('step %d: pdf() = %r, a posterior constructed with the current cut-off %s gives %r'
                               % (k, list(np.asarray(v)), float(cur), list(np.asarray(tv))))
                steps.append(dict(op='pdf', val=[repr(float(x)) for x in np.asarray(v).reshape(-1)]))
            elif op == 'sample':
                n2 = st['n2']
                with contextlib.redirect_stdout(io.StringIO()):
                    theta, w, dist = post.sample(n2, seed=RecState(st['seed']))
                    tt, tw, td = twin.sample(n2, seed=RecState(st['seed']))
                theta, w, dist = np.asarray(theta), np.asarray(w), np.asarray(dist)
                shape_ok = (theta.shape == (len(regions), n2, case['D']) and w.shape == (len(regions), n2)
                            and dist.shape == (len(regions) * n2,))
                if not (same(theta, tt) and same(w, tw) and same(dist, td)):
                    bad.append('step %d: sample() rows / weights / distances differ from those of a posterior constructed '
                               'with the current cut-off %s (weights %r vs %r)' % (k, float(cur), w.tolist(), np.asarray(tw).tolist()))
                i = st['emit']
                obs = self.weight_obs(regions[i], prior, exact[i], theta[i], w[i], dist[i * n2:(i + 1) * n2]) if shape_ok else []
                steps.append(dict(op='sample', shape_ok=bool(shape_ok), region=i, drawn=True, obs=obs))
            elif op == 'worker':
                i, n2 = st['emit'], st['n2']
                wr = random.Random(st['pseed'])
                pts = [pf for _, pf in self.choose_points(case['regions'][i], regions[i], n2, wr)]
                if wr.random() < 0.5:
                    a = [ufr(x) for x in case['anchors'][i]]
                    a[0] = a[0] + cur / case['scales'][i]
                    pts[0] = [float(x) for x in a]
                th = np.array(pts, dtype=float)
                # as the parallel branch of sample() calls it: eps = self.eps_cutoff
                w, dist = post._worker_compute_weight((i, th, regions[i], prior, funcs[i], post.eps_cutoff, n2))
                tw, td = twin._worker_compute_weight((i, th, tregions[i], tprior, tfuncs[i], twin.eps_cutoff, n2))
                if not (same(w, tw) and same(dist, td)):
                    bad.append('step %d: _worker_compute_weight differs from a posterior constructed with the current cut-off' % k)
                steps.append(dict(op='worker', shape_ok=True, region=i, drawn=False,
                                  obs=self.weight_obs(regions[i], prior, exact[i], th, w, dist)))
        self.bump('hist/revisit-count-changes=%s' % (visible if visible < 2 else '2+'))
        return dict(steps=steps, twin_bad=bad, visible=visible, eps_attr=float(post.eps_cutoff), eps_expected=float(cur))

    def run_weight(self, case):
        post, regions, funcs, exact, log, prior = self.make_post(case)
        n2 = case['n2']
        eps = float(ufr(case['eps']))
        per = []
        if case['drawn']:
            sm = RecState(case['seed'])
            import contextlib, io
            with contextlib.redirect_stdout(io.StringIO()):      # the progress bar
                theta, w, dist = post.sample(n2, seed=sm)
            theta = np.asarray(theta)
            w = np.asarray(w)
            dist = np.asarray(dist)
            shape_ok = theta.shape == (len(regions), n2, case['D']) and w.shape == (len(regions), n2) and dist.shape == (len(regions) * n2,)
            if not shape_ok:
                return dict(shape_ok=False, per=[])
            for i, rg in enumerate(regions):
                obs = []
                for j in range(n2):
                    p = theta[i, j]
                    obs.append(dict(p=[float(x) for x in p], prior=float(prior.value(p)), dist=float(dist[i * n2 + j]),
                                    dist_expected=float(exact[i](p)), w=float(w[i, j]), q=float(rg.pdf(p))))
                per.append(obs)
            return dict(shape_ok=True, per=per)
        prng = random.Random(case['pseed'])
        for i, rg in enumerate(regions):
            pts = [pf for _, pf in self.choose_points(case['regions'][i], rg, n2, prng)]
            if prng.random() < 0.5:     # a point whose distance equals the cut-off exactly (tests the strict <)
                a = [ufr(x) for x in case['anchors'][i]]
                a[0] = a[0] + ufr(case['eps']) / case['scales'][i]
                pts[0] = [float(x) for x in a]
            th = np.array(pts, dtype=float)
            w, dist = post._worker_compute_weight((i, th, rg, prior, funcs[i], eps, n2))
            obs = []
            for j in range(n2):
                obs.append(dict(p=pts[j], prior=float(prior.value(th[j])), dist=float(dist[j]),
                                dist_expected=float(exact[i](th[j])), w=float(w[j]), q=float(rg.pdf(th[j]))))
            per.append(obs)
        return dict(shape_ok=True, per=per)

    # ---------------------------------------------------------------- python-side clauses
    def nonfinite(self, case, out):
        """non-finite numbers among the implementation's outputs (no Coq term can be written for them)"""
        k = case['kind_case']
        vals = []
        if k == 'box' and out.get('ok'):
            vals = [out['vol']] + [x for r in out['lims'] for x in r] + [p['pdf'] for p in out['pts']] + \
                   [s_['pdf'] for s_ in out['smps']] + [x for s_ in out['smps'] for x in s_['p']]
        elif k == 'post':
            vals = [out['val']]
        elif k == 'weight':
            vals = [x for obs in out['per'] for o in obs for x in (o['w'], o['q'], o['dist'])]
        elif k == 'build':
            vals = [s_['res'] for s_ in out['searches']] + [x for r in out['lims'] for x in r]
        elif k == 'fam':
            for o in out['members']:
                if o.get('ok'):
                    vals += [o['vol']] + [x for r in o['lims'] for x in r] + [p['pdf'] for p in o['pts']] + \
                            [s_['pdf'] for s_ in o['smps']] + [x for s_ in o['smps'] for x in s_['p']]
        elif k == 'hist':
            for st in out['steps']:
                if st['op'] == 'eval':
                    vals.append(st['val'])
                elif st['op'] in ('sample', 'worker'):
                    vals += [x for o in st['obs'] for x in (o['w'], o['q'], o['dist'])]
        return [v for v in vals if not math.isfinite(v)]

    def py_check(self, case, out):
        k = case['kind_case']
        bad = []
        nf = self.nonfinite(case, out)
        if nf:
            bad.append(('finite_outputs', 'non-finite value(s) %r among volume / density / weight / posterior outputs' % nf[:3]))
        if k == 'box' and out.get('ok'):
            if case['n2'] and not out.get('rvs_ok', True):
                bad.append(('sample_draws', 'sample() did not draw one uniform vector of length n2 per coordinate'))
            if case['n2'] and not out.get('shape_ok', True):
                bad.append(('sample_shape', 'sample() did not return an (n2, D) array'))
        if k in ('box', 'fam') and not out.get('args_unchanged', True):
            bad.append(('caller_arrays_unchanged', 'NDimBoundingBox (constructor / contains / pdf / sample) modified an array '
                        'object of the caller (rotation, centre or limits)'))
        if k == 'fam':
            for j, o in enumerate(out['members']):
                if o.get('ok') and case['members'][j]['n2']:
                    if not o.get('rvs_ok', True):
                        bad.append(('sample_draws', 'box %d: sample() did not draw one uniform vector of length n2 per coordinate' % j))
                    if not o.get('shape_ok', True):
                        bad.append(('sample_shape', 'box %d: sample() did not return an (n2, D) array' % j))
        if k == 'hist':
            for msg in out['twin_bad'][:1]:
                bad.append(('history_independent', 'one RomcPosterior after a history of calls and reset_eps_cutoff: ' + msg))
            if out['eps_attr'] != out['eps_expected']:
                bad.append(('reset_eps_cutoff', 'eps_cutoff is %r after reset_eps_cutoff(%r)' % (out['eps_attr'], out['eps_expected'])))
            for st in out['steps']:
                if st['op'] in ('sample', 'worker'):
                    if not st['shape_ok']:
                        bad.append(('weight_shapes', 'sample() returned arrays of unexpected shape'))
                    for o in st['obs']:
                        if o['dist'] != o['dist_expected']:
                            bad.append(('weight_distance', 'reported distance %r is not the region\'s own objective at the sample (%r)'
                                        % (o['dist'], o['dist_expected'])))
                            return bad
        if k == 'line' and not out['th_unchanged']:
            bad.append(('line_search_mutates_start', 'line_search modified the caller\'s starting point'))
        if k == 'weight':
            if not out['shape_ok']:
                bad.append(('weight_shapes', 'sample() returned arrays of unexpected shape'))
            for obs in out['per']:
                for o in obs:
                    if o['dist'] != o['dist_expected']:
                        bad.append(('weight_distance', 'reported distance %r is not the region\'s own objective at the sample (%r)'
                                    % (o['dist'], o['dist_expected'])))
                        return bad
        if k == 'build':
            if out['n'] != 1:
                bad.append(('build_one_box', 'build() returned %d boxes' % out['n']))
            D = len(case['th_star'])
            if len(out['searches']) != 2 * D:
                bad.append(('build_searches', 'build() ran %d line searches for %d dimensions' % (len(out['searches']), D)))
            else:
                # limits row j = [-(search along -column j), +(search along +column j)], centre = x_min
                rot = np.array(out['rot'])
                for j in range(D):
                    sneg = [s_ for s_ in out['searches'] if np.allclose(s_['vd'], -rot[:, j])]
                    spos = [s_ for s_ in out['searches'] if np.allclose(s_['vd'], rot[:, j])]
                    if len(sneg) != 1 or len(spos) != 1:
                        bad.append(('build_directions', 'dimension %d is not searched once along each of -/+ its rotation column' % j))
                        break
                    lo, hi = out['lims'][j]
                    # limits pass through _secure_limits: a widened row moves by 0.0005
                    if abs(lo - (-sneg[0]['res'])) > 6e-4 or abs(hi - spos[0]['res']) > 6e-4:
                        bad.append(('build_limits', 'limits row %d = %r is not [-%r, %r]' % (j, out['lims'][j], sneg[0]['res'], spos[0]['res'])))
                        break
                if [float(ufr(x)) for x in case['th_star']] != out['center']:
                    bad.append(('build_center', 'box centre is not x_min'))
        return bad

    # ---------------------------------------------------------------- Coq terms
    def to_coq(self, case, out):
        if self.nonfinite(case, out):
            return None          # reported by py_check
        return getattr(self, 'coq_' + case['kind_case'])(case, out)

    def region_term(self, b):
        R, c, L = self.box_inputs(b)
        Rinv = f_inv(R)
        return ('{| ri_rot := %s; ri_rotinv := %s; ri_center := %s; ri_lims := %s |}'
                % (cmat(R), copt(Rinv, cmat), cvec(c), clims(L)))

    def box_term(self, case, out):
        R, c, L = self.box_inputs(case)
        Rinv = None if out['Rinv'] is None else [[ufr(x) for x in r] for r in out['Rinv']]
        if not out['ok']:
            return ('{| bc_rot := %s; bc_rotinv := %s; bc_center := %s; bc_lims := %s; bc_tol := %s; bc_impl_ok := false; '
                    'bc_impl_lims := []; bc_impl_vol := 0; bc_impl_rotinv := []; bc_pts := []; bc_smps := [] |}'
                    % (cmat(R), copt(Rinv, cmat), cvec(c), clims(L), cq(TOL)))
        pts = clist(['{| po_p := %s; po_tol := %s; po_contains := %s; po_pdf := %s |}'
                     % (cvec(p['p']), cq(0 if p['exact'] else TOL), cbool(p['contains']), cq(p['pdf'])) for p in out['pts']])
        smps = clist(['{| so_u := %s; so_p := %s; so_contains := %s; so_pdf := %s |}'
                      % (cvec(s['u']), cvec(s['p']), cbool(s['contains']), cq(s['pdf'])) for s in out['smps']])
        return ('{| bc_rot := %s; bc_rotinv := %s; bc_center := %s; bc_lims := %s; bc_tol := %s; bc_impl_ok := true; '
                'bc_impl_lims := %s; bc_impl_vol := %s; bc_impl_rotinv := %s; bc_pts := %s; bc_smps := %s |}'
                % (cmat(R), copt(Rinv, cmat), cvec(c), clims(L), cq(TOL), clims(out['lims']), cq(out['vol']),
                   cmat(out['rotinv']), pts, smps))

    def coq_box(self, case, out):
        return 'CBox ' + self.box_term(case, out)

    def coq_fam(self, case, out):
        """every member with the values ITS constructor was handed and what the box reports after the whole history"""
        terms = []
        for m, u, o in zip(case['members'], out['used'], out['members']):
            if o.get('ok') and m['n2'] and not (o.get('rvs_ok', True) and o.get('shape_ok', True)):
                return None      # reported by py_check
            terms.append(self.box_term(dict(m, D=case['D'], R=u['R'], c=u['c'], L=u['L']), o))
        return 'CFam ' + clist(terms)

    def wobs_term(self, obs):
        return clist(['{| wo_p := %s; wo_prior := %s; wo_dist := %s; wo_impl_w := %s; wo_impl_q := %s |}'
                      % (cvec(o['p']), cq(o['prior']), cq(o['dist']), cq(o['w']), cq(o['q'])) for o in obs])

    def coq_hist(self, case, out):
        steps = []
        for st, o in zip(case['steps'], out['steps']):
            if st['op'] == 'reset':
                steps.append('HReset %s' % cq(ufr(st['eps'])))
            elif st['op'] == 'eval':
                steps.append('HEval {| eo_theta := %s; eo_dists := %s; eo_prior := %s; eo_tol := %s; eo_impl_val := %s; '
                             'eo_impl_called := %s |}'
                             % (cvec(o['theta']), clist([cq(ufr(x)) for x in o['dists']]), cq(o['prior']),
                                cq(0 if all(o['exact']) else TOL), cq(o['val']), clist([cnat(i) for i in o['called']])))
            elif st['op'] in ('sample', 'worker') and o['shape_ok']:
                steps.append('HWeight {| ho_region := %s; ho_drawn := %s; ho_obs := %s |}'
                             % (cnat(o['region']), cbool(o['drawn']), self.wobs_term(o['obs'])))
        regs = clist([self.region_term(b) for b in case['regions']])
        return ('CHist {| hc_regions := %s; hc_surrogate := %s; hc_eps0 := %s; hc_tol := %s; hc_steps := %s |}'
                % (regs, cbool(case['surrogate']), cq(ufr(case['eps'])), cq(TOL), clist(steps)))

    def line_term(self, case, res, probes, K=None):
        tbl = clist(['(%s, %s)' % (cq(ufr(b)), cq(ufr(v))) for b, v in case['tbl']])
        return ('CLine {| lc_tbl := %s; lc_dflt := %s; lc_eps := %s; lc_K := %s; lc_eta := %s; lc_rep_lim := %s; '
                'lc_impl_res := %s; lc_impl_probes := %s |}'
                % (tbl, cq(ufr(case['dflt'])), cq(ufr(case['eps'])), cnat(case['K']), cq(ufr(case['eta'])),
                   cnat(case['rep_lim']), cq(res), clist(['(%s, %s)' % (cq(t), cq(v)) for t, v in probes])))

    def coq_line(self, case, out):
        return self.line_term(case, ufr(out['res']), [(ufr(t), ufr(v)) for t, v in out['probes']])

    def coq_build(self, case, out):
        """one of the two searches along +-e_d (case['side']: 0 = towards smaller th_d, 1 = towards larger th_d)
        against the model run on that side's profile; the other side is covered by other cases"""
        d = case['d']
        D = len(case['th_star'])
        sel = [s for s in out['searches'] if abs(abs(s['vd'][d]) - 1.0) < 1e-12 and all(abs(s['vd'][i]) < 1e-12 for i in range(D) if i != d)]
        if len(sel) != 2:
            return None
        want = 1.0 if case['side'] else -1.0
        s = [x for x in sel if x['vd'][d] * want > 0]
        if len(s) != 1:
            return None
        s = s[0]
        sign = 1 if case['side'] else -1
        probes = [(sign * ufr(off[d]), ufr(v)) for off, v in s['probes']]
        # the objective along this line is max(profile, others) with others < eps
        oth = ufr(case['others'])
        c2 = dict(case)
        key = 'tbl' if case['side'] else 'tbl_neg'
        c2['tbl'] = [[b, sfr(max(ufr(v), oth))] for b, v in case[key]]
        c2['dflt'] = sfr(max(ufr(case['dflt' if case['side'] else 'dflt_neg']), oth))
        return self.line_term(c2, Fr(s['res']), probes)

    def coq_post(self, case, out):
        regs = clist([self.region_term(b) for b in case['regions']])
        tol = 0 if all(out['exact']) else TOL
        return ('CPost {| pc_regions := %s; pc_surrogate := %s; pc_theta := %s; pc_dists := %s; pc_eps := %s; pc_prior := %s; '
                'pc_tol := %s; pc_impl_val := %s; pc_impl_called := %s |}'
                % (regs, cbool(case['surrogate']), cvec(out['theta']), clist([cq(ufr(x)) for x in out['dists']]),
                   cq(ufr(case['eps'])), cq(out['prior']), cq(tol), cq(out['val']), clist([cnat(i) for i in out['called']])))

    def coq_weight(self, case, out):
        if not out['shape_ok']:
            return None
        terms = []
        for b, obs in zip(case['regions'], out['per']):
            ob = clist(['{| wo_p := %s; wo_prior := %s; wo_dist := %s; wo_impl_w := %s; wo_impl_q := %s |}'
                        % (cvec(o['p']), cq(o['prior']), cq(o['dist']), cq(o['w']), cq(o['q'])) for o in obs])
            terms.append('{| wc_region := %s; wc_eps := %s; wc_tol := %s; wc_drawn := %s; wc_obs := %s |}'
                         % (self.region_term(b), cq(ufr(case['eps'])), cq(TOL), cbool(case['drawn']), ob))
        return 'CWeight ' + terms[case['emit_region']]

    # ---------------------------------------------------------------- bookkeeping
    def nontrivial(self, case, out):
        k = case['kind_case']
        key = json.dumps(case, sort_keys=True, default=str)
        if k == 'box':
            if not out.get('ok') or case['kind'] == 'perm':
                return None
            if not any(p['mode'] in ('boundary', 'outside', 'justout', 'corner') for p in out['pts']):
                return None
            return key
        if k in ('line', 'build'):
            probes = out['probes'] if k == 'line' else max((s['probes'] for s in out['searches']), key=len, default=[])
            if len(probes) < 3:
                return None
            if k == 'line' and not (ufr(probes[0][1]) < ufr(case['eps'])):
                return None
            return key
        if k == 'post':
            eps = ufr(case['eps'])
            n = sum(1 for d, c in zip(out['dists'], out['contains']) if ufr(d) <= eps and (c or not case['surrogate']))
            return key if 0 < n < len(out['dists']) or (n > 0 and out['prior'] > 0) else None
        if k == 'weight':
            if not out['shape_ok']:
                return None
            ws = [o['w'] for o in out['per'][case['emit_region']]]
            return key if any(w > 0 for w in ws) else None
        if k == 'fam':
            # a limits array object with a dimension that gets widened is handed to >= 2 constructors
            for j, m in enumerate(case['members'][1:], 1):
                if m['lim_mode'] in ('same', 'overwrite') and out['members'][j - 1].get('ok') and out['members'][j].get('ok') and \
                        any(abs(ufr(b_) - ufr(a)) <= Fr(1, 900) for a, b_ in out['used'][j - 1]['L']):
                    return key
            return None
        if k == 'hist':
            # a point is evaluated again, bit-identically, under another cut-off for which the count differs
            return key if out['visible'] else None
        return None

    def classify(self, case, out, clause):
        return None


if __name__ == '__main__':
    sys.exit(run_check(C19))
