"""debug helper: python harness/dbg.py Cxx replay.json 'coq expression over c'"""
import importlib, json, sys, os
sys.path.insert(0, os.path.dirname(os.path.abspath(__file__)))
from common import *
pid, replay, expr = sys.argv[1], sys.argv[2], sys.argv[3]
setup_python_env()
os.makedirs(os.path.join(WORK, pid + '_dbg'), exist_ok=True)
os.chdir(os.path.join(WORK, pid + '_dbg'))
mod = importlib.import_module(pid.lower())
cls = getattr(mod, pid)
chk = cls(1, 'quick')
case = json.load(open(replay))['case']
out = chk.run_impl(case)
term = chk.to_coq(case, out)
rc, o = coq_eval(pid + '_dbg', chk.header, 'let c := %s in %s' % (term, expr))
print(o[-6000:])
