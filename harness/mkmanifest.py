"""Regenerate /verif/MANIFEST.json from harness/props_meta.py (run after adding a property check)."""
import json
import os
import sys

sys.path.insert(0, os.path.dirname(os.path.abspath(__file__)))
from props_meta import META, PENDING_REASON  # noqa

VERIF = os.path.dirname(os.path.dirname(os.path.abspath(__file__)))
ids = [json.loads(l)['id'] for l in open(os.path.join(VERIF, 'properties.jsonl'))]
from props_meta import COMMON_NOTE  # noqa
metadir = os.path.join(VERIF, 'harness', 'meta')
if os.path.isdir(metadir):
    for fn in sorted(os.listdir(metadir)):
        if fn.endswith('.json'):
            d = json.load(open(os.path.join(metadir, fn)))
            d['note'] = COMMON_NOTE + d.get('note', '')
            META.setdefault(fn[:-5], d)

checks = []
na = []
for pid in ids:
    m = META.get(pid)
    have = (m is not None and os.path.exists(os.path.join(VERIF, 'harness', pid.lower() + '.py'))
            and os.path.exists(os.path.join(VERIF, 'coq', 'Properties', pid + '.v')))
    if not have:
        na.append(dict(property_id=pid, reason=(m or {}).get('na_reason', PENDING_REASON)))
        continue
    checks.append(dict(
        property_id=pid,
        quick_cmd='./check %s --tier quick' % pid,
        thorough_cmd='./check %s --tier thorough' % pid,
        evidence_file='/verif/evidence/%s.json' % pid,
        replay_cmd_template='./check %s --replay {path}' % pid,
        engine='coq-model+correspondence',
        level_claimed=dict(category='proof', text=m['text'], design_ref=m.get('design_ref', 'DESIGN.md section 7, ' + pid)),
        level_note=m['note'],
        technique=m.get('technique', 'Coq 8.16 theorems over an executable Gallina model + vm_compute correspondence check against /repo'),
    ))

manifest = dict(
    version=1,
    setup_cmd='bash setup.sh',
    hooks=dict(guard='ELFI_VERIF',
               enable='no source hooks are needed: the harness drives the public/anchored entry points of /repo directly (PYTHONPATH=/repo); ELFI_VERIF is reserved and unused',
               baseline_off_cmd='cd /repo && /venv/bin/python -m pytest -ra -q -p no:cacheprovider --timeout=900 --continue-on-collection-errors',
               source_commits=[], add_only=True),
    engines=[dict(name='coq-model+correspondence', path='/verif/coq + /verif/harness',
                  serves_properties=[c['property_id'] for c in checks],
                  kind_free_text='Coq 8.16.1 development (models, proofs, property theorems) rebuilt and re-checked on every run; '
                                 'per-property Python harness runs /repo on generated cases and evaluates the model and the proved-sound '
                                 'decidable spec on the same cases inside Coq (vm_compute)')],
    checks=checks,
    notes='See DESIGN.md. KNOWN_FINDINGS.txt lists genuine defects (fixed: / finding:). Every check rebuilds the Coq targets it needs '
          'and runs the implementation from /repo\'s working tree.',
    not_applicable=na,
)
with open(os.path.join(VERIF, 'MANIFEST.json'), 'w') as f:
    json.dump(manifest, f, indent=1)
print('claimed:', [c['property_id'] for c in checks])
print('not claimed:', [n['property_id'] for n in na])
