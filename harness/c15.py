"""C15 — get_sub_seed: correspondence with coq/Num/Seed.v."""
import random
import numpy as np
from common import *


class C15(PropCheck):
    pid = 'C15'
    header = 'From Coq Require Import List NArith Bool.\nFrom Elfi Require Import Base.Harness Num.Seed.\nImport ListNotations.\n'
    case_type = 'Seed.case'
    preds = (('Seed.agree', 'agree'), ('Seed.ok', 'ok'))
    chunk = 250
    rule = ('histories of get_sub_seed(seed, idx, high, cache) sharing one dict cache (or cache=None), index patterns '
            'increasing/repeated/decreasing/jumping/out-of-range, high in {1..8,16,2**31,2**32}; non-trivial = history with '
            '>=2 served requests whose stream prefix contains a repeated value before the last needed draw (collision forced) '
            'or which re-enters the cache after a smaller index; distinct by (seed, high, reqs)')
    trusted = ('numpy: RandomState(seed).randint(high,size=a,dtype=uint32) followed by size=b continues the stream of one call of size=a+b (re-tested on every case)',)

    def generate(self):
        n = 500 if self.tier == 'quick' else 6000
        r = self.rng
        for _ in range(n):
            high = r.choice([1, 2, 3, 4, 5, 6, 7, 8, 8, 16, 2 ** 31, 2 ** 31, 2 ** 32])
            seed = r.choice([0, 1, 2, r.randrange(2 ** 32), r.randrange(1000)])
            pat = r.choice(['inc', 'rep', 'dec', 'jump', 'mixed', 'oor'])
            m = r.randint(1, 8)
            top = min(high - 1, 40) if high > 1 else 0
            if pat == 'inc':
                idxs = sorted(r.randint(0, top) for _ in range(m))
            elif pat == 'rep':
                a = r.randint(0, top)
                idxs = [a] * m
            elif pat == 'dec':
                idxs = sorted((r.randint(0, top) for _ in range(m)), reverse=True)
            elif pat == 'jump':
                idxs = [r.choice([0, top, top // 2, r.randint(0, top)]) for _ in range(m)]
            elif pat == 'mixed':
                idxs = [r.randint(0, top) for _ in range(m)]
            else:
                idxs = [r.choice([high, high + 1, r.randint(0, top), high + r.randint(0, 5)]) if high < 100
                        else r.choice([high, r.randint(0, top)]) for _ in range(m)]
            pc = r.choice([1.0, 1.0, 0.7, 0.0])
            reqs = [[i, r.random() < pc] for i in idxs]
            self.bump('pattern=' + pat)
            self.bump('high=%s' % (high if high < 100 else 'big'))
            yield dict(seed=seed, high=high, reqs=reqs)

    def run_impl(self, case):
        from elfi.utils import get_sub_seed
        cache = {}
        answers = []
        used = False
        for idx, uc in case['reqs']:
            try:
                v = get_sub_seed(case['seed'], idx, high=case['high'], cache=cache if uc else None)
                answers.append(int(v))
            except ValueError:
                answers.append(None)
            except Exception as e:  # a servable request must be served: any other exception fails the property
                answers.append('crash: %s: %s' % (type(e).__name__, e))
            used = used or uc
        seen = sorted(int(x) for x in cache.get('seen', []))
        # the stream the model is fed: long enough prefix of the same generator
        high = case['high']
        need = max([i for i, _ in case['reqs'] if i < high] + [0]) + 1
        K = 16
        while True:
            stream = [int(x) for x in np.random.RandomState(case['seed']).randint(high, size=K, dtype='uint32')]
            if len(set(stream)) >= need or K > 4000:
                break
            K *= 2
        stream = stream + [int(x) for x in np.random.RandomState(case['seed']).randint(high, size=K + 8, dtype='uint32')][K:]
        return dict(answers=answers, seen=seen, stream=stream)

    def _prepare_seed_schedule(self, case):
        """the derived seed of (batch generator, row) through elfi.model.tools.prepare_seed must not depend on what was
        prepared before: rows of several batches (different generators) interleaved, resumed, reversed"""
        from elfi.model.tools import prepare_seed
        from elfi.utils import get_sub_seed
        r = random.Random(case['seed'] * 31 + case['high'])
        gens = [np.random.RandomState(case['seed'] % 1000 + 11 * k) for k in range(r.randint(1, 3))]
        sched = [(r.randrange(len(gens)), r.randint(0, 6)) for _ in range(r.randint(2, 10))]
        for g, row in sched:
            rs = gens[g]
            master = rs.get_state()[1][0]
            _, kw = prepare_seed(random_state=rs, index_in_batch=row)
            expect = get_sub_seed(master, row)
            if int(kw['seed']) != int(expect):
                return 'prepare_seed(generator %d, row %d) gave %d after schedule %r, the uncached derivation gives %d' % (
                    g, row, int(kw['seed']), sched, int(expect))
        return None

    def py_check(self, case, out):
        bad = self._prepare_seed_schedule(case)
        if bad:
            return [('prepare_seed_history', bad)]
        for (idx, uc), a in zip(case['reqs'], out['answers']):
            if isinstance(a, str):
                return [('served_or_rejected', 'request idx=%d cache=%s neither served nor rejected: %s' % (idx, uc, a))]
        # support test of the stream assumption: chunked draws = one draw
        rs = np.random.RandomState(case['seed'])
        a = self.rng.randint(1, 5)
        chunks = list(rs.randint(case['high'], size=a, dtype='uint32')) + list(rs.randint(case['high'], size=7, dtype='uint32'))
        if [int(x) for x in chunks] != out['stream'][:a + 7]:
            return [('stream_assumption', 'chunked randint differs from a single call')]
        return []

    def nontrivial(self, case, out):
        served = [a for a in out['answers'] if isinstance(a, int)]
        if len(served) < 2:
            return None
        idxs = [i for i, _ in case['reqs']]
        collision = len(set(out['stream'][:len(out['seen']) + 1])) < len(out['stream'][:len(out['seen']) + 1]) if out['seen'] else False
        reenter = any(idxs[k] < idxs[k - 1] for k in range(1, len(idxs)))
        if not (collision or reenter):
            return None
        return json.dumps([case['seed'], case['high'], case['reqs']])

    def to_coq(self, case, out):
        if max(i for i, _ in case['reqs']) >= 4000 or any(isinstance(a, str) for a in out['answers']):
            # nat index too large for the Coq side: only the python-side check applies (rejected path)
            return None
        reqs = clist(['(%s, %s)' % (cnat(i), cbool(u)) for i, u in case['reqs']])
        return ('{| c_stream := %s; c_high := %s; c_reqs := %s; c_impl := %s; c_impl_seen := %s |}'
                % (clist([cn(x) for x in out['stream']]), cn(case['high']), reqs,
                   clist([copt(a, cn) for a in out['answers']]), clist([cn(x) for x in out['seen']])))


if __name__ == '__main__':
    sys.exit(run_check(C15))
