"""C15 — get_sub_seed: correspondence with coq/Num/Seed.v."""
import random
import numpy as np
from common import *


class C15(PropCheck):
    pid = 'C15'
    header = 'From Coq Require Import List NArith Bool.\nFrom Elfi Require Import Base.Harness Num.Seed.\nImport ListNotations.\n'
    case_type = 'Seed.case'
    preds = (('Seed.agree', 'agree'), ('Seed.ok', 'ok'))
    chunk = 150
    rule = ('histories of get_sub_seed(seed, idx, high, cache) sharing one dict cache (or cache=None), index patterns '
            'increasing/repeated/decreasing/jumping/consecutive/out-of-range over three families: (i) high in {1..8,16,2**31,2**32} '
            'with indices <= 40 (collisions forced by the tiny range), (ii) large ranges 2**10..2**32 (2**31 weighted) with the '
            'indices placed around the first three repeated draws of the master seed\'s raw stream (located with numpy; index '
            '~1e2 for 2**12 up to ~1e5 for 2**31/2**32), (iii) nearly exhausted medium ranges high in 50..6000 with the indices in '
            'the last 1..10 values below high (thousands of loop passes per call); every answer of every case is compared '
            'python-side with an independent numpy reference of the spec (value at the (idx+1)-th first appearance; theorem '
            'C15_first_appearance) and must be in range, pairwise distinct and rejected iff idx >= high; cases whose stream '
            'prefix fits a Coq literal additionally go through Seed.agree/Seed.ok, where the reference itself is checked against '
            'Seed.spec; non-trivial = history with >=2 served requests whose stream prefix contains a repeated value before the '
            'last needed draw or which re-enters the cache after a smaller index; distinct by (seed, high, reqs)')
    case_timeout = 300
    trusted = ('numpy: RandomState(seed).randint(high,size=a,dtype=uint32) followed by size=b continues the stream of one call of size=a+b (re-tested on every case)',)

    def generate(self):
        quick = self.tier == 'quick'
        small = list(self._gen_small(500 if quick else 6000))
        heavy = list(self._gen_natural(48 if quick else 500, 2 if quick else 12)) + list(self._gen_tail(40 if quick else 420))
        # the cases of the new families cost the list-based Coq model up to a second each: spread them evenly among the
        # cheap ones so that the Coq case files (150 cases each, evaluated in parallel) stay balanced
        ratio = len(small) / float(len(heavy))
        for k, h in enumerate(heavy):
            for c in small[int(k * ratio):int((k + 1) * ratio)]:
                yield c
            yield h
        for c in small[int(len(heavy) * ratio):]:
            yield c

    def _seed(self):
        r = self.rng
        return r.choice([0, 1, 2, r.randrange(2 ** 32), r.randrange(2 ** 32), r.randrange(1000), 2 ** 32 - 1 - r.randrange(16)])

    def _gen_natural(self, n, n_full):
        """(ii) large ranges: requests around the first repeated draws of the raw stream of (seed, high).  The positions are
        located with numpy only to CHOOSE indices; what the answers must be is decided by the reference / the Coq spec."""
        r = self.rng
        for k in range(n):
            high = r.choice([2 ** 12, 2 ** 16, 2 ** 16, 2 ** 20, 2 ** 24, 2 ** 31, 2 ** 31, 2 ** 31, 2 ** 31, 2 ** 32,
                             2 ** r.randint(10, 32), r.randrange(2 ** 10, 2 ** 32)])
            seed = self._seed()
            K = 300000 if high > 2 ** 24 else 60000
            raw = np.random.RandomState(seed).randint(high, size=K, dtype='uint32')
            vals, first = np.unique(raw, return_index=True)
            isfirst = np.zeros(K, dtype=bool)
            isfirst[first] = True
            dups = [int(d) for d in np.flatnonzero(~isfirst)[:3]]
            cand = {0, r.randrange(min(high, K))}
            for j, d in enumerate(dups):
                p = int(first[np.searchsorted(vals, raw[d])])      # where the repeated value was drawn first
                cand.update(range(d - j - 2, d - j + 3))
                cand.update(range(p - 2, p + 2))
            if not dups:
                cand.update(r.randrange(min(high, K)) for _ in range(4))
            cand = sorted(i for i in cand if 0 <= i < high)
            d1 = dups[0] if dups else cand[-1]
            pat = r.choice(['unc', 'unc', 'jump', 'consec', 'dec', 'mixed'])
            if k < n_full and d1 < 150000:
                pat = 'full'
            pick = r.sample(cand, min(len(cand), r.randint(2, 8)))
            if pat == 'unc':
                reqs = [[i, False] for i in pick]
            elif pat == 'jump':
                reqs = [[i, True] for i in sorted(pick)]
            elif pat == 'consec':
                a = max(d1 - r.randint(2, 6), 0)
                reqs = [[a, min(d1 + r.randint(2, 6), high), 1, True]] + [[i, False] for i in pick[:3]]
            elif pat == 'dec':
                reqs = [[i, True] for i in sorted(pick, reverse=True)]
            elif pat == 'mixed':
                reqs = [[i, r.random() < 0.5] for i in pick]
            else:
                reqs = [[0, min(d1 + 4, high), 1, True]] + [[i, r.random() < 0.5] for i in pick[:4]]
            self.bump('family=natural-collision')
            self.bump('natural.pattern=' + pat)
            self.bump('natural.high=2^%d' % (high.bit_length() - 1))
            self.bump('natural.first_collision_index~1e%d' % (len(str(d1)) - 1) if dups else 'natural.no_collision_found')
            yield dict(seed=seed, high=high, reqs=reqs)

    def _gen_tail(self, n):
        """(iii) nearly exhausted medium ranges: the last indices below high need very many passes of the loop"""
        r = self.rng
        for _ in range(n):
            high = r.choice([50, 64, 100, 128, 200, 256, 300, 1000, 1500, 2000, 3000, 4096, 6000]
                            + [int(50 * 120 ** r.random()) for _ in range(13)])
            seed = self._seed()
            w = r.randint(1, 10)
            tail = list(range(high - w, high))
            pat = r.choice(['unc', 'unc', 'consec', 'jump', 'dec', 'mixed', 'oor'])
            if pat == 'unc':
                reqs = [[i, False] for i in r.sample(tail, w)]
            elif pat == 'consec':
                reqs = [[0, high, 1, True]] + [[i, False] for i in r.sample(tail, min(3, w))]
            elif pat == 'jump':
                reqs = [[r.choice([0, 0, high // 2]), True]] + [[i, True] for i in tail[::r.randint(1, 3)]]
            elif pat == 'dec':
                reqs = [[i, True] for i in reversed(tail)] + [[tail[-1], r.random() < 0.5]]
            elif pat == 'mixed':
                idxs = tail + [r.randrange(high) for _ in range(r.randint(0, 3))]
                r.shuffle(idxs)
                reqs = [[i, r.random() < 0.6] for i in idxs]
            else:
                idxs = tail[-2:] + [high, high + 1, high + r.randint(0, 5)]
                r.shuffle(idxs)
                reqs = [[i, r.random() < 0.5] for i in idxs]
            self.bump('family=nearly-exhausted')
            self.bump('tail.pattern=' + pat)
            self.bump('tail.high~%s' % ('<=300' if high <= 300 else '<=1500' if high <= 1500 else '<=6000'))
            self.bump('tail.width=%d' % w)
            yield dict(seed=seed, high=high, reqs=reqs)

    def _gen_small(self, n):
        r = self.rng
        for _ in range(n):
            high = r.choice([1, 2, 3, 4, 5, 6, 7, 8, 8, 16, 2 ** 31, 2 ** 31, 2 ** 32])
            seed = r.choice([0, 1, 2, r.randrange(2 ** 32), r.randrange(1000)])
            pat = r.choice(['inc', 'rep', 'dec', 'jump', 'mixed', 'oor'])
            m = r.randint(1, 8)
            top = min(high - 1, 40) if high > 1 else 0
            if pat == 'inc':
                idxs = sorted(r.randint(0, top) for _ in range(m))
            elif pat == 'rep':
                a = r.randint(0, top)
                idxs = [a] * m
            elif pat == 'dec':
                idxs = sorted((r.randint(0, top) for _ in range(m)), reverse=True)
            elif pat == 'jump':
                idxs = [r.choice([0, top, top // 2, r.randint(0, top)]) for _ in range(m)]
            elif pat == 'mixed':
                idxs = [r.randint(0, top) for _ in range(m)]
            else:
                idxs = [r.choice([high, high + 1, r.randint(0, top), high + r.randint(0, 5)]) if high < 100
                        else r.choice([high, r.randint(0, top)]) for _ in range(m)]
            pc = r.choice([1.0, 1.0, 0.7, 0.0])
            reqs = [[i, r.random() < pc] for i in idxs]
            self.bump('family=tiny-range-or-small-index')
            self.bump('pattern=' + pat)
            self.bump('high=%s' % (high if high < 100 else 'big'))
            yield dict(seed=seed, high=high, reqs=reqs)

    @staticmethod
    def _reqs(case):
        """a request is [idx, use_cache]; [a, b, step, use_cache] abbreviates the consecutive requests range(a, b, step)"""
        out = []
        for e in case['reqs']:
            if len(e) == 2:
                out.append((int(e[0]), bool(e[1])))
            else:
                out.extend((i, bool(e[3])) for i in range(int(e[0]), int(e[1]), int(e[2])))
        return out

    REF_CAP = 1 << 23

    @classmethod
    def _reference(cls, seed, high, need):
        """independent statement of the spec with numpy: raw stream prefix and the sorted raw positions of the first
        appearances in it (the sub seed of index i is raw[pos[i]], theorem C15_first_appearance); at least `need` of them
        unless the cap is hit"""
        K = max(64, 2 * need)
        while True:
            raw = np.random.RandomState(seed).randint(high, size=K, dtype='uint32')
            _, first = np.unique(raw, return_index=True)
            if len(first) >= need or K >= cls.REF_CAP:
                break
            K *= 2
        return raw, np.sort(first)

    def run_impl(self, case):
        from elfi.utils import get_sub_seed
        cache = {}
        answers = []
        used = False
        reqs = self._reqs(case)
        for idx, uc in reqs:
            try:
                v = get_sub_seed(case['seed'], idx, high=case['high'], cache=cache if uc else None)
                answers.append(int(v))
            except ValueError:
                answers.append(None)
            except Exception as e:  # a servable request must be served: any other exception fails the property
                answers.append('crash: %s: %s' % (type(e).__name__, e))
            used = used or uc
        high = case['high']
        need = max([i for i, _ in reqs if i < high] + [0]) + 1
        raw, pos = self._reference(case['seed'], high, need)
        ref = [None if i >= high else (int(raw[pos[i]]) if i < len(pos) else 'unavailable') for i, _ in reqs]
        # L: length of the shortest stream prefix holding `need` distinct values (the real loop never draws beyond it)
        L = int(pos[need - 1]) + 1 if need <= len(pos) else len(raw)
        # does the case fit a Coq literal and the list-based model's running time?  (else the python-side clauses decide)
        coq = (need <= 3500 and L + 8 <= 5000 and len(reqs) <= 400 and len(reqs) * L * min(need, L) <= 15 * 10 ** 6
               and 'unavailable' not in ref)
        # the stream the model is fed: the prefix of the same generator that is needed, plus a few more draws
        stream = [int(x) for x in np.random.RandomState(case['seed']).randint(high, size=max(L + 8, 24) if coq else 24,
                                                                               dtype='uint32')]
        seen_n = len(cache.get('seen', []))
        seen = sorted(int(x) for x in cache.get('seen', [])) if coq else []
        return dict(answers=answers, ref=ref, seen=seen, seen_n=seen_n, stream=stream, need=need, prefix_len=L, coq=coq)

    def _prepare_seed_schedule(self, case):
        """the derived seed of (batch generator, row) through elfi.model.tools.prepare_seed must not depend on what was
        prepared before: rows of several batches (different generators) interleaved, resumed, reversed"""
        from elfi.model.tools import prepare_seed
        from elfi.utils import get_sub_seed
        r = random.Random(case['seed'] * 31 + case['high'])
        gens = [np.random.RandomState(case['seed'] % 1000 + 11 * k) for k in range(r.randint(1, 3))]
        sched = [(r.randrange(len(gens)), r.randint(0, 6)) for _ in range(r.randint(2, 10))]
        for g, row in sched:
            rs = gens[g]
            master = rs.get_state()[1][0]
            _, kw = prepare_seed(random_state=rs, index_in_batch=row)
            expect = get_sub_seed(master, row)
            if int(kw['seed']) != int(expect):
                return 'prepare_seed(generator %d, row %d) gave %d after schedule %r, the uncached derivation gives %d' % (
                    g, row, int(kw['seed']), sched, int(expect))
        return None

    def _prepare_seed_large(self, case, out, reqs):
        """elfi.model.tools.prepare_seed derives the seed of row i of a batch without a cache and with the default range:
        for the rows of this case (large ones included) it must hand out the reference value"""
        if case['high'] != 2 ** 31:
            return None
        from elfi.model.tools import prepare_seed
        done = set()
        for (idx, _), w in zip(reqs[-6:], out['ref'][-6:]):
            if idx >= case['high'] or idx in done or not isinstance(w, int):
                continue
            done.add(idx)
            rs = np.random.RandomState(case['seed'])
            if int(rs.get_state()[1][0]) != case['seed']:
                return None
            _, kw = prepare_seed(random_state=rs, index_in_batch=idx)
            if int(kw['seed']) != w:
                return ('prepare_seed(RandomState(%d), index_in_batch=%d) gave %d, the value of the stream at its %d-th first '
                        'appearance is %d' % (case['seed'], idx, int(kw['seed']), idx + 1, w))
        return None

    def py_check(self, case, out):
        bad = self._prepare_seed_schedule(case)
        if bad:
            return [('prepare_seed_history', bad)]
        reqs = self._reqs(case)
        high = case['high']
        for (idx, uc), a in zip(reqs, out['answers']):
            if isinstance(a, str):
                return [('served_or_rejected', 'request idx=%d cache=%s neither served nor rejected: %s' % (idx, uc, a))]
        # the property on every case, large indices and ranges included, against the numpy reference of the spec
        first_of = {}
        for k, ((idx, uc), a, w) in enumerate(zip(reqs, out['answers'], out['ref'])):
            how = 'request #%d idx=%d cache=%s (seed=%d high=%d)' % (k, idx, uc, case['seed'], high)
            if idx >= high:
                if a is not None:
                    return [('rejected_iff_out_of_range', '%s: an index that cannot be served was answered with %r' % (how, a))]
                continue
            if a is None:
                return [('rejected_iff_out_of_range', '%s: a servable index was rejected' % how)]
            if not 0 <= a < high:
                return [('in_range', '%s: answer %d outside [0, high)' % (how, a))]
            if w == 'unavailable':
                self.notes.append('reference unavailable for %s' % how)
            elif a != w:
                return [('depends_only_on_seed_and_index', '%s: answer %d, but the value of the stream at its %d-th first '
                         'appearance is %d (raw stream prefix of %d draws)' % (how, a, idx + 1, w, out['prefix_len']))]
            if first_of.setdefault(a, idx) != idx:
                return [('distinct', '%s: indices %d and %d both received %d' % (how, first_of[a], idx, a))]
        bad = self._prepare_seed_large(case, out, reqs)
        if bad:
            return [('prepare_seed_large_row', bad)]
        # support test of the stream assumption: chunked draws = one draw
        rs = np.random.RandomState(case['seed'])
        a = self.rng.randint(1, 5)
        chunks = list(rs.randint(case['high'], size=a, dtype='uint32')) + list(rs.randint(case['high'], size=7, dtype='uint32'))
        if [int(x) for x in chunks] != out['stream'][:a + 7]:
            return [('stream_assumption', 'chunked randint differs from a single call')]
        # the same for a split deep inside the prefix the reference was computed from (one call of the whole size)
        b = min(out['prefix_len'], 200000)
        rs = np.random.RandomState(case['seed'])
        two = np.concatenate([rs.randint(case['high'], size=b, dtype='uint32'), rs.randint(case['high'], size=7, dtype='uint32')])
        one = np.random.RandomState(case['seed']).randint(case['high'], size=b + 7, dtype='uint32')
        if not np.array_equal(one, two):
            return [('stream_assumption', 'randint in chunks of %d and 7 differs from a single call of %d' % (b, b + 7))]
        return []

    def nontrivial(self, case, out):
        served = [a for a in out['answers'] if isinstance(a, int)]
        if len(served) < 2:
            return None
        idxs = [i for i, _ in self._reqs(case)]
        collision = out['prefix_len'] > out['need']      # a repeated value before the last needed draw
        reenter = any(idxs[k] < idxs[k - 1] for k in range(1, len(idxs)))
        if not (collision or reenter):
            return None
        return json.dumps([case['seed'], case['high'], case['reqs']])

    def to_coq(self, case, out):
        rq = self._reqs(case)
        if max(i for i, _ in rq) >= 4000 or not out['coq'] or any(isinstance(a, str) for a in out['answers']):
            # nat index / stream prefix too large for the Coq side: the python-side clauses (reference) decide
            self.bump('coq_side=no')
            return None
        self.bump('coq_side=yes')
        reqs = clist(['(%s, %s)' % (cnat(i), cbool(u)) for i, u in rq])
        return ('{| c_stream := %s; c_high := %s; c_reqs := %s; c_impl := %s; c_impl_seen := %s; c_ref := %s |}'
                % (clist([cn(x) for x in out['stream']]), cn(case['high']), reqs,
                   clist([copt(a, cn) for a in out['answers']]), clist([cn(x) for x in out['seen']]),
                   clist([copt(a, cn) for a in out['ref']])))


if __name__ == '__main__':
    sys.exit(run_check(C15))
