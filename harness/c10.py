"""C10 — BOLFI posterior = its definition; cached-RBF fast path = the GP (in every sampling phase); update keeps evidence.

Ties (DESIGN.md 4): (1) translator harness/translate_c10.py regenerates coq/Gen/C10_Gradient.v from the
source text on every run, the `is_derive` theorem of Proofs/C10_Deriv.v is re-checked against it;
(2) correspondence of the hand-written model coq/Num/Gp.v (and of the generated Q twin, Num/GpGen.v)
with the real BolfiPosterior / GPyRegression on real, optimised GPy models.
"""
import math

import numpy as np
from common import *
import translate_c10

H_FD = 1e-4
TOL_FAST = 1e-8
TOL_FD = 2e-5


# ----------------------------------------------------------------------------------------------
# environment shim (numpy 2): float(<1-element paramz.Param>) used by _cache_RBF_kernel
# ----------------------------------------------------------------------------------------------

def _shim_param_float():
    from paramz import Param

    def _float(self):
        if self.size != 1:
            raise TypeError('only length-1 arrays can be converted to Python scalars')
        return float(np.asarray(self).reshape(-1)[0])
    if getattr(Param, '_c10_shim', False) is False:
        Param.__float__ = _float
        Param._c10_shim = True


# ----------------------------------------------------------------------------------------------
# priors handed to BolfiPosterior (same shape convention as elfi ModelPrior)
# ----------------------------------------------------------------------------------------------

class _Prior:
    def __init__(self, dim):
        self.dim = dim

    def _rows(self, x):
        x = np.asanyarray(x, dtype=float)
        return x.ndim, x.reshape((-1, self.dim))

    def _shape(self, ndim, val):
        if ndim == 0 or (ndim == 1 and self.dim > 1):
            return val[0]
        return val

    def logpdf(self, x):
        ndim, r = self._rows(x)
        return self._shape(ndim, self._logpdf(r))

    def gradient_logpdf(self, x):
        ndim, r = self._rows(x)
        return self._shape(ndim, self._grad(r))


class FlatPrior(_Prior):
    def _logpdf(self, r):
        return np.zeros(len(r))

    def _grad(self, r):
        return np.zeros_like(r)

    def rvs(self, size=None, random_state=None):
        raise NotImplementedError


class NormalPrior(_Prior):
    def __init__(self, dim, loc, scale):
        super().__init__(dim)
        self.loc = np.asarray(loc, dtype=float)
        self.scale = np.asarray(scale, dtype=float)

    def _logpdf(self, r):
        z = (r - self.loc) / self.scale
        return np.sum(-0.5 * z ** 2 - np.log(self.scale) - 0.5 * math.log(2 * math.pi), axis=1)

    def _grad(self, r):
        return -(r - self.loc) / self.scale ** 2

    def rvs(self, size=None, random_state=None):
        rs = random_state or np.random
        out = self.loc + self.scale * rs.randn(size or 1, self.dim)
        if self.dim == 1:
            out = out.reshape(size or 1)
        return out[0] if size is None else out


class BoxPrior(_Prior):
    """uniform on a box that may be smaller/larger than the surrogate bounds: -inf outside it"""

    def __init__(self, dim, box):
        super().__init__(dim)
        self.box = np.asarray(box, dtype=float)

    def _logpdf(self, r):
        inside = np.all((r >= self.box[:, 0]) & (r <= self.box[:, 1]), axis=1)
        val = np.full(len(r), -np.sum(np.log(self.box[:, 1] - self.box[:, 0])))
        val[~inside] = -np.inf
        return val

    def _grad(self, r):
        return np.zeros_like(r)

    def rvs(self, size=None, random_state=None):
        rs = random_state or np.random
        out = self.box[:, 0] + (self.box[:, 1] - self.box[:, 0]) * rs.rand(size or 1, self.dim)
        if self.dim == 1:
            out = out.reshape(size or 1)
        return out[0] if size is None else out


def make_prior(spec, dim, names):
    kind = spec['kind']
    if kind == 'flat':
        return FlatPrior(dim)
    if kind == 'normal':
        return NormalPrior(dim, spec['loc'], spec['scale'])
    if kind == 'box':
        return BoxPrior(dim, spec['box'])
    if kind == 'modelprior':   # the object BOLFI.extract_posterior really builds
        import elfi
        from elfi.model.extensions import ModelPrior
        m = elfi.ElfiModel()
        for n, (a, w) in zip(names, spec['uniform']):
            elfi.Prior('uniform', a, w, model=m, name=n)
        return ModelPrior(m, parameter_names=list(names))
    raise ValueError(kind)


# ----------------------------------------------------------------------------------------------
# float encodings
# ----------------------------------------------------------------------------------------------

def enc(f):
    f = float(f)
    if math.isfinite(f):
        return f
    if f == -math.inf:
        return 'ninf'
    return 'other'


def c_obs(v):
    if v == 'ninf':
        return 'ONegInf'
    if v == 'other':
        return 'OOther'
    return '(OFin %s)' % cq(v)


def c_ext(v):
    if v == 'ninf':
        return 'NegInf'
    if v == 'other':
        raise ValueError('non-finite oracle value')
    return '(Fin %s)' % cq(v)


def c_optq(v):
    return 'None' if isinstance(v, str) else '(Some %s)' % cq(v)


def c_shaped(s, f):
    if s[0] == 'scalar':
        return '(Scalar %s)' % f(s[1])
    return '(Vec %s)' % clist([f(v) for v in s[1]])


def close(a, b, tol):
    a = np.asarray(a, dtype=float)
    b = np.asarray(b, dtype=float)
    if a.shape != b.shape:
        return False
    return bool(np.all(np.abs(a - b) <= tol * (1.0 + np.abs(b))))


# ----------------------------------------------------------------------------------------------

class C10(PropCheck):
    pid = 'C10'
    HEADER_BASE = 'From Coq Require Import String.\nFrom Coq Require Import List QArith Bool.\nFrom Elfi Require Import Base.Harness Num.Gp.\nImport ListNotations.\n'
    HEADER_GEN = 'From Coq Require Import String.\nFrom Coq Require Import List QArith Bool.\nFrom Elfi Require Import Base.Harness Num.Gp Num.GpGen.\nImport ListNotations.\n'
    header = HEADER_BASE
    case_type = 'Gp.case'
    preds = (('Gp.agree', 'agree'), ('Gp.ok', 'ok'))
    chunk = 40
    rule = ('real GPyRegression models (dims 1-3, 4-9 evidence rows added by 1-4 update calls, GPy-optimised hyper-parameters), '
            'BolfiPosterior with explicit / minimised thresholds and flat, normal, box and real ModelPrior priors; queries shaped '
            'scalar / 1-D / 2-D with rows inside, outside, exactly on a bound, on a corner and one ulp outside; non-trivial = '
            'posterior query with at least one row inside the bounds (formula + oracle tie + finite differences exercised) or on a bound, '
            'evidence trace with >= 2 updates, fast-path comparison at >= 3 points, or multi-phase case (sampling phase -> leave -> '
            'standalone optimize() / direct edit of lengthscale, variance, bias or noise on the GPy model / update(optimize=True|False) '
            '-> sampling phase again, after optimize()/update() mostly WITHOUT any non-sampling query in between, 1-3 such re-entries, fast predict, '
            'predictive_gradients and posterior compared with GPy in EVERY phase) '
            'in which at least one re-entry WITHOUT new evidence really changed the hyper-parameters; every recipe also gets two '
            'posterior queries with a caller-supplied boundary threshold (0, 0.0, -0.0, negative, tiny positive incl. 5e-324, in rotation) '
            'whose density and gradient are compared with the formula evaluated from the SUPPLIED value; every surrogate is built from a bounds DICT keyed by '
            'parameter name (names drawn from a pool, not in alphabetical order) whose keys are, for 2-3 parameters, mostly written in another order than '
            'parameter_names, with intervals that are mostly pairwise disjoint or share one end point; the Coq case carries (parameter_names, dict in insertion '
            'order, surrogate.bounds read back): the model tests against box_of names dict, the spec (ok) judges every row against the interval the dict binds '
            'to the NAME of each coordinate; extra rows "other": inside the box obtained by handing the intervals out in another order (key order read '
            'positionally / its inverse / random), outside the by-name box; distinct by (model recipe, query / steps)')
    trusted = ('translator harness/translate_c10.py (Python ast -> Gallina, fail-closed) and the reading "numpy element-wise op on one row/coordinate = scalar op on reals"',
               'GPy (posterior algebra, optimiser), scipy.stats.norm pdf/cdf/logcdf and numpy sqrt are oracles: their values at the occurring arguments are recorded per case and checked for mutual consistency inside Coq (Gp.oracle_ok)',
               'harness shim paramz.Param.__float__ for 1-element parameters (numpy 2 refuses float(array of shape (1,)) in _cache_RBF_kernel); numpy 1.x behaviour restored, no repo change',
               'finite-difference clause: Richardson-extrapolated central differences, h=1e-4, tolerance 2e-5 relative; fast-path clause: 1e-8 relative',
               'multi-phase clause: after optimize() / update() through GPyRegression\'s own API the sampling phase is re-entered straight away in 3 of 4 steps '
               '(no non-sampling predict() in between; stale values or a raised exception are violations); after a direct edit of a parameter on the inner GPy '
               'object (outside the class\'s API) the harness first queries the surrogate once with is_sampling off, and a re-entry without that query is '
               'observed, not asserted (histogram keys observed:inner_gpy_edit_then_reentry_before_any_nonsampling_predict:*)')

    def __init__(self, seed, tier):
        super().__init__(seed, tier)
        self._gps = {}
        self._gen_state = None
        self.translator_error = None

    # ---- translator ---------------------------------------------------------------------------
    def gen_translated(self):
        try:
            translate_c10.generate(REPO, COQ)
        except Exception as e:
            self.translator_error = str(e)
            raise

    def _ensure_gen(self):
        """Build Num/GpGen.vo (depends on the generated file); fall back to the hand model alone."""
        if self._gen_state is None:
            ok = False
            if os.path.exists(os.path.join(COQ, 'Gen', 'C10_Gradient.v')):
                rc, out = coq_build(['Num/GpGen.vo', 'Num/Gp.vo', 'Base/Harness.vo'], timeout=600)
                ok = rc == 0
                if not ok:
                    self.notes.append('Num/GpGen.vo did not build: ' + out[-400:])
            else:
                coq_build(['Num/Gp.vo', 'Base/Harness.vo'], timeout=600)
            self._gen_state = ok
            if ok:
                self.header = self.HEADER_GEN
                self.preds = (('Gp.agree', 'agree'), ('Gp.ok', 'ok'), ('GpGen.agree_gen', 'agree'))
            else:
                self.header = self.HEADER_BASE
                self.preds = (('Gp.agree', 'agree'), ('Gp.ok', 'ok'))
                self.notes.append('generated definitions unavailable: correspondence ran against the hand-written model only')
        return self._gen_state

    # ---- generator ----------------------------------------------------------------------------
    def _recipe(self):
        r = self.rng
        d = r.choice([1, 1, 2, 2, 3])
        bounds = []
        for _ in range(d):
            lo = r.choice([0.0, -1.0, -2.5, 0.5, round(r.uniform(-3, 1), 2), float(r.randint(-4, 2))])
            w = r.choice([1.0, 2.0, 3.5, round(r.uniform(0.5, 5), 2), float(r.randint(1, 6))])
            bounds.append([lo, lo + w])
        # the bounds are given per parameter NAME, as a dict: parameter names in an order that is neither the
        # alphabetical one nor (for d >= 2, mostly) the order in which the keys of the dict are written
        names = r.sample(self.NAME_POOL, d)
        dict_order = list(range(d))
        layout = 'as_drawn'
        if d >= 2:
            if r.random() < 0.75:
                while dict_order == list(range(d)):
                    r.shuffle(dict_order)
            layout = r.choice(['as_drawn', 'disjoint', 'disjoint', 'touching'])
            if layout != 'as_drawn':    # clearly different intervals per parameter: pairwise disjoint / sharing one end point
                seq = list(range(d))
                r.shuffle(seq)
                cur = bounds[seq[0]][1]
                for j in seq[1:]:
                    w = bounds[j][1] - bounds[j][0]
                    lo = cur + (0.0 if layout == 'touching' else r.choice([0.5, 1.0, 2.0]))
                    bounds[j] = [lo, lo + w]
                    cur = lo + w
        nb = r.choice([1, 2, 2, 3, 4])
        sizes = [r.randint(3, 5)] + [r.randint(1, 3) for _ in range(nb - 1)]
        centre = [r.uniform(lo, hi) for lo, hi in bounds]
        curv = [r.uniform(0.3, 2.0) for _ in range(d)]
        noise = r.choice([0.0, 0.05, 0.2])
        off = r.choice([0.0, 0.5, 2.0, -1.0])   # -1: discrepancies (log scale) on both sides of 0
        batches = []
        for k, sz in enumerate(sizes):
            X = [[r.uniform(lo, hi) for lo, hi in bounds] for _ in range(sz)]
            Y = [off + sum(c * (x - m) ** 2 for c, x, m in zip(curv, row, centre)) + noise * r.gauss(0, 1) for row in X]
            batches.append(dict(X=X, Y=Y, optimize=(k == len(sizes) - 1) or r.random() < 0.4))
        if r.random() < 0.12:
            batches[-1]['optimize'] = False   # hyper-parameters left at the heuristics / carried over
        return dict(dim=d, bounds=bounds, names=names, dict_order=dict_order, layout=layout,
                    batches=batches, max_opt_iters=r.choice([5, 15, 30]),
                    optimizer=r.choice(['scg', 'scg', 'lbfgsb']),
                    target=dict(centre=centre, curv=curv, noise=noise, off=off))

    NAME_POOL = ('theta', 'mu', 'sigma', 'a', 'b', 'c', 'x1', 'x2', 't1', 't2', 'alpha', 'beta', 'p0', 'p1', 'p2', 'k', 'Z', 'rate')

    @staticmethod
    def _names(rec):
        return list(rec.get('names') or ['p%d' % i for i in range(rec['dim'])])

    @staticmethod
    def _dict_order(rec):
        """key order of the bounds dict: the k-th key written is the name of parameter dict_order[k]"""
        return list(rec.get('dict_order') or range(rec['dim']))

    @classmethod
    def _bounds_dict(cls, rec):
        names = cls._names(rec)
        return {names[j]: tuple(rec['bounds'][j]) for j in cls._dict_order(rec)}

    def _other_orders(self, rec):
        """assignments of the user's intervals to the coordinates OTHER than the one by name (the dict's key order
        read positionally, its inverse, a random one)"""
        d = rec['dim']
        if d < 2:
            return []
        o = self._dict_order(rec)
        inv = [o.index(i) for i in range(d)]
        rnd = list(range(d))
        self.rng.shuffle(rnd)
        return [p for p in (o, o, inv, rnd) if p != list(range(d))]

    BOUNDARY_THRESHOLDS = ('int0', 'float0', 'negzero', 'neg', 'tiny')
    PHASE_OPS = ('optimize', 'lengthscale', 'variance', 'noise', 'bias', 'update_opt', 'optimize', 'update')

    def _boundary_threshold(self, cls, ys):
        """caller-supplied thresholds on the boundary of `truthiness`: 0 (int), 0.0, -0.0, negative, tiny positive"""
        r = self.rng
        if cls == 'int0':
            return 0
        if cls == 'float0':
            return 0.0
        if cls == 'negzero':
            return -0.0
        if cls == 'neg':
            return r.choice([-1e-3, -0.25, -1.0, -3.0, -round(r.uniform(0.01, 2.0), 3), min(ys) - abs(min(ys)) - 0.5])
        return r.choice([5e-324, 1e-300, 2.2250738585072014e-308, 1e-30, 2.220446049250313e-16, 1e-9])

    def _phase_case(self, rec, idx):
        """sampling phase -> leave -> change of the hyper-parameters (mostly WITHOUT new evidence) -> sampling phase ..."""
        r = self.rng
        rec = json.loads(json.dumps(rec))
        cold = r.random() < 0.5
        if cold:      # hyper-parameters still at the heuristics in the first phase: optimize() certainly moves them
            for b in rec['batches']:
                b['optimize'] = False
        tg = rec['target']
        steps = []
        for k in range(r.choice([1, 2, 2, 3])):
            op = self.PHASE_OPS[idx % len(self.PHASE_OPS)] if k == 0 else r.choice(self.PHASE_OPS)
            if op in ('update', 'update_opt'):
                X = [[r.uniform(lo, hi) for lo, hi in rec['bounds']] for _ in range(r.randint(1, 2))]
                Y = [tg['off'] + sum(c * (x - m) ** 2 for c, x, m in zip(tg['curv'], row, tg['centre'])) + tg['noise'] * r.gauss(0, 1) for row in X]
                steps.append(dict(op='update', X=X, Y=Y, optimize=(op == 'update_opt'), query_between=r.random() < 0.25))
            elif op == 'optimize':
                steps.append(dict(op='optimize', query_between=r.random() < 0.25))
            else:   # poking the inner GPy object is outside GPyRegression's API: a non-sampling query always follows
                steps.append(dict(op='set', param=op, factor=r.choice([0.3, 0.5, 0.8, 1.5, 2.5, round(r.uniform(0.2, 4.0), 3)]), query_between=True))
        ys = [y for b in rec['batches'] for y in b['Y']]
        tk = r.choice(['v', 'v', 'q'] + list(self.BOUNDARY_THRESHOLDS))
        if tk == 'v':
            thr = r.uniform(min(ys) - 0.5, sorted(ys)[len(ys) // 2] + 0.3)
        elif tk == 'q':
            thr = sorted(ys)[len(ys) // 4]
        else:
            thr = self._boundary_threshold(tk, ys)
        pts = [self._point(rec['bounds'], r.choice(['in', 'in', 'in', 'on', 'out'] + (['other'] if rec['dim'] > 1 else [])), self._other_orders(rec))
               for _ in range(r.choice([2, 3, 4]))]
        pts[0] = self._point(rec['bounds'], 'in')
        pr = self._prior_spec(rec)
        for st in steps:
            self.bump('phase_step=' + (st['op'] if st['op'] != 'set' else 'set_' + st['param']) + ('_optimize' if st.get('optimize') else '')
                      + ('' if st['query_between'] else ':no_nonsampling_query_before_reentry'))
        self.bump('phase_first_phase=' + ('heuristic_hyperparameters' if cold else 'as_fitted'))
        return dict(kind='phase', recipe=rec, steps=steps, points=pts, threshold=thr, prior=pr)

    def _point(self, bounds, kind, orders=None):
        r = self.rng
        if kind == 'other':
            # inside the box obtained by handing the user's intervals to the coordinates in ANOTHER order, outside the
            # box by parameter name (falls back to 'out' when there is no such point)
            kind = 'out'
            if orders:
                perm = r.choice(orders)
                cand = [j for j in range(len(bounds)) if bounds[perm[j]][0] < bounds[j][0] or bounds[perm[j]][1] > bounds[j][1]]
                if cand:
                    x = [r.uniform(bounds[perm[i]][0] + 0.02 * (bounds[perm[i]][1] - bounds[perm[i]][0]),
                                   bounds[perm[i]][1] - 0.02 * (bounds[perm[i]][1] - bounds[perm[i]][0])) for i in range(len(bounds))]
                    j = r.choice(cand)
                    (lo, hi), (plo, phi) = bounds[j], bounds[perm[j]]
                    pieces = ([(plo, min(phi, lo))] if plo < lo else []) + ([(max(plo, hi), phi)] if phi > hi else [])
                    a, b = r.choice(pieces)
                    x[j] = r.uniform(a, b)
                    if not lo <= x[j] <= hi:
                        return x
        x = [r.uniform(lo + 0.02 * (hi - lo), hi - 0.02 * (hi - lo)) for lo, hi in bounds]
        j = r.randrange(len(bounds))
        lo, hi = bounds[j]
        if kind == 'out':
            x[j] = r.choice([lo - r.uniform(1e-6, 2.0), hi + r.uniform(1e-6, 2.0)])
        elif kind == 'on':
            x[j] = r.choice([lo, hi])
        elif kind == 'corner':
            x = [r.choice([lo_, hi_]) for lo_, hi_ in bounds]
        elif kind == 'ulp':
            x[j] = r.choice([float(np.nextafter(lo, -np.inf)), float(np.nextafter(hi, np.inf))])
        return x

    @staticmethod
    def _inside(p, bounds):
        return all(lo <= v <= hi for v, (lo, hi) in zip(p, bounds))

    def _query(self, rec):
        r = self.rng
        d = rec['dim']
        shape = r.choice(['scalar', '1d', '2d', '2d']) if d == 1 else r.choice(['1d', '1d', '2d', '2d'])
        if shape == 'scalar' or (shape == '1d' and d > 1):
            m = 1
        else:
            m = r.choice([1, 2, 3, 4])
        kinds = [r.choice(['in', 'in', 'in', 'out', 'on', 'on', 'corner', 'ulp'] + (['other', 'other'] if d > 1 else [])) for _ in range(m)]
        orders = self._other_orders(rec)
        pts = [self._point(rec['bounds'], k, orders) for k in kinds]
        return dict(shape=shape, points=pts, kinds=kinds)

    def _prior_spec(self, rec):
        r = self.rng
        d = rec['dim']
        k = r.choice(['flat', 'flat', 'normal', 'normal', 'box', 'modelprior'])
        if k == 'normal':
            return dict(kind=k, loc=[r.uniform(lo, hi) for lo, hi in rec['bounds']], scale=[r.uniform(0.5, 3) for _ in range(d)])
        if k == 'box':   # sometimes narrower than the surrogate bounds on one side
            return dict(kind=k, box=[[lo - r.choice([0.0, 0.5, -0.1 * (hi - lo)]), hi + r.choice([0.0, 0.5])] for lo, hi in rec['bounds']])
        if k == 'modelprior':
            return dict(kind=k, uniform=[[lo, hi - lo] for lo, hi in rec['bounds']])
        return dict(kind=k)

    def generate(self):
        self._ensure_gen()
        n_rec = 60 if self.tier == 'quick' else 700
        if getattr(self, '_search_mode', False):
            n_rec = 12 if self.tier == 'quick' else 60
        r = self.rng
        for i_rec in range(n_rec):
            rec = self._recipe()
            self.bump('dim=%d' % rec['dim'])
            self.bump('updates=%d' % len(rec['batches']))
            if rec['dim'] > 1:
                self.bump('bounds_dict_key_order=' + ('parameter_names order' if rec['dict_order'] == list(range(rec['dim'])) else 'permuted'))
                self.bump('intervals=' + rec['layout'])
            yield dict(kind='ev', recipe=rec)
            npts = r.choice([3, 5, 8])
            pts = [self._point(rec['bounds'], r.choice(['in', 'in', 'out', 'on'])) for _ in range(npts)]
            yield dict(kind='fast', recipe=rec, points=pts)
            self.bump('fast_points', npts)
            yield self._phase_case(rec, i_rec)
            n_q = 4 if self.tier == 'quick' else 6
            for i_q in range(n_q + 2):
                q = self._query(rec)
                pr = self._prior_spec(rec)
                ys = [y for b in rec['batches'] for y in b['Y']]
                thr = r.choice([None, 'q', 'far'] + ['v'] * 6)
                if i_q >= n_q:      # two queries per recipe with a caller-supplied boundary threshold, classes in rotation
                    cls = self.BOUNDARY_THRESHOLDS[(2 * i_rec + i_q - n_q) % len(self.BOUNDARY_THRESHOLDS)]
                    thr = self._boundary_threshold(cls, ys)
                    self.bump('threshold_supplied=' + cls)
                    if q['kinds'][0] not in ('in', 'on', 'corner'):
                        q['kinds'][0] = 'in'
                        q['points'][0] = self._point(rec['bounds'], 'in')
                elif thr == 'far':     # far lower tail: (t - mean)/sd below -38, normal pdf and cdf underflow in binary64
                    thr = min(ys) - r.uniform(5, 60)
                elif thr == 'q':
                    thr = sorted(ys)[len(ys) // 4]
                elif thr == 'v':
                    thr = r.uniform(min(ys) - 0.5, sorted(ys)[len(ys) // 2] + 0.3)
                if thr is None and pr['kind'] in ('flat', 'modelprior'):
                    pr = dict(kind='box', box=[list(b) for b in rec['bounds']])   # minimise() needs prior.rvs
                self.bump('shape=' + q['shape'])
                self.bump('prior=' + pr['kind'])
                self.bump('threshold=' + ('minimised' if thr is None else 'given'))
                for k in q['kinds']:
                    self.bump('row=' + k)
                for p_ in q['points']:
                    if self._inside(p_, rec['bounds']) != self._inside(p_, [rec['bounds'][j] for j in self._dict_order(rec)]):
                        self.bump('rows_where_by_name_and_by_key_position_differ')
                yield dict(kind='post', recipe=rec, query=q, prior=pr, threshold=thr)

    # ---- implementation driver ------------------------------------------------------------------
    def _gp(self, rec, want_snaps=False, fresh=False):
        from elfi.methods.bo.gpy_regression import GPyRegression
        _shim_param_float()
        key = json.dumps(rec, sort_keys=True)
        if not want_snaps and not fresh and key in self._gps:
            return self._gps[key], None
        d = rec['dim']
        names = self._names(rec)
        # bounds: a dict keyed by parameter NAME, its keys written in the recipe's (mostly permuted) order
        gp = GPyRegression(names, bounds=self._bounds_dict(rec),
                           optimizer=rec['optimizer'], max_opt_iters=rec['max_opt_iters'])
        snaps = []
        for b in rec['batches']:
            gp.update(np.array(b['X'], dtype=float), np.array(b['Y'], dtype=float), optimize=b['optimize'])
            if want_snaps:
                X = np.array(gp.X, dtype=float)
                Y = np.array(gp.Y, dtype=float)
                snaps.append(dict(X=X.tolist(), Y=Y[:, 0].tolist() if Y.ndim == 2 and Y.shape[1] == 1 else 'bad-shape',
                                  n=int(gp.n_evidence), shape=[list(X.shape), list(Y.shape)]))
        if fresh:       # the caller is going to change it: never shared with other cases
            return gp, snaps
        if len(self._gps) > 8:
            self._gps.clear()
        self._gps[key] = gp
        return gp, snaps

    # ---- multi-phase use of the cached-RBF path -------------------------------------------------
    @staticmethod
    def _lib_values(gp, x):
        """mean, variance (with noise) and their gradients from the underlying GP library, GPy, itself"""
        m, v = gp._gp.predict(x)
        gm, gv = gp._gp.predictive_gradients(x)
        return [np.ravel(m).tolist(), np.ravel(v).tolist(), np.ravel(np.asarray(gm)[:, :, 0]).tolist(), np.ravel(gv).tolist()]

    @staticmethod
    def _lib_amp(gp, x):
        """rounding-error amplification of the quadratic forms, from GPy's CURRENT posterior (not from the cache)"""
        X = np.asarray(gp._gp.X, dtype=float)
        n = len(X)
        W = np.asarray(gp._gp.posterior.woodbury_inv, dtype=float).reshape(n, n)
        k = np.asarray(gp._gp.kern.K(x, X), dtype=float).ravel()
        kr = np.asarray(gp._gp.kern.rbf.K(x, X), dtype=float).ravel()
        ell = float(np.ravel(gp._gp.kern.rbf.lengthscale)[0])
        dk = -(x - X) / ell ** 2 * kr[:, None]
        nW = float(np.linalg.norm(W, 2))
        nk = float(np.linalg.norm(k))
        alpha = float(np.linalg.norm(np.asarray(gp._gp.posterior.woodbury_vector)))
        ndk = float(np.max(np.linalg.norm(dk, axis=0)))
        return dict(var=nW * nk * nk, grad_var=nW * nk * (nk + ndk), mean=alpha * nk, grad_mean=alpha * (nk + ndk))

    @staticmethod
    def _hyper(gp):
        return [float(v) for v in np.ravel(gp._gp.param_array)]

    def _apply_step(self, gp, st):
        """what happens between two sampling phases (is_sampling is False here)"""
        if st['op'] == 'update':
            gp.update(np.array(st['X'], dtype=float), np.array(st['Y'], dtype=float), optimize=st['optimize'])
        elif st['op'] == 'optimize':
            gp.optimize()                       # standalone: no new evidence
        else:                                   # direct edit of a kernel / likelihood parameter on the GPy model
            m = gp._gp
            par = {'lengthscale': m.kern.rbf.lengthscale, 'variance': m.kern.rbf.variance,
                   'bias': m.kern.bias.variance, 'noise': m.Gaussian_noise.variance}[st['param']]
            new = float(np.ravel(par)[0]) * st['factor']
            if st['param'] == 'lengthscale':
                m.kern.rbf.lengthscale = new
            elif st['param'] == 'variance':
                m.kern.rbf.variance = new
            elif st['param'] == 'bias':
                m.kern.bias.variance = new
            else:
                m.Gaussian_noise.variance = new

    def _run_phases(self, case):
        from elfi.methods.posteriors import BolfiPosterior
        rec = case['recipe']
        d = rec['dim']
        names = self._names(rec)
        gp, _ = self._gp(rec, fresh=True)
        prior = make_prior(case['prior'], d, names)
        thr = case['threshold']
        b = np.array(rec['bounds'], dtype=float)
        P = [np.array(p, dtype=float) for p in case['points']]
        phases = []
        for k in range(len(case['steps']) + 1):
            ph = dict(step=None, changed=None, probe=None, query_between=True)
            if k > 0:
                st = case['steps'][k - 1]
                h0 = self._hyper(gp)
                gp.is_sampling = False          # the sampling phase is over (its cache is built: _rbf_is_cached is True)
                self._apply_step(gp, st)
                h1 = self._hyper(gp)
                ph['step'] = st
                ph['changed'] = bool(h0 != h1)
                ph['hyper'] = [h0, h1]
                ph['query_between'] = bool(st.get('query_between', True))
                if st['op'] == 'set':
                    # observation only (no clause): the inner GPy object was edited behind GPyRegression's back; re-entering
                    # the sampling phase before any non-sampling predict() serves the previous phase's cache
                    x0 = P[0][None, :]
                    gp.is_sampling = True
                    try:
                        m_, v_ = gp.predict(x0)
                        ph['probe'] = [np.ravel(m_).tolist(), np.ravel(v_).tolist()]
                    except Exception as e:
                        ph['probe'] = 'raised ' + type(e).__name__
                    finally:
                        gp.is_sampling = False
            pts = [dict() for _ in P]
            if ph['query_between']:
                # the surrogate is used outside the sampling phase (fitting / acquisition / threshold minimisation): slow path
                for p, rw in zip(P, pts):
                    x = p[None, :]
                    m0, v0 = gp.predict(x)
                    gm0, gv0 = gp.predictive_gradients(x)
                    rw['off'] = [np.ravel(m0).tolist(), np.ravel(v0).tolist(), np.ravel(gm0).tolist(), np.ravel(gv0).tolist()]
                    rw['shapes_off'] = [list(np.shape(a)) for a in (m0, v0, gm0, gv0)]
            # else: optimize() / update() through GPyRegression's own API and straight back into the sampling phase --
            # nothing below touches GPyRegression.predict with is_sampling off until the NEXT step has been applied
            # ---- (next) sampling phase, as BOLFI.sample does it: posterior extracted, then is_sampling = True
            try:
                post = BolfiPosterior(gp, threshold=thr, prior=prior)
            except Exception as e:
                return dict(phases=phases, ctor_exception='%s: %s' % (type(e).__name__, e), default_kernel=bool(gp._kernel_is_default))
            ph['t_readback'] = float(np.ravel(post.threshold)[0]) if np.size(post.threshold) == 1 else None
            ph['cached_on_entry'] = bool(gp._rbf_is_cached)
            ph['raised'] = None
            gp.is_sampling = True
            try:
                for p, rw in zip(P, pts):
                    x = p[None, :]
                    xq = p if d > 1 else p[0]
                    rw['inside'] = bool(np.all((p >= b[:, 0]) & (p <= b[:, 1])))
                    rw['lprior'] = enc(np.ravel(prior.logpdf(xq))[0])
                    rw['gprior'] = [enc(v) for v in np.ravel(prior.gradient_logpdf(xq))]
                    try:
                        m1, v1 = gp.predict(x)
                        gm1, gv1 = gp.predictive_gradients(x)
                        lp_ = post.logpdf(xq)
                        gr_ = post.gradient_logpdf(xq)
                    except Exception as e:      # e.g. the cached |X|^2 row no longer matches the evidence
                        ph['raised'] = 'x=%s: %s: %s' % (p.tolist(), type(e).__name__, e)
                        break
                    rw['on'] = [np.ravel(m1).tolist(), np.ravel(v1).tolist(), np.ravel(gm1).tolist(), np.ravel(gv1).tolist()]
                    rw['shapes_on'] = [list(np.shape(a)) for a in (m1, v1, gm1, gv1)]
                    rw['logpdf'] = enc(np.ravel(lp_)[0])
                    rw['grad'] = [enc(v) for v in np.ravel(gr_)]
            finally:
                gp.is_sampling = False
            for p, rw in zip(P, pts):           # GPy itself (touches neither is_sampling nor the cache)
                rw['lib'] = self._lib_values(gp, p[None, :])
                rw['amp'] = self._lib_amp(gp, p[None, :])
            ph['points'] = pts
            phases.append(ph)
            if ph['raised']:
                break
        return dict(phases=phases, default_kernel=bool(gp._kernel_is_default), n_evidence=int(gp.n_evidence))

    def run_impl(self, case):
        import traceback
        try:
            return self._run_impl_inner(case)
        except ZeroDivisionError as e:
            tb = traceback.format_exc()
            if '_cache_RBF_kernel' in tb and 'lengthscale' in tb:
                # the accelerated path divided by lengthscale**2 == 0.0 (lengthscale below 1e-154 reached by the optimiser)
                self.bump('tiny_lengthscale_cases')
                return dict(tiny_lengthscale='<1e-154 (square underflows)', lib_ok=True, fast_raised='ZeroDivisionError: %s' % e)
            raise

    def _run_impl_inner(self, case):
        rec = case['recipe']
        if case['kind'] == 'ev':
            gp, snaps = self._gp(rec, want_snaps=True)
            return dict(snaps=snaps)
        if case['kind'] == 'phase':
            return self._run_phases(case)
        gp, _ = self._gp(rec)
        d = rec['dim']
        try:
            _ls = np.asarray(gp._gp.kern.rbf.lengthscale, dtype=float).reshape(-1)
            _degenerate = bool(np.any(_ls == 0) or not np.all(np.isfinite(_ls)))
        except Exception:
            _degenerate = False
        if _degenerate:
            # hyper-parameter optimisation ended with a zero / non-finite RBF lengthscale: GPy's own kernel is 0/0
            # there and the surrogate defines nothing to compare with (counted, not judged)
            self.bump('degenerate_surrogate_skipped')
            return dict(skipped='degenerate surrogate (lengthscale %r)' % _ls.tolist())
        if case['kind'] == 'fast' and bool(np.any(np.square(_ls) == 0)):
            # a lengthscale below 1e-154 reached by the optimiser: GPy still predicts (k(x, x') = [x == x']), the
            # accelerated path divides by lengthscale**2 == 0.0
            x0 = np.array(case['points'][0], dtype=float)[None, :]
            gp.is_sampling = False
            lib_ok = True
            try:
                gp.predict(x0)
            except Exception:
                lib_ok = False
            gp.is_sampling = True
            try:
                gp.predict(x0)
                raised = None
            except ZeroDivisionError as e:
                raised = 'ZeroDivisionError: %s' % e
            finally:
                gp.is_sampling = False
            self.bump('tiny_lengthscale_cases')
            return dict(tiny_lengthscale=_ls.tolist(), lib_ok=lib_ok, fast_raised=raised)
        if case['kind'] == 'fast':
            res = []
            for p in case['points']:
                x = np.array(p, dtype=float)[None, :]
                gp.is_sampling = False
                m0, v0 = gp.predict(x)
                gm0, gv0 = gp.predictive_gradients(x)
                gp.is_sampling = True
                try:
                    cached_before = bool(gp._rbf_is_cached)
                    m1, v1 = gp.predict(x)
                    gm1, gv1 = gp.predictive_gradients(x)
                finally:
                    gp.is_sampling = False
                # conditioning of the quadratic form kx W kx^T (both paths evaluate it in binary64)
                W = np.asarray(gp._rbf_woodbury_inv, dtype=float).reshape(len(gp.X), len(gp.X))
                r2 = np.sum((x - np.asarray(gp.X)) ** 2, 1)
                kx = gp._rbf_var * np.exp(r2 * gp._rbf_factor)
                dk = 2. * gp._rbf_factor * (x - np.asarray(gp.X)) * kx[:, None]
                nW = float(np.linalg.norm(W, 2))
                nk = float(np.linalg.norm(kx + gp._rbf_bias))
                alpha = float(np.linalg.norm(np.asarray(gp._rbf_woodbury)))
                ndk = float(np.max(np.linalg.norm(dk, axis=0)))
                amp = dict(var=nW * nk * nk, grad_var=nW * nk * (nk + ndk), mean=alpha * nk, grad_mean=alpha * (nk + ndk))
                res.append(dict(amp=amp, off=[np.ravel(m0).tolist(), np.ravel(v0).tolist(), np.ravel(gm0).tolist(), np.ravel(gv0).tolist()],
                                on=[np.ravel(m1).tolist(), np.ravel(v1).tolist(), np.ravel(gm1).tolist(), np.ravel(gv1).tolist()],
                                shapes_off=[list(np.shape(a)) for a in (m0, v0, gm0, gv0)],
                                shapes_on=[list(np.shape(a)) for a in (m1, v1, gm1, gv1)]))
            return dict(points=res, default_kernel=bool(gp._kernel_is_default))
        # ---- posterior query
        from elfi.methods.posteriors import BolfiPosterior
        names = self._names(rec)
        prior = make_prior(case['prior'], d, names)
        gp.is_sampling = False
        supplied = case['threshold']
        try:
            post = BolfiPosterior(gp, threshold=supplied, prior=prior)
        except Exception as e:
            if supplied is None:
                raise
            return dict(t=float(supplied), t_supplied=float(supplied), ctor_exception='%s: %s' % (type(e).__name__, e))
        t_read = float(np.ravel(post.threshold)[0]) if np.size(post.threshold) == 1 else None
        # a caller-supplied threshold IS the threshold of the definition: everything below (oracle z, Coq pc_t, python
        # formula clause) is computed from the value the test passed in, never from the attribute read back
        t = t_read if supplied is None else float(supplied)
        q = case['query']
        P = np.array(q['points'], dtype=float)
        if q['shape'] == 'scalar':
            x = float(P[0, 0])
        elif q['shape'] == '1d':
            x = P[0] if d > 1 else P[:, 0]
        else:
            x = P
        ndim = int(np.ndim(x))

        def shaped(v, rowf):
            v = np.asarray(v)
            if v.ndim == rowf:       # a single row's worth
                return ['scalar', v]
            return ['vec', list(v)]

        # spy on the surrogate: the oracle values are exactly what the implementation was handed
        calls = []
        orig_p, orig_g = gp.predict, gp.predictive_gradients

        def spy_p(xx, noiseless=False):
            m, v = orig_p(xx, noiseless)
            calls.append(('p', np.array(xx, dtype=float).reshape(-1, d), np.array(m, dtype=float), np.array(v, dtype=float)))
            return m, v

        def spy_g(xx):
            gm_, gv_ = orig_g(xx)
            calls.append(('g', np.array(xx, dtype=float).reshape(-1, d), np.array(gm_, dtype=float), np.array(gv_, dtype=float)))
            return gm_, gv_
        gp.predict, gp.predictive_gradients = spy_p, spy_g
        try:
            ll = shaped(post._unnormalized_loglikelihood(x), 0)
            n_ll = len(calls)
            gl = shaped(post._gradient_unnormalized_loglikelihood(x), 1)
            gl_calls = calls[n_ll:]
            lp = np.asarray(post.logpdf(x), dtype=float).reshape(-1)
            gr = np.asarray(post.gradient_logpdf(x), dtype=float).reshape(-1, d)
        finally:
            del gp.predict, gp.predictive_gradients
        try:        # surrogate.bounds as stored by the constructor (what _within_bounds reads), coordinate by coordinate
            impl_bounds = [[float(b_[0]), float(b_[1])] for b_ in gp.bounds]
            if not all(math.isfinite(v) for b_ in impl_bounds for v in b_):
                impl_bounds = None
        except Exception:
            impl_bounds = None
        out = dict(t=t, t_supplied=None if supplied is None else float(supplied), t_readback=t_read, ndim=ndim, impl_bounds=impl_bounds,
                   ll=[ll[0], enc(ll[1]) if ll[0] == 'scalar' else [enc(v) for v in ll[1]]],
                   gl=[gl[0], [enc(v) for v in np.ravel(gl[1])] if gl[0] == 'scalar' else [[enc(v) for v in np.ravel(rw)] for rw in gl[1]]],
                   logpdf=[enc(v) for v in lp], grad=[[enc(v) for v in rw] for rw in gr])
        # every predict call of the four entry points must have returned the same values for the same rows
        seen = {}
        stable = True
        for kind, xx, a, b in calls:
            for i, xr in enumerate(xx):
                k = (kind, xr.tobytes())
                val = (np.ravel(a[i]).tobytes(), np.ravel(b[i]).tobytes())
                stable = stable and seen.setdefault(k, val) == val
        out['surrogate_deterministic'] = stable
        spied = {}
        for kind, xx, a, b in gl_calls:
            for i, xr in enumerate(xx):
                spied[(kind, xr.tobytes())] = (np.ravel(a[i]), np.ravel(b[i]))
        # ---- oracle values per row: what the implementation was handed (rows it did not query: queried now)
        import scipy.stats as ss
        rows = []
        for p in P:
            xr = p[None, :]
            if ('p', p.tobytes()) in spied and ('g', p.tobytes()) in spied:
                (mean, var), (gm, gv) = spied[('p', p.tobytes())], spied[('g', p.tobytes())]
                mean = float(mean[0]); var = float(var[0])
                src = 'spied'
            else:
                mean, var = gp.predict(xr)
                gm, gv = gp.predictive_gradients(xr)
                mean = float(mean[0, 0]); var = float(var[0, 0])
                src = 'queried'
            sd = float(np.sqrt(var))
            z = (t - mean) / sd
            xq = p if d > 1 else p[0]
            rows.append(dict(x=[float(v) for v in p], src=src, mean=mean, var=var, gmean=[float(v) for v in np.ravel(gm)],
                             gvar=[float(v) for v in np.ravel(gv)], sd=sd, z=z, pdf=float(ss.norm.pdf(z)),
                             cdf=float(ss.norm.cdf(z)), logpdf=float(ss.norm.logpdf(z)), logcdf=float(ss.norm.logcdf(z)),
                             lr=float(ss.norm.logpdf(z) - ss.norm.logcdf(z)),
                             ratio=float(np.exp(ss.norm.logpdf(z) - ss.norm.logcdf(z))),
                             lprior=enc(np.ravel(prior.logpdf(xq))[0]),
                             gprior=[enc(v) for v in np.ravel(prior.gradient_logpdf(xq))]))
        out['rows'] = rows
        # ---- python-side observations: finite differences and the sampling-mode (cached RBF) posterior
        fd = []
        for i, (p, rw) in enumerate(zip(P, rows)):
            b = np.array(rec['bounds'], dtype=float)
            margin = np.min(np.minimum(p - b[:, 0], b[:, 1] - p))
            rw['cond_rel'] = self._cond_rel(gp, p, rw['var'])
            if not (margin > 4 * H_FD) or rw['lprior'] == 'ninf':
                fd.append(None)
                continue
            if not rw['cond_rel'] < 1e-9:
                # the surrogate's own rounding error (relative, in the variance) exceeds 1e-9: finite differences of
                # its output measure GPy's noise, not the posterior's formula (the Coq-side clauses still apply)
                self.bump('fd_rows_skipped_ill_conditioned_surrogate')
                fd.append(None)
                continue
            fd.append(self._fd(post, p, d))
        out['fd'] = fd
        samp = None
        out['well_conditioned'] = None
        if len(P) == 1:
            gp.is_sampling = True
            try:
                out['well_conditioned'] = bool(rows[0]['cond_rel'] < 1e-12 and abs(rows[0]['z']) < 30)
                samp = dict(logpdf=[enc(v) for v in np.ravel(post.logpdf(x))],
                            grad=[enc(v) for v in np.ravel(post.gradient_logpdf(x))])
            finally:
                gp.is_sampling = False
        out['sampling'] = samp
        return out

    @staticmethod
    def _cond_rel(gp, p, var):
        """eps * ||W||_2 * |k|^2 / var: relative rounding error of the predictive variance k** - k W k^T + s2"""
        W = np.asarray(gp._gp.posterior.woodbury_inv, dtype=float).reshape(len(gp._gp.X), len(gp._gp.X))
        k = np.asarray(gp._gp.kern.K(p[None, :], gp._gp.X), dtype=float).ravel()
        return float(2.2e-16 * np.linalg.norm(W, 2) * float(k @ k) / var)

    @staticmethod
    def _fd(post, p, d):
        """Richardson-extrapolated central differences at two step sizes; None for a coordinate where the two
        estimates disagree (the finite-difference oracle is then not trustworthy at this point: function varying on
        the scale of h, or surrogate rounding noise) -- the clause is only evaluated where the oracle is self-consistent."""
        def f(y):
            return float(np.ravel(post.logpdf(y if d > 1 else y[0:1]))[0])

        def rich(h, e):
            d1 = (f(p + h * e) - f(p - h * e)) / (2 * h)
            d2 = (f(p + 2 * h * e) - f(p - 2 * h * e)) / (4 * h)
            return (4 * d1 - d2) / 3
        g = []
        for j in range(d):
            e = np.zeros(d); e[j] = 1.0
            a, b = rich(H_FD, e), rich(H_FD / 4, e)
            g.append(b if math.isfinite(a) and math.isfinite(b) and abs(a - b) <= 0.2 * TOL_FD * (1 + abs(b)) else None)
        return g

    # ---- python-side clauses --------------------------------------------------------------------
    def py_check(self, case, out):
        if out.get('skipped'):
            return []
        if 'tiny_lengthscale' in out:
            if out['lib_ok'] and out['fast_raised']:
                return [('fast_path_defined', 'lengthscale %r reached by optimisation: the GP library predicts, the accelerated path raised %s'
                         % (out['tiny_lengthscale'], out['fast_raised']))]
            return []
        fails = []
        if case['kind'] == 'fast':
            if not out['default_kernel']:
                fails.append(('fast_path_taken', 'default kernel not recognised: fast path was not exercised'))
            for p, r in zip(case['points'], out['points']):
                for name, a, b in zip(('mean', 'var', 'grad_mean', 'grad_var'), r['on'], r['off']):
                    # 1e-8 relative, plus the rounding error both paths are entitled to: 64 ulp times the
                    # amplification ||W|| ||k|| (||k|| + ||dk||) of the quadratic form (ill-conditioned K + noise I)
                    slack = 64 * 2.2e-16 * r['amp'][name]
                    if np.shape(a) != np.shape(b) or not np.all(np.abs(np.array(a) - np.array(b)) <= TOL_FAST * (1 + np.abs(np.array(b))) + slack):
                        fails.append(('fast_path_equals_gp', '%s at x=%s: is_sampling on %s vs off %s (slack %.3g)' % (name, p, a, b, slack)))
                if r['shapes_on'] != r['shapes_off']:
                    fails.append(('fast_path_shapes', 'x=%s: shapes on %s vs off %s' % (p, r['shapes_on'], r['shapes_off'])))
            return fails[:3]
        if case['kind'] == 'phase':
            return self._py_check_phases(case, out)
        if case['kind'] == 'post':
            if 'ctor_exception' in out:
                return [('supplied_threshold_used', 'BolfiPosterior(threshold=%r) raised %s (an explicit threshold needs no minimisation)'
                         % (case['threshold'], out['ctor_exception']))]
            if out['t'] is None:
                return [('threshold_scalar', 'posterior.threshold is not a scalar')]
            fails.extend(self._formula_clause(case, out))
            for i, (g, lp) in enumerate(zip(out['grad'], out['logpdf'])):
                if self._surrogate_grad_nonfinite(out['rows'][i]):
                    # GPy's own predictive_gradients are nan/inf (degenerate hyper-parameters after optimisation):
                    # no gradient of the posterior is defined from them; counted, not judged
                    self.bump('surrogate_gradient_nonfinite_rows')
                    continue
                if not isinstance(lp, str) and any(isinstance(v, str) for v in g):
                    fails.append(('gradient_finite_where_logpdf_finite', 'row %d x=%s: logpdf %s is finite but gradient_logpdf is %s (term=%s, cdf=%s)'
                                  % (i, case['query']['points'][i], lp, g, out['rows'][i]['z'], out['rows'][i]['cdf'])))
            if not out['surrogate_deterministic']:
                fails.append(('surrogate_deterministic', 'the surrogate returned different values for the same row in two calls'))
            for i, (g, fdg) in enumerate(zip(out['grad'], out['fd'])):
                if fdg is None or any(isinstance(v, str) for v in g):
                    continue
                keep = [j for j, v in enumerate(fdg) if v is not None]
                self.bump('fd_coordinates_checked', len(keep))
                self.bump('fd_coordinates_unreliable', len(fdg) - len(keep))
                g, fdg = [g[j] for j in keep], [fdg[j] for j in keep]
                if not close(g, fdg, TOL_FD):
                    fails.append(('gradient_is_derivative', 'row %d x=%s: gradient_logpdf %s vs finite differences of logpdf %s'
                                  % (i, case['query']['points'][i], g, fdg)))
            s = out['sampling']
            if s is not None and not out['well_conditioned']:
                s = None
            if s is not None:
                if [isinstance(v, str) and v for v in s['logpdf']] != [isinstance(v, str) and v for v in out['logpdf']] or \
                        not close([v for v in s['logpdf'] if not isinstance(v, str)], [v for v in out['logpdf'] if not isinstance(v, str)], TOL_FAST):
                    fails.append(('fast_path_posterior', 'logpdf with is_sampling on %s vs off %s' % (s['logpdf'], out['logpdf'])))
                g0 = out['grad'][0]
                if any(isinstance(v, str) for v in list(s['grad']) + list(g0)) or not close(s['grad'], g0, 1e-7):
                    fails.append(('fast_path_posterior', 'gradient_logpdf with is_sampling on %s vs off %s' % (s['grad'], g0)))
            return fails[:3]
        if case['kind'] == 'ev':
            d = case['recipe']['dim']
            tot = 0
            for b, s in zip(case['recipe']['batches'], out['snaps']):
                tot += len(b['X'])
                if s['shape'] != [[tot, d], [tot, 1]]:
                    fails.append(('evidence_shape', 'X/Y shapes %s after %d rows' % (s['shape'], tot)))
            return fails[:3]
        return fails

    @staticmethod
    def _expected_post(t, mean, var, gmean, gvar, lprior, gprior):
        """the definition, from the threshold the TEST supplied: log Phi((t - mean)/sd) + log prior and its gradient"""
        import scipy.stats as ss
        sd = math.sqrt(var)
        z = (t - mean) / sd
        lcdf = float(ss.norm.logcdf(z))
        ratio = float(np.exp(ss.norm.logpdf(z) - ss.norm.logcdf(z)))
        lp = -math.inf if lprior == 'ninf' else lcdf + lprior
        g = [(-gm * sd - (t - mean) * 0.5 * gv / sd) / var * ratio + gp_ for gm, gv, gp_ in zip(gmean, gvar, gprior)]
        return lp, g, z, ratio, sd

    def _formula_clause(self, case, out):
        """density and gradient of every in-bounds row against the formula evaluated with the threshold that was passed
        to the constructor (the minimised one only when None was passed)"""
        fails = []
        t = out['t']
        sup = out.get('t_supplied')
        if sup is not None and not (out.get('t_readback') is not None and out['t_readback'] == sup):
            fails.append(('supplied_threshold_used', 'BolfiPosterior(threshold=%r).threshold reads back %r' % (case['threshold'], out.get('t_readback'))))
        b = np.array(case['recipe']['bounds'], dtype=float)
        for i, rw in enumerate(out['rows']):
            p = np.array(rw['x'], dtype=float)
            if not np.all((p >= b[:, 0]) & (p <= b[:, 1])):
                continue
            if rw['lprior'] == 'other' or any(isinstance(v, str) for v in rw['gprior']) or not rw['var'] > 0:
                continue
            lp, g, z, ratio, sd = self._expected_post(t, rw['mean'], rw['var'], rw['gmean'], rw['gvar'], rw['lprior'], rw['gprior'])
            if not (math.isfinite(ratio) and (math.isfinite(lp) or lp == -math.inf)):
                continue
            self.bump('formula_rows_checked' + ('(supplied threshold)' if sup is not None else '(minimised threshold)'))
            got = out['logpdf'][i]
            what = 'supplied threshold %r' % (case['threshold'],) if sup is not None else 'minimised threshold %r' % t
            if lp == -math.inf:
                if got != 'ninf':
                    fails.append(('supplied_threshold_used', 'row %d x=%s: logpdf %s, definition gives -inf (prior)' % (i, rw['x'], got)))
                continue
            if isinstance(got, str) or not close(got, lp, 1e-9):
                fails.append(('supplied_threshold_used', 'row %d x=%s: logpdf %s but log Phi((t-mean)/sd) + log prior = %r for the %s (mean %r, var %r; posterior.threshold reads %r)'
                              % (i, rw['x'], got, lp, what, rw['mean'], rw['var'], out.get('t_readback'))))
                continue
            gg = out['grad'][i]
            if self._surrogate_grad_nonfinite(rw):
                continue
            if any(isinstance(v, str) for v in gg) or not close(gg, g, 1e-9 * max(1.0, abs(z))):
                fails.append(('supplied_threshold_used', 'row %d x=%s: gradient_logpdf %s but the definition gives %s for the %s'
                              % (i, rw['x'], gg, g, what)))
        return fails[:2]

    @staticmethod
    def _surrogate_grad_nonfinite(rw):
        vals = list(rw.get('gmean') or []) + list(rw.get('gvar') or [])
        return any(isinstance(v, str) or v is None or v != v or abs(v) == float('inf') for v in vals)

    def _py_check_phases(self, case, out):
        fails = []
        if 'ctor_exception' in out:
            return [('supplied_threshold_used', 'phase %d: BolfiPosterior(threshold=%r) raised %s' % (len(out['phases']), case['threshold'], out['ctor_exception']))]
        if not out['default_kernel']:
            fails.append(('fast_path_taken', 'default kernel not recognised: fast path was not exercised'))
        t = float(case['threshold'])
        for k, ph in enumerate(out['phases']):
            st = ph['step']
            desc = 'phase %d (first sampling phase)' % k if st is None else 'phase %d (after leaving the sampling phase and %s; hyper-parameters %s)' % (
                k, {'optimize': 'a standalone optimize()', 'update': 'update(optimize=%s) with %d new rows' % (st.get('optimize'), len(st.get('X', []))),
                    'set': 'setting %s x %s on the GPy model' % (st.get('param'), st.get('factor'))}[st['op']],
                '%s -> %s' % tuple(ph['hyper']) if ph['changed'] else 'unchanged')
            if st is not None and not ph['query_between']:
                desc = desc[:-1] + '; NO non-sampling query before re-entering the sampling phase)'
            if st is not None:
                self.bump('phase_reentries')
                if not ph['query_between']:
                    self.bump('phase_reentries_straight_after_' + st['op'] + ('_optimize' if st.get('optimize') else '') + '(no non-sampling query)')
                if st['op'] != 'update':
                    self.bump('phase_reentries_without_new_evidence')
                    if ph['changed']:
                        self.bump('phase_reentries_without_new_evidence_hyperparameters_changed')
            if ph.get('raised'):
                fails.append(('fast_path_equals_gp_multiphase', '%s: the sampling-mode query raised at %s (cache flag on entry %s)' % (desc, ph['raised'], ph['cached_on_entry'])))
            if st is not None and st['op'] == 'set':
                # observation, not a clause (inner GPy object edited behind the class's back): what a re-entry without any
                # non-sampling predict() in between would have served
                pr = ph['probe']
                lib0 = ph['points'][0]['lib']
                if isinstance(pr, str):
                    self.bump('observed:inner_gpy_edit_then_reentry_before_any_nonsampling_predict:' + pr.replace(' ', '_'))
                elif ph['changed'] and not (close(pr[0], lib0[0], 1e-6) and close(pr[1], lib0[1], 1e-6)):
                    self.bump('observed:inner_gpy_edit_then_reentry_before_any_nonsampling_predict:stale_values')
                elif ph['changed']:
                    self.bump('observed:inner_gpy_edit_then_reentry_before_any_nonsampling_predict:current_values')
            if ph['t_readback'] != t:
                fails.append(('supplied_threshold_used', '%s: BolfiPosterior(threshold=%r).threshold reads back %r' % (desc, case['threshold'], ph['t_readback'])))
            for p, r in zip(case['points'], ph['points']):
                bad = False
                if 'on' not in r:       # the phase stopped at an exception (reported above)
                    continue
                d_ = len(p)
                for name, a, l_, o in zip(('mean', 'var', 'grad_mean', 'grad_var'), r['on'], r['lib'], r.get('off', r['lib'])):
                    slack = 64 * 2.2e-16 * r['amp'][name]      # same policy as the on/off clause
                    if np.shape(a) != np.shape(l_) or not np.all(np.abs(np.array(a) - np.array(l_)) <= TOL_FAST * (1 + np.abs(np.array(l_))) + slack):
                        fails.append(('fast_path_equals_gp_multiphase', '%s: %s at x=%s: is_sampling on %s vs GPy %s (slack %.3g; cache flag on entry %s)'
                                      % (desc, name, p, a, l_, slack, ph['cached_on_entry'])))
                        bad = True
                    if np.shape(o) != np.shape(l_) or not close(o, l_, 1e-12):
                        fails.append(('slow_path_is_gp', '%s: %s at x=%s: is_sampling off %s vs GPy %s' % (desc, name, p, o, l_)))
                if r['shapes_on'] != r.get('shapes_off', [[1, 1], [1, 1], [1, d_], [1, d_]]):
                    fails.append(('fast_path_shapes', '%s: x=%s: shapes on %s vs off %s' % (desc, p, r['shapes_on'], r.get('shapes_off', 'documented (1,1),(1,1),(1,d),(1,d)'))))
                # ---- the posterior in this phase
                if not r['inside']:
                    if r['logpdf'] != 'ninf':
                        fails.append(('posterior_multiphase', '%s: x=%s outside the bounds but logpdf = %s' % (desc, p, r['logpdf'])))
                    continue
                if r['lprior'] == 'other' or any(isinstance(v, str) for v in r['gprior']):
                    continue
                m1, v1, gm1, gv1 = r['on']
                ml, vl, gml, gvl = r['lib']
                if not (v1[0] > 0 and vl[0] > 0):
                    self.bump('phase_rows_nonpositive_variance')
                    continue
                # (i) exactly the formula on the values the accelerated path handed over (tight) ...
                lp, g, z, ratio, sd = self._expected_post(t, m1[0], v1[0], gm1, gv1, r['lprior'], r['gprior'])
                # (ii) ... and the definition on GPy's values, with the error the fast-path clause allows propagated
                lpl, gl_, zl, ratiol, sdl = self._expected_post(t, ml[0], vl[0], gml, gvl, r['lprior'], r['gprior'])
                if not (math.isfinite(ratio) and math.isfinite(ratiol)):
                    continue
                self.bump('phase_posterior_rows_checked')
                if lp == -math.inf:
                    if r['logpdf'] != 'ninf':
                        fails.append(('posterior_multiphase', '%s: x=%s: logpdf %s, definition gives -inf (prior)' % (desc, p, r['logpdf'])))
                    continue
                if isinstance(r['logpdf'], str) or not close(r['logpdf'], lp, 1e-9):
                    fails.append(('posterior_multiphase', '%s: x=%s: logpdf %s but log Phi((t-mean)/sd) + log prior = %r on the sampling-mode mean %r var %r (threshold %r)'
                                  % (desc, p, r['logpdf'], lp, m1[0], v1[0], case['threshold'])))
                elif any(isinstance(v, str) for v in r['grad']) or not close(r['grad'], g, 1e-9 * max(1.0, abs(z))):
                    fails.append(('posterior_multiphase', '%s: x=%s: gradient_logpdf %s but the definition gives %s on the sampling-mode surrogate values' % (desc, p, r['grad'], g)))
                if not bad:
                    am = TOL_FAST * (1 + abs(ml[0])) + 64 * 2.2e-16 * r['amp']['mean']
                    av = TOL_FAST * (1 + abs(vl[0])) + 64 * 2.2e-16 * r['amp']['var']
                    tol = TOL_FAST * (1 + abs(lpl)) + 4 * max(ratiol, 1.0) * (am + abs(zl) * av / (2 * sdl)) / sdl
                    if isinstance(r['logpdf'], str) or not abs(r['logpdf'] - lpl) <= tol:
                        fails.append(('posterior_multiphase', '%s: x=%s: logpdf %s but log Phi((t-mean)/sd) + log prior = %r on GPy mean %r var %r (threshold %r, tolerance %.3g)'
                                      % (desc, p, r['logpdf'], lpl, ml[0], vl[0], case['threshold'], tol)))
        return fails[:3]

    def nontrivial(self, case, out):
        if out.get('skipped') or 'tiny_lengthscale' in out:
            return None
        key = json.dumps([case['recipe'], case.get('query'), case.get('points'), case.get('threshold'), case.get('prior'), case.get('steps')], sort_keys=True)
        if case['kind'] == 'phase':
            ok = len(case['points']) >= 2 and any(ph['step'] is not None and ph['step']['op'] != 'update' and ph['changed'] for ph in out.get('phases', []))
            return key if ok else None
        if case['kind'] == 'ev':
            return key if len(case['recipe']['batches']) >= 2 else None
        if case['kind'] == 'fast':
            return key if len(case['points']) >= 3 else None
        return key if any(k in ('in', 'on', 'corner') for k in case['query']['kinds']) else None

    def classify(self, case, out, clause):
        if clause == 'fast_path_defined' and 'tiny_lengthscale' in out:
            return 'fast-path-zero-division-tiny-lengthscale'
        if clause == 'gradient_finite_where_logpdf_finite':
            bad = [r for r, g, lp in zip(out['rows'], out['grad'], out['logpdf'])
                   if not isinstance(lp, str) and any(isinstance(v, str) for v in g)]
            if bad and all(r['cdf'] == 0.0 for r in bad):
                return 'grad-nan-far-tail'
        return None

    # ---- Coq terms --------------------------------------------------------------------------
    def to_coq(self, case, out):
        if out.get('skipped') or 'tiny_lengthscale' in out or case['kind'] in ('fast', 'phase') or 'ctor_exception' in out:
            return None
        if case['kind'] == 'post' and any(self._surrogate_grad_nonfinite(r) for r in (out.get('rows') or [])):
            self.bump('surrogate_gradient_nonfinite_cases_not_sent_to_coq')
            return None
        if case['kind'] == 'ev':
            def erows(X, Y):
                return clist(['(%s, %s)' % (clist([cq(v) for v in x]), cq(y)) for x, y in zip(X, Y)])
            bs = clist([erows(b['X'], b['Y']) for b in case['recipe']['batches']], sep=';\n   ')
            sn = []
            for s in out['snaps']:
                if s['Y'] == 'bad-shape':
                    sn.append('([], %s)' % cnat(min(s['n'], 4000)))
                else:
                    sn.append('(%s, %s)' % (erows(s['X'], s['Y']), cnat(min(s['n'], 4000))))
            return '(EvCase {| ec_batches := %s; ec_snaps := %s |})' % (bs, clist(sn, sep=';\n   '))
        if out['t'] is None:
            return None
        if any(not math.isfinite(r['ratio']) or not math.isfinite(r['logcdf']) for r in out['rows']):
            self.bump('no_coq_side:oracle_not_finite')
            return None
        if any(r['cdf'] == 0.0 for r in out['rows']):
            self.bump('far_tail_rows(cdf underflows)')
        d = case['recipe']['dim']
        rows = []
        for r in out['rows']:
            orc = ('{| o_mean := %s; o_var := %s; o_gmean := %s; o_gvar := %s; o_sd := %s; o_z := %s; o_pdf := %s; o_cdf := %s; o_logpdf := %s; o_logcdf := %s; o_lr := %s; o_ratio := %s |}'
                   % (cq(r['mean']), cq(r['var']), clist([cq(v) for v in r['gmean']]), clist([cq(v) for v in r['gvar']]),
                      cq(r['sd']), cq(r['z']), cq(r['pdf']), cq(r['cdf']), cq(r['logpdf']), cq(r['logcdf']), cq(r['lr']), cq(r['ratio'])))
            if r['lprior'] == 'other' or any(isinstance(v, str) for v in r['gprior']):
                return None   # prior oracle not finite/-inf: no Coq side (python clauses still apply)
            rows.append('{| r_x := %s; r_orc := %s; r_lprior := %s; r_gprior := %s |}'
                        % (clist([cq(v) for v in r['x']]), orc, c_ext(r['lprior']), clist([cq(v) for v in r['gprior']])))
        frow = lambda rw: clist([c_optq(v) for v in rw])
        rec = case['recipe']
        names = self._names(rec)
        cb = lambda b_: '(%s, %s)' % (cq(b_[0]), cq(b_[1]))
        # the dict as the user wrote it: (key, interval) in insertion order
        cdict = clist(['(%s, %s)' % (cstr(names[j]), cb(rec['bounds'][j])) for j in self._dict_order(rec)])
        return ('(PostCase {| pc_dim := %s; pc_ndim := %s; pc_names := %s; pc_dict := %s; pc_impl_bounds := %s; pc_t := %s;\n  pc_rows := %s;\n  pc_impl_ll := %s; pc_impl_gl := %s;\n'
                '  pc_impl_logpdf := %s; pc_impl_grad := %s |})'
                % (cnat(d), cnat(out['ndim']), clist([cstr(n) for n in names]), cdict,
                   clist([cb(b_) for b_ in (out.get('impl_bounds') or [])]),
                   cq(out['t']), clist(rows, sep=';\n    '),
                   c_shaped(out['ll'], c_obs), c_shaped(out['gl'], frow),
                   clist([c_obs(v) for v in out['logpdf']]), clist([frow(rw) for rw in out['grad']])))

    # ---- search after a broken obligation --------------------------------------------------------
    def search(self, reason, budget_s=60):
        """The obligation about the translated gradient (or a correspondence) broke: look for a point where the
        implementation's gradient_logpdf is not the derivative of its logpdf (finite differences), on fresh
        random models; then fall back to the generic search."""
        t0 = time.time()
        rounds = 0
        while time.time() - t0 < budget_s * 0.6 and rounds < 40:
            rounds += 1
            self.rng = random.Random(self.seed * 104729 + rounds)
            rec = self._recipe()
            ys = [y for b in rec['batches'] for y in b['Y']]
            for _ in range(6):
                q = dict(shape='2d', points=[self._point(rec['bounds'], 'in')], kinds=['in'])
                case = dict(kind='post', recipe=rec, query=q, prior=self.rng.choice([dict(kind='flat'), self._prior_spec(rec)]),
                            threshold=self.rng.uniform(min(ys) - 0.5, sorted(ys)[len(ys) // 2] + 0.3))
                try:
                    out = self.run_impl(case)
                except Exception as e:
                    return Failure('ok', None, case, {'__exception__': repr(e)}, 'gradient_is_derivative: implementation raised %r' % e)
                bad = [m for c, m in self.py_check(case, out) if c == 'gradient_is_derivative']
                if bad:
                    return Failure('ok', None, case, out, 'gradient_is_derivative (search after %s): %s' % ('; '.join(r.split('\n')[0][:80] for r in reason), bad[0]))
        self._search_mode = True
        try:
            return super().search(reason, budget_s=max(5, budget_s - (time.time() - t0)))
        finally:
            self._search_mode = False


if __name__ == '__main__':
    sys.exit(run_check(C10))
