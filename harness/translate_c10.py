"""C10 translator (DESIGN.md 4.2): Python `ast` -> Gallina, fail-closed.

Regenerates `coq/Gen/C10_Gradient.v` from the *source text* of
`BolfiPosterior._unnormalized_loglikelihood` and `BolfiPosterior._gradient_unnormalized_loglikelihood`
(`<repo>/elfi/methods/posteriors.py`).  Emitted, per function, the scalar (one row, one coordinate)
reading of the numpy element-wise formula

  * over `R`  (`loglik`, `grad`)   with the normal pdf/cdf as function parameters `phi Phi : R -> R`
                                   and the surrogate's mean / variance / their derivatives as
                                   parameters -- the theorems of Proofs/C10_Deriv.v are about these;
  * over `Q`  (`loglikQ`, `gradQ`) the same expression tree with `sqrt`, pdf, cdf and logcdf as
                                   oracle functions `Q -> Q` -- executable, evaluated by the
                                   correspondence check against the real function's output.

Accepted (anything else raises `TranslateError`, and the check reports the obligation as broken):

  * the array/shape plumbing statements of the two functions, matched *verbatim* (normalised by
    `ast.unparse`) and in order -- they are modelled by hand in coq/Num/Gp.v (`shape_out`, `scatter`);
  * `mean, var = self.model.predict(x)` and `grad_mean, grad_var = self.model.predictive_gradients(x)`
    (introduce the oracle parameters);
  * `name = <expr>` (becomes `let name := ... in`) and exactly one store `target[logi(, :)] = <expr>`
    (the result), where <expr> is built from  + - * /, unary minus, numeric literals, bound names,
    `self.threshold`, `np.sqrt(e)`, `np.exp(e)`, `ss.norm.pdf(e)`, `ss.norm.cdf(e)`, `ss.norm.logpdf(e)`
    (= ln phi(e)), `ss.norm.logcdf(e)` (= ln Phi(e)), `ss.norm.logcdf(a, loc, scale)`
    (= ln Phi((a - loc) / scale), scipy's definition of loc/scale) and a trailing `.squeeze()`
    (shape only, identity on the scalar reading).

Run as a script (`/venv/bin/python harness/translate_c10.py`) it writes coq/Gen/C10_Gradient.v from
$ELFI_REPO (default /repo); `--print [repo]` prints the translation instead.
"""
import ast
import fractions
import os


class TranslateError(Exception):
    pass


# ---- verbatim plumbing (normalised through ast.unparse) ---------------------------------------

def _norm(src):
    return ast.unparse(ast.parse(src))


def _pre(res, init):
    return [_norm(s) for s in (
        'x = np.asanyarray(x)',
        'ndim = x.ndim',
        'x = x.reshape((-1, self.dim))',
        init,
        'logi = self._within_bounds(x)',
        'x = x[logi, :]',
        'if len(x) == 0:\n'
        '    if ndim == 0 or (ndim == 1 and self.dim > 1):\n'
        '        %s = %s[0]\n'
        '    return %s' % (res, res, res),
    )]


def _post(res):
    return [_norm(s) for s in (
        'if ndim == 0 or (ndim == 1 and self.dim > 1):\n'
        '    %s = %s[0]' % (res, res),
        'return %s' % res,
    )]


SPEC = {
    '_unnormalized_loglikelihood': dict(
        res='logpdf', pre=_pre('logpdf', 'logpdf = -np.ones(len(x)) * np.inf'), post=_post('logpdf'),
        store='logpdf[logi]', coq='loglik', funs_R=['Phi'], funs_Q=['sqrtf', 'logPhif'],
        params=['threshold', 'mean', 'var'], bindings=['predict']),
    '_gradient_unnormalized_loglikelihood': dict(
        res='grad', pre=_pre('grad', 'grad = np.zeros_like(x)'), post=_post('grad'),
        store='grad[logi, :]', coq='grad', funs_R=['phi', 'Phi'], funs_Q=['sqrtf', 'expf', 'phif', 'Phif', 'logphif', 'logPhif'],
        params=['threshold', 'mean', 'var', 'grad_mean', 'grad_var'], bindings=['predict', 'predictive_gradients']),
}

BINDINGS = {
    'predict': (_norm('mean, var = self.model.predict(x)'), ['mean', 'var']),
    'predictive_gradients': (_norm('grad_mean, grad_var = self.model.predictive_gradients(x)'), ['grad_mean', 'grad_var']),
}

RESERVED = {'phi', 'Phi', 'sqrtf', 'expf', 'phif', 'Phif', 'logphif', 'logPhif', 'sqrt', 'exp', 'ln', 'R', 'Q', 'let', 'in', 'fun', 'forall'}


# ---- expression trees ----------------------------------------------------------------------

def _dotted(node):
    if isinstance(node, ast.Name):
        return node.id
    if isinstance(node, ast.Attribute):
        b = _dotted(node.value)
        return None if b is None else b + '.' + node.attr
    return None


def expr(node, env):
    """-> tree: ('num', Fraction) | ('var', name) | ('neg', e) | (op, a, b) | ('sqrt'|'exp'|'pdf'|'cdf'|'logpdf'|'logcdf', e)"""
    if isinstance(node, ast.Constant):
        if isinstance(node.value, bool) or not isinstance(node.value, (int, float)):
            raise TranslateError('literal %r not accepted' % (node.value,))
        if isinstance(node.value, float) and (node.value != node.value or node.value in (float('inf'), float('-inf'))):
            raise TranslateError('non-finite literal')
        # the decimal text the programmer wrote (0.5 -> 1/2), which is also the binary64 value for
        # the literals that occur here; any literal whose decimal reading differs from its binary64
        # value is refused so that R-level and executed semantics coincide.
        f = fractions.Fraction(repr(node.value)) if isinstance(node.value, float) else fractions.Fraction(node.value)
        if fractions.Fraction(node.value) != f:
            raise TranslateError('literal %r is not exactly representable in binary64' % (node.value,))
        return ('num', f)
    if isinstance(node, ast.Name):
        if node.id not in env:
            raise TranslateError('unbound name %s' % node.id)
        return ('var', node.id)
    if isinstance(node, ast.Attribute):
        if _dotted(node) == 'self.threshold':
            return ('var', 'threshold')
        raise TranslateError('attribute %s not accepted' % ast.unparse(node))
    if isinstance(node, ast.UnaryOp):
        if isinstance(node.op, ast.USub):
            return ('neg', expr(node.operand, env))
        if isinstance(node.op, ast.UAdd):
            return expr(node.operand, env)
        raise TranslateError('unary operator %s' % type(node.op).__name__)
    if isinstance(node, ast.BinOp):
        ops = {ast.Add: 'add', ast.Sub: 'sub', ast.Mult: 'mul', ast.Div: 'div'}
        if type(node.op) not in ops:
            raise TranslateError('binary operator %s not accepted' % type(node.op).__name__)
        return (ops[type(node.op)], expr(node.left, env), expr(node.right, env))
    if isinstance(node, ast.Call):
        if node.keywords:
            raise TranslateError('keyword arguments not accepted: %s' % ast.unparse(node))
        # e.squeeze()
        if isinstance(node.func, ast.Attribute) and node.func.attr == 'squeeze' and not node.args:
            return expr(node.func.value, env)
        name = _dotted(node.func)
        args = node.args
        if name == 'np.sqrt' and len(args) == 1:
            return ('sqrt', expr(args[0], env))
        if name == 'np.exp' and len(args) == 1:
            return ('exp', expr(args[0], env))
        if name == 'ss.norm.logpdf' and len(args) == 1:
            return ('logpdf', expr(args[0], env))
        if name == 'ss.norm.pdf' and len(args) == 1:
            return ('pdf', expr(args[0], env))
        if name == 'ss.norm.cdf' and len(args) == 1:
            return ('cdf', expr(args[0], env))
        if name == 'ss.norm.logcdf' and len(args) == 3:
            a, loc, scale = (expr(z, env) for z in args)
            return ('logcdf', ('div', ('sub', a, loc), scale))
        if name == 'ss.norm.logcdf' and len(args) == 1:
            return ('logcdf', expr(args[0], env))
        raise TranslateError('call %s not accepted' % ast.unparse(node))
    raise TranslateError('expression form %s not accepted: %s' % (type(node).__name__, ast.unparse(node)))


def _num(f, field):
    if field == 'R':
        if f.denominator == 1:
            return '%d' % f.numerator if f.numerator >= 0 else '(- %d)' % -f.numerator
        s = '(%d / %d)' % (abs(f.numerator), f.denominator)
        return s if f.numerator >= 0 else '(- %s)' % s
    return '(%d # %d)' % (f.numerator, f.denominator)


def pr(t, field, ren):
    k = t[0]
    if k == 'num':
        return _num(t[1], field)
    if k == 'var':
        return ren.get(t[1], t[1])
    if k == 'neg':
        return '(- %s)' % pr(t[1], field, ren)
    if k in ('add', 'sub', 'mul', 'div'):
        return '(%s %s %s)' % (pr(t[1], field, ren), {'add': '+', 'sub': '-', 'mul': '*', 'div': '/'}[k], pr(t[2], field, ren))
    a = pr(t[1], field, ren)
    if field == 'R':
        return {'sqrt': '(sqrt %s)', 'exp': '(exp %s)', 'pdf': '(phi %s)', 'cdf': '(Phi %s)', 'logpdf': '(ln (phi %s))',
                'logcdf': '(ln (Phi %s))'}[k] % a
    return {'sqrt': '(sqrtf %s)', 'exp': '(expf %s)', 'pdf': '(phif %s)', 'cdf': '(Phif %s)', 'logpdf': '(logphif %s)',
            'logcdf': '(logPhif %s)'}[k] % a


def _uses(t, kinds):
    if t[0] in kinds:
        return True
    return any(isinstance(c, tuple) and _uses(c, kinds) for c in t[1:])


# ---- one function ---------------------------------------------------------------------------

def translate_function(fn, spec):
    body = list(fn.body)
    if body and isinstance(body[0], ast.Expr) and isinstance(getattr(body[0], 'value', None), ast.Constant) \
            and isinstance(body[0].value.value, str):
        body = body[1:]   # docstring
    if [a.arg for a in fn.args.args] != ['self', 'x'] or fn.args.vararg or fn.args.kwarg or fn.args.kwonlyargs \
            or fn.args.defaults or fn.decorator_list:
        raise TranslateError('%s: unexpected signature' % fn.name)
    texts = [ast.unparse(s) for s in body]
    pre, post = spec['pre'], spec['post']
    if texts[:len(pre)] != pre:
        for a, b in zip(texts, pre):
            if a != b:
                raise TranslateError('%s: plumbing statement changed: %r (expected %r)' % (fn.name, a, b))
        raise TranslateError('%s: plumbing prefix too short' % fn.name)
    if len(texts) < len(pre) + len(post) or texts[len(texts) - len(post):] != post:
        raise TranslateError('%s: plumbing suffix changed: %r (expected %r)' % (fn.name, texts[-len(post):], post))
    core = body[len(pre):len(body) - len(post)]
    env = {'threshold'}
    lets = []          # (python name, tree)
    result = None
    seen_bind = []
    for st in core:
        txt = ast.unparse(st)
        if result is not None:
            raise TranslateError('%s: statement after the result store: %r' % (fn.name, txt))
        hit = [k for k in spec['bindings'] if BINDINGS[k][0] == txt]
        if hit:
            if hit[0] in seen_bind:
                raise TranslateError('%s: oracle bound twice: %r' % (fn.name, txt))
            if lets and any(n in BINDINGS[hit[0]][1] for n, _ in lets):
                raise TranslateError('%s: oracle name shadowed' % fn.name)
            seen_bind.append(hit[0])
            env |= set(BINDINGS[hit[0]][1])
            continue
        if not isinstance(st, ast.Assign) or len(st.targets) != 1:
            raise TranslateError('%s: statement form not accepted: %r' % (fn.name, txt))
        tgt = st.targets[0]
        if isinstance(tgt, ast.Name):
            if tgt.id in RESERVED or tgt.id in spec['params'] or tgt.id in ('x', 'logi', 'ndim', spec['res']):
                raise TranslateError('%s: assignment to reserved/oracle name %s' % (fn.name, tgt.id))
            lets.append((tgt.id, expr(st.value, env)))
            env.add(tgt.id)
        elif isinstance(tgt, ast.Subscript) and ast.unparse(tgt) == spec['store']:
            result = expr(st.value, env)
        else:
            raise TranslateError('%s: assignment target not accepted: %r' % (fn.name, txt))
    if result is None:
        raise TranslateError('%s: no result store %s = ...' % (fn.name, spec['store']))
    if sorted(seen_bind) != sorted(spec['bindings']):
        raise TranslateError('%s: oracle bindings %s (expected %s)' % (fn.name, seen_bind, spec['bindings']))
    return lets, result


def _emit(name, funs, params, ty, lets, result, field):
    # python allows rebinding (factor = factor / var): Gallina `let` shadows the same way
    lines = ['Definition %s (%s : %s -> %s) (%s : %s) : %s :=' % (name, ' '.join(funs), ty, ty, ' '.join(params), ty, ty)]
    body = ''
    for n, t in lets:
        body += '   let %s := %s in\n' % (n, pr(t, field, {}))
    body += '   %s' % pr(result, field, {})
    lines.append('  (' + body.lstrip() + ')%' + ('R' if field == 'R' else 'Q') + '.')
    return '\n'.join(lines)


def translate(repo):
    path = os.path.join(repo, 'elfi', 'methods', 'posteriors.py')
    tree = ast.parse(open(path).read())
    cls = [n for n in tree.body if isinstance(n, ast.ClassDef) and n.name == 'BolfiPosterior']
    if len(cls) != 1:
        raise TranslateError('class BolfiPosterior not found exactly once')
    out = ['(* GENERATED on every run by harness/translate_c10.py from the source text of',
           '   %s (class BolfiPosterior) -- do not edit, not committed. *)' % path,
           'From Coq Require Import Reals QArith.', '']
    for fname, spec in SPEC.items():
        fns = [n for n in cls[0].body if isinstance(n, ast.FunctionDef) and n.name == fname]
        if len(fns) != 1:
            raise TranslateError('method %s not found exactly once' % fname)
        lets, result = translate_function(fns[0], spec)
        alltrees = [t for _, t in lets] + [result]
        if fname == '_unnormalized_loglikelihood' and any(_uses(t, ('pdf', 'cdf', 'logpdf', 'exp')) for t in alltrees):
            raise TranslateError('%s: only sqrt and logcdf are expected in the log-likelihood' % fname)
        out.append('(* %s *)' % fname)
        out.append(_emit(spec['coq'], spec['funs_R'], spec['params'], 'R', lets, result, 'R'))
        out.append(_emit(spec['coq'] + 'Q', spec['funs_Q'], spec['params'], 'Q', lets, result, 'Q'))
        out.append('')
    return '\n'.join(out)


def generate(repo, coqdir):
    """Write coq/Gen/C10_Gradient.v (removing a stale one first, so a refused translation cannot
    leave yesterday's definitions behind)."""
    dst = os.path.join(coqdir, 'Gen', 'C10_Gradient.v')
    os.makedirs(os.path.dirname(dst), exist_ok=True)
    try:
        txt = translate(repo)
    except Exception:
        for ext in ('.v', '.vo', '.glob', '.vok', '.vos'):
            try:
                os.remove(dst[:-2] + ext)
            except OSError:
                pass
        raise
    old = open(dst).read() if os.path.exists(dst) else None
    if old != txt:
        with open(dst, 'w') as f:
            f.write(txt)
    return dst


def main(argv=None):
    import sys
    argv = sys.argv[1:] if argv is None else argv
    if argv and argv[0] == '--print':
        print(translate(argv[1] if len(argv) > 1 else os.environ.get('ELFI_REPO', '/repo')))
        return 0
    repo = argv[0] if argv else os.environ.get('ELFI_REPO', '/repo')
    coqdir = os.path.join(os.path.dirname(os.path.dirname(os.path.abspath(__file__))), 'coq')
    print(generate(repo, coqdir))
    return 0


if __name__ == '__main__':
    raise SystemExit(main())
