"""C20 - BSL: synthetic likelihood and its Metropolis-Hastings step.

Two ties to /repo (DESIGN.md 4.1, 4.2):
  * translator  harness/translate_c20.py -> coq/Gen/C20_Transforms.v (regenerated on every run); the theorems of
    Proofs/C20_Transforms.v are about the generated text;
  * correspondence with coq/Num/Bsl.v: BSL._get_mh_ratio, _process_simulated, _init_round on constructed sampler
    objects, mean/cov/whitening/Warton as handed to multivariate_normal.logpdf by gaussian_syn_likelihood;
  * python side (py_check): static helpers vs the translated trees, round trip, log-Jacobian vs finite differences,
    every likelihood vs an independent recomputation of its published formula;
  * wave 2: purity of every driven entry point (the caller's arrays are bit-identical after the call), HISTORIES of
    likelihood evaluations that re-use the caller's observed / gamma / whitening array objects (Coq case CHist: every
    evaluation against a fresh run of the stateless model on the values on record), and rounds of a hand-initialised
    BSL sampler with the real robust likelihoods and the real slice samplers for gamma.
"""
import math
import types

import numpy as np
from common import *
import translate_c20

INF = float('inf')


# ------------------------------------------------------------------------------------------------
# helpers
# ------------------------------------------------------------------------------------------------

def bnd_arr(bound):
    return np.array([[-INF if a is None else a, INF if b is None else b] for a, b in bound], dtype=float)


def btype(ab):
    a, b = ab
    return str((1 if a is None else 0) + (2 if b is None else 0))


def spec_logjac_theta(theta, bound):
    """sum_i log |d theta_i / d theta~_i| written in theta (independent of the code's formulas):
    two-sided: (x-a)(b-x)/(b-a); upper-bounded: b-x; lower-bounded: x-a; unbounded: 1."""
    s = 0.0
    for x, (a, b) in zip(theta, bound):
        t = btype((a, b))
        if t == '0':
            s += math.log((x - a) * (b - x) / (b - a))
        elif t == '1':
            s += math.log(b - x)
        elif t == '2':
            s += math.log(x - a)
    return s


def spec_back(y, ab):
    a, b = ab
    t = btype(ab)
    if t == '0':
        return a + (b - a) / (1.0 + math.exp(-y))
    if t == '1':
        return b - math.exp(-y)
    if t == '2':
        return a + math.exp(y)
    return y


class NpProxy:
    """stands in for the module-level name `np` of elfi.methods.inference.bsl: records np.exp calls."""

    def __init__(self):
        self.calls = []

    def __getattr__(self, k):
        return getattr(np, k)

    def exp(self, x):
        v = np.exp(x)
        self.calls.append((x, v))
        return v


class SsProxy:
    """stands in for `ss` (scipy.stats) in elfi.methods.bsl.pdf_methods: records multivariate_normal.logpdf args."""

    def __init__(self):
        import scipy.stats
        self._ss = scipy.stats
        self.calls = []
        self.multivariate_normal = types.SimpleNamespace(logpdf=self._logpdf)

    def __getattr__(self, k):
        return getattr(self._ss, k)

    def gaussian_kde(self, *a, **k):
        """numpy-2 shim (like numpy.Inf): `logpdf_y[j] = kernel.logpdf(y)` stores a 1-element array into a scalar
        slot, which numpy >= 2.4 refuses; hand back the element."""
        kde = self._ss.gaussian_kde(*a, **k)
        real = kde.logpdf

        def logpdf(x):
            v = real(x)
            return float(v[0]) if getattr(v, 'shape', None) == (1,) else v
        kde.logpdf = logpdf
        return kde

    def _logpdf(self, x, mean=None, cov=None):
        self.calls.append((np.array(x, dtype=float), np.array(mean, dtype=float), np.array(cov, dtype=float)))
        return self._ss.multivariate_normal.logpdf(x, mean=mean, cov=cov)


class BoxPrior:
    def __init__(self, lo, hi, value):
        self.lo, self.hi, self.value = np.array(lo, dtype=float), np.array(hi, dtype=float), value
        self.seen = []

    def logpdf(self, x):
        x = np.atleast_2d(x)[0]
        v = self.value if bool(np.all((x > self.lo) & (x < self.hi))) else -INF
        self.seen.append(([float(t) for t in x], v))
        return v


class ScriptedRandom:
    def __init__(self, draws=(), us=()):
        self.draws, self.us, self.means = list(draws), list(us), []

    def multivariate_normal(self, mean, cov):
        self.means.append([float(t) for t in mean])
        return np.array(self.draws.pop(0), dtype=float)

    def uniform(self):
        return self.us.pop(0)


class Snap:
    """bit-level snapshot of the arrays the harness hands to the code: `changed()` names those whose content, shape
    or dtype differs afterwards (the caller's arrays must not be written to by a likelihood / transform / ratio call)"""

    def __init__(self, **arrs):
        self.items = {}
        self.add(**arrs)

    @staticmethod
    def _sig(a):
        return (a.shape, a.dtype.str, a.tobytes())

    def add(self, **arrs):
        for k, a in arrs.items():
            if isinstance(a, np.ndarray):
                self.items[k] = (a, self._sig(a))

    def changed(self):
        return sorted(k for k, (a, sig) in self.items.items() if self._sig(a) != sig)


def lay_out(v, layout, dtype=float):
    """an array with content v in one of the layouts a caller may hold it in: its own array, a strided view into a
    larger array, a row of a 2-d state matrix (like state['gamma'][n]).  Returns (array, base or None)."""
    v = np.array(v, dtype=dtype)
    if layout == 'view':
        base = np.full(2 * len(v) + 1, 7.5, dtype=dtype)
        base[1::2] = v
        return base[1::2], base
    if layout == 'row':
        base = np.full((3, len(v)), 7.5, dtype=dtype)
        base[1] = v
        return base[1], base
    return v, None


class RecRandom:
    """random_state of a constructed sampler: a seeded numpy RandomState; the argument-less uniform draws (the
    Metropolis-Hastings ones) are recorded"""

    def __init__(self, seed):
        self.rs = np.random.RandomState(seed)
        self.us = []

    def multivariate_normal(self, mean, cov):
        return self.rs.multivariate_normal(mean, cov)

    def exponential(self, scale):
        return self.rs.exponential(scale)

    def uniform(self, *a):
        v = self.rs.uniform(*a)
        if not a:
            self.us.append(float(v))
        return v


def mis_from_moments(y, m, S, gamma, adj):
    """published R-BSL-M / R-BSL-V log density from the sample moments"""
    m, S, gamma = np.asarray(m, dtype=float), np.atleast_2d(np.asarray(S, dtype=float)), np.asarray(gamma, dtype=float)
    sd = np.sqrt(np.diag(S))
    if adj == 'mean':
        return mvn_logpdf(np.ravel(y), m + sd * gamma, S)
    return mvn_logpdf(np.ravel(y), m, S + np.diag(np.diag(S) * gamma ** 2))


def make_sampler(cap, rows, bound, burn_in=0, rounds=None, acc=0):
    """A BSL object with exactly the attributes _get_mh_ratio/_process_simulated/_init_round touch."""
    from elfi.methods.inference.bsl import BSL
    s = object.__new__(BSL)
    k = len(rows[0][0])
    st = {'n_samples': 0, 'params': np.zeros((cap, k)), 'logprior': np.zeros(cap), 'logposterior': np.zeros(cap),
          'n_sim_round': 7, 'round': 0, 'n_sim': 0, 'n_batches': 0}
    for i, (p, lp, lpo) in enumerate(rows):
        st['params'][i] = p
        st['logprior'][i] = lp
        st['logposterior'][i] = lpo
    s.state = st
    s.logit_transform_bound = None if bound is None else bnd_arr(bound)
    s.is_misspec = False
    s.burn_in = burn_in
    s.num_accepted = acc
    s.objective = {'round': cap if rounds is None else rounds, 'n_batches': cap if rounds is None else rounds}
    s.n_sim_round = 4
    s.computation_context = types.SimpleNamespace(batch_size=4)
    s.sigma_proposals = np.eye(k)
    s.simulated = np.ones((4, 2))
    s.observed = np.ones((1, 2))
    return s


def impl_jac_theta(theta, bound):
    """_jacobian_logit_transform(_para_logit_transform(theta)) through the real static helpers."""
    from elfi.methods.inference.bsl import BSL
    b = bnd_arr(bound)
    return float(BSL._jacobian_logit_transform(BSL._para_logit_transform(np.array(theta, dtype=float), b), b))


# ---- independent recomputation of the published likelihood formulas ----

def mvn_logpdf(y, m, S):
    S = np.atleast_2d(S)
    d = len(m)
    r = np.asarray(y, dtype=float) - m
    sign, logdet = np.linalg.slogdet(S)
    if not (sign > 0 and np.linalg.eigvalsh((S + S.T) / 2).min() > 1e-13 * abs(S).max()):
        return -INF          # not positive definite: no density (scipy raises, the code answers -inf)
    return -0.5 * (d * math.log(2 * math.pi) + logdet + float(r @ np.linalg.solve(S, r)))


def sample_mean_cov(X):
    n = X.shape[0]
    m = X.sum(0) / n
    C = (X - m).T @ (X - m) / (n - 1)
    return m, np.atleast_2d(C)


def log_c(k, nu):
    """log c(k, nu), Ghurye & Olkin (1969)"""
    from scipy.special import gammaln
    return -k * nu / 2 * math.log(2) - k * (k - 1) / 4 * math.log(math.pi) - sum(gammaln(0.5 * (nu - i)) for i in range(k))


def ghurye_olkin(X, y):
    n, d = X.shape
    m, S = sample_mean_cov(X)
    M = (n - 1) * S
    r = (np.asarray(y, dtype=float).reshape(-1) - m).reshape(-1, 1)
    psi = M - r @ r.T / (1 - 1 / n)
    if np.linalg.eigvalsh(psi).min() <= 0:
        return -INF
    return (-0.5 * d * math.log(2 * math.pi) + log_c(d, n - 2) - log_c(d, n - 1) - 0.5 * d * math.log(1 - 1 / n)
            - 0.5 * (n - d - 2) * np.linalg.slogdet(M)[1] + 0.5 * (n - d - 3) * np.linalg.slogdet(psi)[1])


def warton_cov(S, gamma, eps=1e-5):
    dd = np.sqrt(np.diag(S) + eps)
    R = S / np.outer(dd, dd)
    return np.outer(dd, dd) * (gamma * R + (1 - gamma) * np.eye(len(dd)))


def semi_parametric(X, y, gamma=None):
    """An, Nott & Drovandi (2020): sum_j log g_j(y_j) + log Gaussian-copula density at eta_j = Phi^-1(G_j(y_j)),
    g_j Gaussian KDE (Silverman bandwidth), correlation = Gaussian rank correlation (optionally Warton-shrunk)."""
    from scipy.stats import norm, rankdata
    n, d = X.shape
    logg, eta = 0.0, np.zeros(d)
    for j in range(d):
        xs = X[:, j]
        h = xs.std(ddof=1) * (n * 3 / 4.0) ** (-0.2)
        z = (y[j] - xs) / h
        logg += math.log(np.mean(norm.pdf(z)) / h)
        eta[j] = norm.ppf(min(1.0, np.mean(norm.cdf(z))))
    if not np.all(np.isfinite(eta)):
        return -INF
    tail = float(np.min(np.minimum(norm.cdf(eta), norm.sf(eta))))
    if tail < 1e-6:
        return None          # Phi^-1 at 1 - 1e-15 amplifies rounding by 1e9: no meaningful 1e-8 comparison
    q = norm.ppf(rankdata(X, axis=0) / (n + 1))
    den = np.sum(norm.ppf(np.arange(1, n + 1) / (n + 1)) ** 2)
    R = q.T @ q / den
    np.fill_diagonal(R, 1.0)
    if gamma is not None:
        R = gamma * R + (1 - gamma) * np.eye(d)
    if not np.linalg.cond(R) < 1e10:
        return None          # (numerically) singular rank correlation: outside the property's quantifier
    return logg - 0.5 * (np.linalg.slogdet(R)[1] + float(eta @ (np.linalg.inv(R) - np.eye(d)) @ eta))


# ------------------------------------------------------------------------------------------------
# the check
# ------------------------------------------------------------------------------------------------

class C20(PropCheck):
    pid = 'C20'
    header = ('From Coq Require Import List ZArith QArith Bool.\nFrom Elfi Require Import Base.Harness Num.Bsl.\n'
              'Import ListNotations.\nLocal Open Scope Q_scope.\n')
    case_type = 'Bsl.case'
    preds = (('Bsl.agree', 'agree'), ('Bsl.ok', 'ok'))
    chunk = 60
    rule = ('kinds: tf (static transform helpers on points strictly inside mixed bound types; non-trivial = at least one '
            'bounded coordinate), mh (_get_mh_ratio on a constructed state; non-trivial = transform in use with a bounded '
            'coordinate, or the [-700,700] clip active), step (_process_simulated with a stub likelihood; non-trivial = n>=1), '
            'init (_init_round with scripted proposals; non-trivial = at least one out-of-support proposal), lik '
            '(gaussian_syn_likelihood mean/cov plumbing in Coq; non-trivial = whitening or shrinkage or d>=2), val '
            '(likelihood values vs independent formulas; all non-trivial), hist (2-4 evaluations of one likelihood re-using the '
            'caller\'s observed / gamma / whitening array objects, layouts own|strided view|matrix row, gamma dtypes f8|f4|i8, '
            'simulated summaries in fresh arrays | one refilled buffer | the same array; all non-trivial), chain (rounds of a '
            'hand-initialised BSL with the real robust likelihood and slice sampler; non-trivial = at least 2 likelihood '
            'evaluations); every kind: the arrays handed to the code are bit-identical afterwards; distinct by full case content')
    trusted = ('translator harness/translate_c20.py (Python ast -> Gallina over R; numpy scalar + - * / log exp read as the real '
               'operations, rounding ignored); its output is additionally evaluated on floats against the real helpers on every tf case',
               'oracles: numpy exp/log/sqrt (recorded calls), scipy multivariate_normal.logpdf, numpy slogdet/solve/eigvalsh, '
               'scipy gammaln/norm/rankdata in the independent likelihood recomputation',
               'BSL objects are built with object.__new__ and only the attributes the three methods read '
               '(the end-to-end sampler does not run under numpy 2)')

    def __init__(self, seed, tier):
        super().__init__(seed, tier)
        self._trees = None
        self._trees_err = None
        self._py_seen = {}

    # -- translator --------------------------------------------------------------------------------
    def gen_translated(self):
        out = os.path.join(COQ, 'Gen', 'C20_Transforms.v')
        try:
            self._trees = translate_c20.generate(REPO, out)
        except Exception as e:
            self._trees_err = str(e)
            # leave no stale translation behind: the theorems must not be re-checked against old text
            with open(out, 'w') as f:
                f.write('(* translation failed: %s *)\n' % str(e).replace('*', 'x'))
            raise

    def trees(self):
        if self._trees is None and self._trees_err is None:
            try:
                self._trees = translate_c20.read_helpers(REPO)
            except Exception as e:
                self._trees_err = str(e)
        return self._trees

    # -- generators --------------------------------------------------------------------------------
    def rand_bound(self, k, unb_ok=True):
        r = self.rng
        bound = []
        for _ in range(k):
            t = r.choice(['0', '0', '1', '2', '3'] if unb_ok else ['0', '1', '2'])
            lo = round(r.uniform(-5, 5), 3)
            hi = lo + round(r.uniform(0.1, 8), 3)
            bound.append([None if t in '13' else lo, None if t in '23' else hi])
        return bound

    def rand_inside(self, ab, edge=False):
        r = self.rng
        a, b = ab
        t = btype(ab)
        fr = r.choice([1e-6, 1e-3]) if edge else r.uniform(0.02, 0.98)
        if t == '0':
            return a + (b - a) * (fr if r.random() < 0.5 or not edge else 1 - fr)
        if t == '1':
            return b - (fr if edge else r.choice([r.uniform(0.01, 3), r.uniform(3, 200)]))
        if t == '2':
            return a + (fr if edge else r.choice([r.uniform(0.01, 3), r.uniform(3, 200)]))
        return r.uniform(-50, 50)

    def gen_tf(self):
        r = self.rng
        k = r.randint(1, 4)
        bound = self.rand_bound(k)
        edge = r.random() < 0.1
        theta = [self.rand_inside(ab, edge) for ab in bound]
        self.bump('tf:types=' + ''.join(sorted(set(btype(ab) for ab in bound))))
        return dict(kind='tf', bound=bound, theta=theta, edge=edge)

    def gen_mh(self):
        r = self.rng
        use_tr = r.random() < 0.75
        k = r.randint(1, 3)
        bound = self.rand_bound(k) if use_tr else None
        bb = bound or [[None, None]] * k
        p_new = [self.rand_inside(ab) for ab in bb]
        p_prev = p_new if r.random() < 0.05 else [self.rand_inside(ab) for ab in bb]
        lp_prev = r.uniform(-50, 5)
        mode = r.choice(['small', 'small', 'small', 'up', 'down', 'big'])
        delta = {'small': r.uniform(-4, 4), 'up': r.uniform(5, 60), 'down': -r.uniform(5, 690),
                 'big': r.choice([-1, 1]) * r.uniform(690, 3000)}[mode]
        self.bump('mh:%s:%s' % ('tr' if use_tr else 'plain', mode))
        n = r.randint(1, 3)
        return dict(kind='mh', bound=bound, p_new=p_new, p_prev=p_prev, lpost_new=lp_prev + delta, lpost_prev=lp_prev,
                    lprior_prev=r.uniform(-3, 0), n=n)

    def gen_step(self):
        r = self.rng
        use_tr = r.random() < 0.7
        k = r.randint(1, 3)
        bound = self.rand_bound(k) if use_tr else None
        bb = bound or [[None, None]] * k
        n = r.choice([0, 1, 1, 2, 3])
        rows = []
        for _ in range(n):
            rows.append([[self.rand_inside(ab) for ab in bb], r.uniform(-3, 0), r.uniform(-30, 0)])
        cand = [self.rand_inside(ab) for ab in bb]
        lp = r.uniform(-3, 0)
        mode = r.choice(['small', 'small', 'up', 'down'])
        base = rows[-1][2] if rows else -5.0
        loglik = base - lp + {'small': r.uniform(-3, 3), 'up': r.uniform(3, 800), 'down': -r.uniform(3, 800)}[mode]
        u = r.random()
        if n and r.random() < 0.3:
            # put u next to the acceptance probability
            lj = (spec_logjac_theta(cand, bound) - spec_logjac_theta(rows[-1][0], bound)) if use_tr else 0.0
            pr = min(1.0, math.exp(max(-700.0, min(700.0, lj + loglik + lp - rows[-1][2]))))
            u = min(0.999999, max(0.0, pr * r.choice([1 - 1e-3, 1 + 1e-3, 0.5, 1.5])))
        burn = r.choice([0, 0, 1, 2, 5])
        self.bump('step:n=%d:%s:%s' % (min(n, 2), 'tr' if use_tr else 'plain', mode))
        return dict(kind='step', bound=bound, rows=rows, cand=cand, lprior=lp, loglik=loglik, u=u, burn_in=burn,
                    cap=n + r.randint(1, 3), acc=r.randint(0, n))

    def gen_init(self):
        r = self.rng
        use_tr = r.random() < 0.6
        k = r.randint(1, 2)
        bound = self.rand_bound(k, unb_ok=True) if use_tr else None
        bb = bound or [[None, None]] * k
        n = r.randint(1, 3)
        rows = [[[self.rand_inside(ab) for ab in bb], -0.5, r.uniform(-30, 0)] for _ in range(n)]
        last = rows[-1][0]
        # prior support: a box around the last point (always contains it)
        lo = [x - r.uniform(0.2, 2) for x in last]
        hi = [x + r.uniform(0.2, 2) for x in last]
        cap = n + r.randint(1, 5)
        pat = r.choice(['mixed', 'mixed', 'all_out', 'first_in'])
        m = cap - n + 2
        draws = []
        from elfi.methods.inference.bsl import BSL
        tl = [float(t) for t in BSL._para_logit_transform(np.array(last), bnd_arr(bb))] if use_tr else list(last)
        for j in range(m):
            inside = {'mixed': r.random() < 0.35, 'all_out': False, 'first_in': j == 0}[pat]
            if inside:
                draws.append([t + r.uniform(-0.02, 0.02) for t in tl])
            else:
                draws.append([t + r.choice([-1, 1]) * r.uniform(6, 12) for t in tl])
        self.bump('init:%s:%s' % ('tr' if use_tr else 'plain', pat))
        return dict(kind='init', bound=bound, rows=rows, cap=cap, rounds=cap + r.randint(0, 3), draws=draws,
                    prior_lo=lo, prior_hi=hi, prior_value=-0.5)

    def gen_lik(self):
        r = self.rng
        d = r.choice([1, 2, 2, 3])
        n = r.randint(d + 2, d + 5)
        q = lambda s, m: r.randint(-m * s, m * s) / float(s)
        A = [[q(8, 2) for _ in range(d)] for _ in range(d)]
        X = []
        for _ in range(n):
            z = [q(16, 3) for _ in range(d)]
            X.append([sum(A[i][j] * z[j] for j in range(d)) + z[i] for i in range(d)])
        y = [q(16, 2) for _ in range(d)]
        W = None
        if d >= 2 and r.random() < 0.5:
            W = [[q(8, 2) + (1.0 if i == j else 0.0) for j in range(d)] for i in range(d)]
        pen = r.choice([None, None, 0.0, 0.25, 0.5, 0.9, 1.0])
        self.bump('lik:d=%d:%s:%s' % (d, 'W' if W else '-', 'warton' if pen is not None else '-'))
        return dict(kind='lik', X=X, y=y, W=W, penalty=pen)

    def gen_val(self):
        r = self.rng
        mode = r.choice(['std', 'std', 'whiten', 'warton', 'whiten+warton', 'go', 'go', 'go_far', 'mis_mean', 'mis_var', 'semi',
                         'semi_warton'])
        d = r.choice([1, 2, 3, 4, 6])
        n = r.randint(d + 4, d + 60)
        nr = np.random.RandomState(r.randrange(2 ** 31))
        X = nr.randn(n, d) @ (np.eye(d) + 0.5 * nr.randn(d, d)) + 3 * nr.randn(d)
        y = X.mean(0) + nr.randn(d) * X.std(0) * (r.choice([0.2, 1.0, 2.0]) if 'semi' not in mode else r.choice([0.2, 0.7]))
        if mode == 'go_far':
            y = X.mean(0) + r.choice([20, 50, 300]) * X.std(0)
        c = dict(kind='val', mode=mode, X=X.tolist(), y=y.tolist(), obs_2d=r.random() < 0.5)
        if 'whiten' in mode:
            c['W'] = (np.eye(d) + 0.4 * nr.randn(d, d)).tolist()
        if 'warton' in mode:
            c['penalty'] = r.choice([0.0, 0.1, 0.5, 0.9, 1.0])
        if mode.startswith('mis'):
            c['gamma'] = np.abs(nr.randn(d)).tolist()
        self.bump('val:%s:d=%d' % (mode, d))
        return c

    HIST_COQ = ('std', 'whiten', 'warton', 'whiten+warton', 'mis_mean', 'mis_var')

    def dyadic_summaries(self, n, d, scales=None, W=None):
        """n x d matrix of small dyadic rationals (exact in Q without big terms) with a well-conditioned covariance
        (also after whitening with W): the property quantifies over non-singular covariances, and a 1e-8 comparison of
        log densities is meaningless on ill-conditioned ones"""
        r = self.rng
        q = lambda s, m: r.randint(-m * s, m * s) / float(s)
        for _ in range(50):
            A = [[q(8, 2) for _ in range(d)] for _ in range(d)]
            X = []
            for _ in range(n):
                z = [q(16, 3) for _ in range(d)]
                X.append([(sum(A[i][j] * z[j] for j in range(d)) + z[i]) * (scales[i] if scales else 1.0) for i in range(d)])
            C = np.atleast_2d(np.cov(np.array(X), rowvar=False))
            Cw = C if W is None else np.array(W) @ C @ np.array(W).T
            if np.all(np.diag(C) > 1e-3) and np.linalg.cond(C) < 1e5 and np.all(np.diag(Cw) > 1e-3) and np.linalg.cond(Cw) < 1e5:
                return X
        raise RuntimeError('no well-conditioned dyadic matrix found')

    def gen_hist(self):
        """a history of K evaluations of ONE likelihood in which the caller re-uses its observed / gamma / whitening
        array objects (BSL hands gamma_sampler_state['gamma'], self.observed and self.simulated to the likelihood at
        every round)"""
        r = self.rng
        mode = r.choice(['std', 'whiten', 'warton', 'whiten+warton', 'go', 'mis_mean', 'mis_mean', 'mis_var', 'mis_var', 'semi',
                         'semi_warton'])
        small = mode in self.HIST_COQ and r.random() < 0.6
        K = r.randint(2, 4)
        d1_ok = mode in ('std', 'warton', 'go')          # the other modes raise at d = 1 (known findings, kind val)
        xbuf = r.choice(['fresh', 'fresh', 'buffer', 'buffer', 'same'])
        nX = 1 if xbuf == 'same' else K
        c = dict(kind='hist', mode=mode, coq=small, xbuf=xbuf, K=K, obs_2d=r.random() < 0.5,
                 y_layout=r.choice(['own', 'own', 'view', 'row']), g_layout=r.choice(['own', 'own', 'view', 'row']),
                 x_order=r.choice(['C', 'C', 'F']), g_dtype='f8')
        if small:
            d = r.choice([1, 2, 2, 3] if d1_ok else [2, 2, 3])
            n = r.randint(d + 3, d + 6)
            q = lambda s_, m: r.randint(-m * s_, m * s_) / float(s_)
            if 'whiten' in mode:
                c['W'] = [[q(8, 2) + (1.0 if i == j else 0.0) for j in range(d)] for i in range(d)]
                if not np.linalg.cond(np.array(c['W'])) < 50:
                    c['W'] = (np.eye(d) + np.diag([0.5] * (d - 1), 1)).tolist()
            Xs = [self.dyadic_summaries(n, d, [r.choice([0.25, 1.0, 2.0, 4.0]) for _ in range(d)], c.get('W')) for _ in range(nX)]
            y = [q(16, 2) for _ in range(d)]
            if 'warton' in mode:
                c['penalty'] = r.choice([0.0, 0.25, 0.5, 0.9, 1.0])
            if mode == 'mis_mean':
                c['gamma'] = [q(8, 2) for _ in range(d)]
            if mode == 'mis_var':
                c['gamma'] = [abs(q(8, 2)) for _ in range(d)]
        else:
            d = r.choice([1, 2, 3, 4, 6] if d1_ok else [2, 3, 4, 6])
            n = r.randint(d + 4, d + 60)
            nr = np.random.RandomState(r.randrange(2 ** 31))
            Xs = []
            mu = 3 * nr.randn(d)                   # one location for the whole history: y stays in the bulk of every evaluation
            for _ in range(nX):
                sc = np.array([r.choice([0.3, 1.0, 2.0, 5.0]) for _ in range(d)])
                Xs.append((mu + (nr.randn(n, d) @ (np.eye(d) + 0.5 * nr.randn(d, d))) * sc).tolist())
            sd_min = np.min([np.array(x).std(0) for x in Xs], axis=0)
            y = (mu + nr.randn(d) * sd_min * (r.choice([0.2, 1.0, 2.0]) if 'semi' not in mode else r.choice([0.2, 0.5]))).tolist()
            if 'whiten' in mode:
                W = np.eye(d) + 0.4 * nr.randn(d, d)
                c['W'] = (W if np.linalg.cond(W) < 100 else np.eye(d) + np.diag([0.5] * (d - 1), 1)).tolist()
            if 'warton' in mode:
                c['penalty'] = r.choice([0.0, 0.1, 0.5, 0.9, 1.0])
            if mode.startswith('mis'):
                c['g_dtype'] = r.choice(['f8', 'f8', 'f8', 'f4', 'i8'])
                if c['g_dtype'] == 'i8':
                    c['gamma'] = [int(r.randint(0 if mode == 'mis_var' else -3, 3)) for _ in range(d)]
                else:
                    g = nr.randn(d) if mode == 'mis_mean' else np.abs(nr.randn(d))
                    c['gamma'] = [float(np.float32(t)) if c['g_dtype'] == 'f4' else float(t) for t in g]
        c.update(Xs=Xs, y=y)
        self.bump('hist:%s:d=%d:K=%d:%s' % (mode, d, K, 'coq' if small else 'py'))
        self.bump('hist:x=%s:order=%s' % (xbuf, c['x_order']))
        self.bump('hist:y=%s%s' % (c['y_layout'], ':2d' if c['obs_2d'] else ''))
        if 'gamma' in c:
            self.bump('hist:gamma=%s:%s' % (c['g_layout'], c['g_dtype']))
        return c

    def gen_chain(self):
        """rounds of a hand-initialised BSL sampler (real _init_state / _resolve_gamma_sampler / _init_round /
        _process_simulated, real robust likelihood, real slice sampler for gamma) on scripted simulations"""
        r = self.rng
        adj = r.choice(['mean', 'variance'])
        d = r.choice([2, 2, 3])
        n_sim = r.randint(d + 3, d + 8)
        R = r.randint(2, 5)
        k = r.randint(1, 2)
        use_tr = r.random() < 0.4
        bound = self.rand_bound(k) if use_tr else None
        bb = bound or [[None, None]] * k
        p0 = [self.rand_inside(ab) for ab in bb]
        lo = [x - r.uniform(0.2, 2) for x in p0]
        hi = [x + r.uniform(0.2, 2) for x in p0]
        q = lambda s_, m: r.randint(-m * s_, m * s_) / float(s_)
        Xs = [self.dyadic_summaries(n_sim, d, [r.choice([0.25, 1.0, 2.0, 4.0]) for _ in range(d)]) for _ in range(R)]
        sig = r.choice([0.05, 0.5, 3.0])
        self.bump('chain:%s:d=%d:R=%d:%s:sigma=%s' % (adj, d, R, 'tr' if use_tr else 'plain', sig))
        return dict(kind='chain', adjustment=adj, Xs=Xs, y=[q(16, 2) for _ in range(d)], R=R, bound=bound, params0=p0,
                    prior_lo=lo, prior_hi=hi, prior_value=-0.5, sigma=sig, tau=r.choice([0.25, 0.5, 1.0]),
                    w=r.choice([0.5, 1.0]), seed=r.randrange(2 ** 31))

    def generate(self):
        scale = 1 if self.tier == 'quick' else 12
        plan = [(self.gen_tf, 300), (self.gen_mh, 180), (self.gen_step, 150), (self.gen_init, 150), (self.gen_lik, 90),
                (self.gen_val, 240), (self.gen_hist, 150), (self.gen_chain, 60)]
        for g, n in plan:
            for _ in range(n * scale):
                yield g()

    # -- implementation drivers ----------------------------------------------------------------------
    def run_impl(self, case):
        return getattr(self, 'run_' + case['kind'])(case)

    def run_tf(self, case):
        from elfi.methods.inference.bsl import BSL
        b = bnd_arr(case['bound'])
        th = np.array(case['theta'], dtype=float)
        snap = Snap(bound=b, theta=th)
        tt = BSL._para_logit_transform(th, b)
        snap.add(theta_tilde=tt)
        back = BSL._para_logit_back_transform(tt, b)
        lj = float(BSL._jacobian_logit_transform(tt, b))
        # per coordinate (1-vectors) for the tree / finite-difference comparisons
        per = []
        for i in range(len(th)):
            bi = b[i:i + 1]
            yi = float(tt[i])
            h = 1e-5 * max(1.0, abs(yi))
            up = float(BSL._para_logit_back_transform(np.array([yi + h]), bi)[0])
            dn = float(BSL._para_logit_back_transform(np.array([yi - h]), bi)[0])
            per.append(dict(y=yi, logJ=float(BSL._jacobian_logit_transform(np.array([yi]), bi)), fd=(up - dn) / (2 * h)))
        return dict(tilde=[float(t) for t in tt], back=[float(t) for t in back], logJ=lj, per=per, mutated=snap.changed())

    def run_mh(self, case):
        import elfi.methods.inference.bsl as bslmod
        n = case['n']
        rows = [[case['p_prev'], case['lprior_prev'], case['lpost_prev']]] * n + [[case['p_new'], -1.0, case['lpost_new']]]
        s = make_sampler(n + 2, rows, case['bound'])
        s.state['n_samples'] = n
        px = NpProxy()
        bslmod.np = px
        snap = Snap(bound=s.logit_transform_bound, params=s.state['params'], logprior=s.state['logprior'],
                    logposterior=s.state['logposterior'])
        try:
            ratio = float(s._get_mh_ratio())
        finally:
            bslmod.np = np
        arg, val = px.calls[-1]
        out = dict(ratio=ratio, exp_arg=float(arg), exp_val=float(val), mutated=snap.changed())
        if case['bound'] is not None:
            out['jac_impl'] = [impl_jac_theta(case['p_new'], case['bound']), impl_jac_theta(case['p_prev'], case['bound'])]
            out['jac_spec'] = [spec_logjac_theta(case['p_new'], case['bound']), spec_logjac_theta(case['p_prev'], case['bound'])]
        else:
            out['jac_impl'] = out['jac_spec'] = [0.0, 0.0]
        return out

    def run_step(self, case):
        import elfi.methods.inference.bsl as bslmod
        rows = case['rows'] + [[case['cand'], case['lprior'], 0.0]]
        n = len(case['rows'])
        s = make_sampler(case['cap'], rows, case['bound'], burn_in=case['burn_in'], acc=case['acc'])
        s.state['n_samples'] = n
        s.likelihood = lambda ssx, ssy, _v=case['loglik']: _v
        s.random_state = ScriptedRandom(us=[case['u']])
        px = NpProxy()
        bslmod.np = px
        snap = Snap(bound=s.logit_transform_bound, simulated=s.simulated, observed=s.observed, sigma_proposals=s.sigma_proposals)
        try:
            s._process_simulated()
        finally:
            bslmod.np = np
        out = dict(mutated=snap.changed(), row=[[float(t) for t in s.state['params'][n]], float(s.state['logprior'][n]), float(s.state['logposterior'][n])],
                   acc=int(s.num_accepted), n_samples=int(s.state['n_samples']),
                   earlier_untouched=bool(all(list(s.state['params'][i]) == list(case['rows'][i][0])
                                              and s.state['logprior'][i] == case['rows'][i][1]
                                              and s.state['logposterior'][i] == case['rows'][i][2] for i in range(n))),
                   uniform_draws_used=1 - len(s.random_state.us))
        if n:
            arg, val = px.calls[-1]
            out['exp_arg'], out['exp_val'] = float(arg), float(val)
            prev = case['rows'][-1][0]
            if case['bound'] is not None:
                out['jac_impl'] = [impl_jac_theta(case['cand'], case['bound']), impl_jac_theta(prev, case['bound'])]
                out['jac_spec'] = [spec_logjac_theta(case['cand'], case['bound']), spec_logjac_theta(prev, case['bound'])]
            else:
                out['jac_impl'] = out['jac_spec'] = [0.0, 0.0]
        return out

    def run_init(self, case):
        n = len(case['rows'])
        s = make_sampler(case['cap'], case['rows'], case['bound'], rounds=case['rounds'])
        s.state['n_samples'] = n
        s.prior = BoxPrior(case['prior_lo'], case['prior_hi'], case['prior_value'])
        s.random_state = ScriptedRandom(draws=case['draws'])
        sims = []
        s.prepare_new_batch = lambda *a, **k: sims.append(1)      # never called by _init_round; recorded if it were
        snap = Snap(bound=s.logit_transform_bound, simulated=s.simulated, observed=s.observed, sigma_proposals=s.sigma_proposals)
        s._init_round()
        n2 = int(s.state['n_samples'])
        started = bool(s.state['n_sim_round'] == 0)
        rows = [[[float(t) for t in s.state['params'][i]], float(s.state['logprior'][i]), float(s.state['logposterior'][i])]
                for i in range(n2)]
        cand = None
        if n2 < case['cap']:
            cand = [[float(t) for t in s.state['params'][n2]], float(s.state['logprior'][n2])]
        return dict(rows=rows, cand=cand, rounds=int(s.objective['round']), n_batches=int(s.objective['n_batches']),
                    consumed=len(s.prior.seen), started=started, proposals=s.prior.seen, means=s.random_state.means,
                    draws_used=len(case['draws']) - len(s.random_state.draws), sims=len(sims), mutated=snap.changed())

    def _lik_call(self, fn, *a, **k):
        import elfi.methods.bsl.pdf_methods as pm
        px = SsProxy()
        old = pm.ss
        pm.ss = px
        try:
            v = fn(*a, **k)
        finally:
            pm.ss = old
        return v, px.calls

    def run_lik(self, case):
        import elfi.methods.bsl.pdf_methods as pm
        X = np.array(case['X'], dtype=float)
        y = np.array(case['y'], dtype=float)
        kw = {}
        if case['W'] is not None:
            kw['whitening'] = np.array(case['W'], dtype=float)
        if case['penalty'] is not None:
            kw.update(shrinkage='warton', penalty=case['penalty'])
        snap = Snap(ssx=X, ssy=y, whitening=kw.get('whitening'))
        v, calls = self._lik_call(pm.gaussian_syn_likelihood, X, y, **kw)
        assert len(calls) == 1
        yy, m, C = calls[0]
        out = dict(mutated=snap.changed(), loglik=float(np.asarray(v).reshape(-1)[0]), y=np.atleast_1d(yy).tolist(), mean=np.atleast_1d(m).tolist(),
                   cov=np.atleast_2d(C).tolist())
        if case['penalty'] is not None:
            Xw = X @ np.array(case['W']).T if case['W'] is not None else X
            S = np.atleast_2d(np.cov(Xw, rowvar=False))
            out['sqrt_diag'] = [float(t) for t in np.sqrt(np.diag(S + 1e-5))]
        return out

    def run_val(self, case):
        import elfi.methods.bsl.pdf_methods as pm
        X = np.array(case['X'], dtype=float)
        y = np.array(case['y'], dtype=float)
        yo = y.reshape(1, -1) if case.get('obs_2d') else y
        mode = case['mode']
        gam = np.array(case['gamma'], dtype=float) if 'gamma' in case else None
        snap = Snap(ssx=X, ssy=yo, gamma=gam)
        try:
            if mode in ('std', 'whiten', 'warton', 'whiten+warton'):
                kw = {}
                if 'W' in case:
                    kw['whitening'] = np.array(case['W'])
                    snap.add(whitening=kw['whitening'])
                if 'penalty' in case:
                    kw.update(shrinkage='warton', penalty=case['penalty'])
                v = pm.gaussian_syn_likelihood(X, yo, **kw)
            elif mode in ('go', 'go_far'):
                v = pm.gaussian_syn_likelihood_ghurye_olkin(X, yo)
            elif mode == 'mis_mean':
                v = pm.syn_likelihood_misspec(X, yo, gam, 'mean')
            elif mode == 'mis_var':
                v = pm.syn_likelihood_misspec(X, yo, gam, 'variance')
            elif mode == 'semi':
                v, _ = self._lik_call(pm.semi_param_kernel_estimate, X, yo)
            elif mode == 'semi_warton':
                v, _ = self._lik_call(pm.semi_param_kernel_estimate, X, yo, shrinkage='warton', penalty=case['penalty'])
            else:
                raise ValueError(mode)
        except Exception as e:      # a likelihood that raises has no value: reported by py_val
            return dict(loglik=None, raised='%s: %s' % (type(e).__name__, e), mutated=snap.changed())
        return dict(loglik=float(np.asarray(v).reshape(-1)[0]), mutated=snap.changed())

    def run_hist(self, case):
        import elfi.methods.bsl.pdf_methods as pm
        mode, K = case['mode'], case['K']
        d = len(case['y'])
        y, y_base = lay_out(case['y'], case['y_layout'])
        yo = y[None, :] if case.get('obs_2d') else y
        arrs = dict(ssy=yo, ssy_base=y_base)
        kw = {}
        if 'W' in case:
            kw['whitening'] = np.array(case['W'], dtype=float)
        if 'penalty' in case:
            kw.update(shrinkage='warton', penalty=case['penalty'])
        if 'gamma' in case:
            gam, g_base = lay_out(case['gamma'], case['g_layout'], dtype={'f8': np.float64, 'f4': np.float32, 'i8': np.int64}[case['g_dtype']])
            arrs.update(gamma=gam, gamma_base=g_base)
        arrs.update(whitening=kw.get('whitening'))
        if mode in ('std', 'whiten', 'warton', 'whiten+warton'):
            fn = lambda X: pm.gaussian_syn_likelihood(X, yo, **kw)
        elif mode == 'go':
            fn = lambda X: pm.gaussian_syn_likelihood_ghurye_olkin(X, yo)
        elif mode in ('mis_mean', 'mis_var'):
            lik = pm.robust_likelihood({'mis_mean': 'mean', 'mis_var': 'variance'}[mode])
            fn = lambda X: lik(X, yo, gamma=gam)          # the way BSL._process_simulated calls it
        elif mode in ('semi', 'semi_warton'):
            fn = lambda X: pm.semi_param_kernel_estimate(X, yo, **kw)
        else:
            raise ValueError(mode)
        Xs = [np.array(x, dtype=float, order=case['x_order']) for x in case['Xs']]
        buf = np.zeros_like(Xs[0], order=case['x_order'])
        vals, raised, mutated, args, sds = [], [], [], [], []
        for k in range(K):
            if case['xbuf'] == 'buffer':
                buf[...] = Xs[k]
                X = buf
            elif case['xbuf'] == 'same':
                X = Xs[0]
            else:
                X = Xs[k]
            Xk = np.array(X, dtype=float)
            snap = Snap(ssx=X, **arrs)
            try:
                v, calls = self._lik_call(fn, X)
                vals.append(float(np.asarray(v).reshape(-1)[0]))
                raised.append(None)
            except Exception as e:
                v, calls = None, []
                vals.append(None)
                raised.append('%s: %s' % (type(e).__name__, e))
            mutated.extend('%s (evaluation %d of %d)' % (nm, k + 1, K) for nm in snap.changed())
            args.append([np.atleast_1d(calls[0][0]).tolist(), np.atleast_1d(calls[0][1]).tolist(), np.atleast_2d(calls[0][2]).tolist()]
                        if len(calls) == 1 else None)
            # oracle square roots for the model (of the summaries of THIS evaluation)
            Xw = Xk @ np.array(case['W']).T if 'W' in case else Xk
            S = np.atleast_2d(np.cov(Xw, rowvar=False))
            sds.append([float(t) for t in (np.sqrt(np.diag(S + 1e-5)) if 'penalty' in case else np.sqrt(np.diag(S)))])
        return dict(vals=vals, raised=raised, mutated=mutated, args=args, sd=sds)

    def run_chain(self, case):
        import elfi.methods.bsl.pdf_methods as pm
        from elfi.methods.inference.bsl import BSL
        adj, R = case['adjustment'], case['R']
        y = np.array(case['y'], dtype=float)
        d, k = len(y), len(case['params0'])
        Xs = [np.array(x, dtype=float) for x in case['Xs']]
        s = object.__new__(BSL)
        s.state, s.objective = {}, {}
        s.param_names = ['p%d' % i for i in range(k)]
        s.prior = BoxPrior(case['prior_lo'], case['prior_hi'], case['prior_value'])
        s.is_misspec = True
        s.likelihood = pm.robust_likelihood(adj)
        s.observed = y.reshape(1, d).copy()
        s.simulated = np.zeros_like(Xs[0])
        s.n_sim_round = Xs[0].shape[0]
        s.computation_context = types.SimpleNamespace(batch_size=Xs[0].shape[0])
        s.random_state = RecRandom(case['seed'])
        s.sigma_proposals = case['sigma'] * np.eye(k)
        s.burn_in = 0
        s.logit_transform_bound = None if case['bound'] is None else bnd_arr(case['bound'])
        s.gamma_sampler_state = {}
        s.gamma_sampler, gamma0 = s._resolve_gamma_sampler(case['tau'], case['w'], 1000)
        s._init_state(R, np.array(case['params0'], dtype=float), gamma0)
        s.set_objective(R)
        real, liks = s.likelihood, []

        def lik(ssx, ssy, gamma):
            rec = dict(gamma_in=np.array(gamma, copy=True).tolist(), n=int(s.state['n_samples']))
            snap = Snap(gamma=gamma, ssx=ssx, ssy=ssy)
            v = real(ssx, ssy, gamma=gamma)
            rec.update(val=float(v), mutated=snap.changed())
            liks.append(rec)
            return v
        s.likelihood = lik

        def gss():
            g = s.gamma_sampler_state
            return dict(gamma=np.array(g['gamma'], dtype=float).tolist(), loglik=float(g['loglik']) if 'loglik' in g else None,
                        sample_mean=np.array(g['sample_mean']).tolist() if 'sample_mean' in g else None,
                        sample_cov=np.array(g['sample_cov']).tolist() if 'sample_cov' in g else None)
        px = SsProxy()
        old, pm.ss = pm.ss, px
        rounds, mutated = [], []
        try:
            xi = 0
            while s.state['n_samples'] < R and xi < len(Xs):
                n = int(s.state['n_samples'])
                s.simulated[:] = Xs[xi]
                rec = dict(n=n, x=xi, gamma_on_record=s.state['gamma'][n].tolist(), cand=s.state['params'][n].tolist(),
                           lprior=float(s.state['logprior'][n]), acc0=int(s.num_accepted), n_lik=len(liks), n_u=len(s.random_state.us),
                           prev=None if n == 0 else [s.state['params'][n - 1].tolist(), float(s.state['logprior'][n - 1]),
                                                     float(s.state['logposterior'][n - 1])])
                xi += 1
                snap = Snap(observed=s.observed, simulated=s.simulated, sigma_proposals=s.sigma_proposals, bound=s.logit_transform_bound)
                s._process_simulated()
                mutated.extend('%s (round %d)' % (nm, n) for nm in snap.changed())
                rec.update(accepted=int(s.num_accepted) - rec['acc0'], us=s.random_state.us[rec['n_u']:],
                           row=[s.state['params'][n].tolist(), float(s.state['logprior'][n]), float(s.state['logposterior'][n])],
                           gamma_row_after=s.state['gamma'][n].tolist(), after=gss(), n_after=int(s.state['n_samples']))
                s.state['round'] += 1                       # what ModelBased.update does around _process_simulated
                if s.state['round'] < s.objective['round']:
                    s._init_round()
                    n2 = int(s.state['n_samples'])
                    m = min(n2, R - 1)                      # the last row _init_round wrote a gamma to
                    rec['init'] = dict(n=n2, m=m, gss=gss(), gamma_row=s.state['gamma'][m].tolist(),
                                       lpost_prev=float(s.state['logposterior'][m - 1]), lprior_prev=float(s.state['logprior'][m - 1]))
                rounds.append(rec)
        finally:
            pm.ss = old
        for l in liks:
            mutated.extend('%s (likelihood call in round %d)' % (nm, l['n']) for nm in l['mutated'])
        args = [[np.atleast_1d(a).tolist(), np.atleast_1d(b).tolist(), np.atleast_2d(c).tolist()] for a, b, c in px.calls]
        sds = [[float(t) for t in np.sqrt(np.diag(np.cov(Xs[r_['x']], rowvar=False)))] for r_ in rounds]
        return dict(rounds=rounds, liks=liks, args=args, sd=sds, mutated=mutated)

    # -- python-side clauses ---------------------------------------------------------------------------
    def py_check(self, case, out):
        """common.run_check prints one VIOLATION per distinct detail text: after the first two failures of a
        clause the text is constant, so a systematic break gives a handful of replays, not hundreds."""
        res = []
        found = list(getattr(self, 'py_' + case['kind'])(case, out))
        if out.get('mutated'):
            # purity: the statement is about VALUES of functions of the summaries / parameters; a call that writes to the
            # caller's arrays changes what the next evaluation (same objects, as in BSL's sampler) is computed from
            found.insert(0, ('inputs_unchanged', '%s case: the caller\'s array(s) %s were modified by the call'
                             % (case['kind'], ', '.join(str(m) for m in out['mutated']))))
        for clause, msg in found:
            k = (clause, self.classify(case, out, clause))      # known findings do not use up the detailed slots
            c = self._py_seen.get(k, 0)
            self._py_seen[k] = c + 1
            res.append((clause, msg if c < 2 else 'further failing case of this clause (details in its first replays)'))
        return res

    @staticmethod
    def _close(a, b, rel, ab=0.0):
        if a == b:
            return True
        if not (math.isfinite(a) and math.isfinite(b)):
            return False
        return abs(a - b) <= ab + rel * (1 + max(abs(a), abs(b)))

    def py_tf(self, case, out):
        bad = []
        bound, th = case['bound'], case['theta']
        rt = 1e-9 if not case.get('edge') else 1e-6
        for i, ab in enumerate(bound):
            a, b = ab
            if not self._close(out['back'][i], th[i], rt):
                bad.append(('round_trip', 'coordinate %d (type %s): back(trans(x)) = %r, x = %r' % (i, btype(ab), out['back'][i], th[i])))
            lo, hi = (-INF if a is None else a), (INF if b is None else b)
            if not (lo <= out['back'][i] <= hi):
                bad.append(('range', 'coordinate %d: back-transform %r outside [%r, %r]' % (i, out['back'][i], lo, hi)))
            per = out['per'][i]
            # log-Jacobian = log of the derivative of the back-transform (central finite difference of the real function)
            if not (per['fd'] > 0 and self._close(per['logJ'], math.log(per['fd']), 1e-5)):
                bad.append(('logJ_is_log_derivative', 'coordinate %d (type %s, bounds %r): logJ(y=%r) = %r but log of the '
                            'finite-difference derivative of _para_logit_back_transform is %r'
                            % (i, btype(ab), ab, per['y'], per['logJ'], math.log(per['fd']) if per['fd'] > 0 else None)))
            tr = self.trees()
            if tr is not None:
                env = dict(a=0.0 if a is None else a, b=0.0 if b is None else b, x=th[i], y=per['y'])
                t = btype(ab)
                for nm, got in (('trans', out['tilde'][i]), ('back', out['back'][i]), ('logJ', per['logJ'])):
                    try:
                        want = translate_c20.evaluate(tr[nm][t], env)
                    except (ValueError, ZeroDivisionError, OverflowError) as e:
                        want = float('nan')
                    if not self._close(got, want, 1e-12):
                        bad.append(('translated_text', '%s type %s: function gives %r, translated expression %r' % (nm, t, got, want)))
        if not self._close(out['logJ'], spec_logjac_theta(th, bound), 1e-7 if not case.get('edge') else 1e-4):
            bad.append(('logJ_closed_form', 'logJ(trans(theta)) = %r, change-of-variables value %r' % (out['logJ'], spec_logjac_theta(th, bound))))
        if not self._close(out['logJ'], sum(p['logJ'] for p in out['per']), 1e-12):
            bad.append(('logJ_sum', 'vector log-Jacobian is not the sum of the coordinates\''))
        return bad[:3]

    def py_mh(self, case, out):
        lj = out['jac_spec'][0] - out['jac_spec'][1]
        r = lj + case['lpost_new'] - case['lpost_prev']
        want = math.exp(max(-700.0, min(700.0, r)))
        if not self._close(out['ratio'], want, 1e-7 * (1 + abs(r)) if abs(r) < 700 else 1e-9, 0.0) and \
                not abs(out['ratio'] - want) <= 1e-7 * want * (1 + abs(r)):
            return [('mh_ratio', '_get_mh_ratio = %r, exp(clip(dlogpost + dlogJ)) = %r' % (out['ratio'], want))]
        return []

    def py_step(self, case, out):
        bad = []
        if not out['earlier_untouched']:
            bad.append(('rows_untouched', 'an earlier chain row changed'))
        if len(case['rows']) == 0 and out['uniform_draws_used'] != 0:
            bad.append(('n0_no_draw', 'a uniform was drawn on the initialisation round'))
        if len(case['rows']) > 0 and out['uniform_draws_used'] != 1:
            bad.append(('one_uniform', 'expected exactly one uniform draw'))
        return bad

    def py_init(self, case, out):
        from elfi.methods.inference.bsl import BSL
        bad = []
        if out['sims']:
            bad.append(('no_simulation', '_init_round asked for a batch'))
        if out['draws_used'] != out['consumed']:
            bad.append(('one_draw_per_proposal', 'draws %d, prior evaluations %d' % (out['draws_used'], out['consumed'])))
        last = case['rows'][-1][0]
        bb = case['bound']
        for j, ((prop, lp), mean) in enumerate(zip(out['proposals'], out['means'])):
            draw = case['draws'][j]
            if bb is not None:
                want_mean = [float(t) for t in BSL._para_logit_transform(np.array(last), bnd_arr(bb))]
                want_prop = [spec_back(t, ab) for t, ab in zip(draw, bb)]
            else:
                want_mean, want_prop = list(last), list(draw)
            if not all(self._close(a, b, 1e-12) for a, b in zip(mean, want_mean)):
                bad.append(('proposal_mean', 'proposal %d centred at %r, transformed previous state is %r' % (j, mean, want_mean)))
            if not all(self._close(a, b, 1e-9) for a, b in zip(prop, want_prop)):
                bad.append(('proposal_back_transform', 'proposal %d = %r, back-transform of the draw is %r' % (j, prop, want_prop)))
        if out['n_batches'] != out['rounds'] * 1:
            bad.append(('objective_batches', 'n_batches %r for %r rounds' % (out['n_batches'], out['rounds'])))
        return bad[:3]

    def py_lik(self, case, out):
        want = mvn_logpdf(np.array(out['y']), np.array(out['mean']), np.array(out['cov']))
        if not self._close(out['loglik'], want, 1e-8):
            return [('loglik_is_mvn', 'returned %r, normal log density at the recorded mean/cov %r' % (out['loglik'], want))]
        return []

    GAUSS_MODES = ('std', 'whiten', 'warton', 'whiten+warton', 'mis_mean', 'mis_var')

    @staticmethod
    def spec_gauss_args(case):
        """(y, mean, covariance) of the normal density the published formula of a Gaussian-family likelihood evaluates"""
        X = np.array(case['X'], dtype=float)
        y = np.array(case['y'], dtype=float)
        mode = case['mode']
        if mode in ('std', 'whiten', 'warton', 'whiten+warton'):
            if 'W' in case:
                W = np.array(case['W'])
                X, y = X @ W.T, W @ y
            m, S = sample_mean_cov(X)
            if 'penalty' in case:
                S = warton_cov(S, 1 - case['penalty'])
            return y, m, S
        m, S = sample_mean_cov(X)
        sd = np.sqrt(np.diag(S))
        if mode == 'mis_mean':
            return y, m + sd * np.array(case['gamma'], dtype=float), S
        if mode == 'mis_var':
            return y, m, S + np.diag((sd * np.array(case['gamma'], dtype=float)) ** 2)
        raise ValueError(mode)

    def spec_slack(self, case):
        """absolute rounding allowance of a binary64 evaluation of the normal log density: the quadratic form
        r' S^-1 r is only determined up to about cond(S) * eps * its size.  Negligible against the 1e-8 tolerance for
        well-conditioned covariances; without it a nearly singular sample covariance (cond 1e7 and more, outside the
        property's quantifier) raises a false alarm."""
        if case['mode'] not in self.GAUSS_MODES:
            return 0.0
        try:
            y, m, S = self.spec_gauss_args(case)
            r = y - m
            quad = abs(float(r @ np.linalg.solve(S, r)))
            c = float(np.linalg.cond(S))
        except Exception:
            return 0.0
        v = 4 * c * 2.2e-16 * (quad + len(y))
        return v if math.isfinite(v) else 0.0

    def spec_val(self, case):
        X = np.array(case['X'], dtype=float)
        y = np.array(case['y'], dtype=float)
        mode = case['mode']
        if mode in self.GAUSS_MODES:
            args = self.spec_gauss_args(case)
            # scipy refuses a covariance whose smallest eigenvalue is below 1e6 eps times the largest ("must be symmetric
            # positive definite"); ELFI then logs "poor sample cov" and returns -inf by convention.  Such nearly singular
            # sample covariances are outside the quantifier: counted, not compared (margin of 100 around scipy's threshold)
            try:
                ev = np.linalg.eigvalsh(np.atleast_2d(np.asarray(args[2], dtype=float)))
                if not np.all(np.isfinite(ev)) or ev.min() <= 1e8 * np.finfo(float).eps * max(abs(ev.max()), abs(ev.min())):
                    self.bump('val:gauss:nearly-singular-covariance-not-compared')
                    return None
            except Exception:
                return None
            return mvn_logpdf(*args)
        if mode in ('go', 'go_far'):
            return ghurye_olkin(X, y)
        if mode == 'semi':
            return semi_parametric(X, y)
        if mode == 'semi_warton':
            return semi_parametric(X, y, 1 - case['penalty'])
        raise ValueError(mode)

    def py_val(self, case, out):
        want = self.spec_val(case)
        if want is None:
            self.bump('val:semi:ill-conditioned-or-singular-not-compared')
            return []
        if out['loglik'] is None:
            return [('likelihood_formula[%s]' % case['mode'],
                     '%s, n=%d, d=%d: raised %s, published formula gives %r' % (case['mode'], len(case['X']), len(case['y']),
                                                                               out['raised'], want))]
        if not self._close(out['loglik'], want, 1e-8, self.spec_slack(case)):
            d = len(case['y'])
            return [('likelihood_formula[%s]' % case['mode'],
                     '%s, n=%d, d=%d: returned %r, published formula %r' % (case['mode'], len(case['X']), d, out['loglik'], want))]
        return []

    def py_hist(self, case, out):
        bad = []
        K, mode = case['K'], case['mode']
        for k in range(K):
            sub = dict(case, X=case['Xs'][0 if case['xbuf'] == 'same' else k])
            want = self.spec_val(sub)
            if want is None:
                self.bump('val:semi:ill-conditioned-or-singular-not-compared')
                continue
            want = float(want)
            got = out['vals'][k]
            if got is None or not self._close(got, want, 1e-8, self.spec_slack(sub)):
                bad.append(('history_value[%s]' % mode,
                            '%s, d=%d: evaluation %d of %d on the same observed/gamma/whitening arrays %s, the published formula '
                            'for the values the caller put into these arrays gives %r'
                            % (mode, len(case['y']), k + 1, K, 'raised ' + str(out['raised'][k]) if got is None else 'returned %r' % got,
                               want)))
                break
        if case['xbuf'] == 'same' and len(set(map(repr, out['vals']))) != 1:
            bad.append(('repeat_identical', 'the same call on the same arrays gave different values: %r' % (out['vals'],)))
        return bad

    def py_chain(self, case, out):
        bad = []
        adj = case['adjustment']
        y = np.array(case['y'], dtype=float)
        mode = {'mean': 'mis_mean', 'variance': 'mis_var'}[adj]

        def coherent(g):
            """the slice sampler's current log-likelihood belongs to its current gamma and moments"""
            if g['loglik'] is None or g['sample_mean'] is None:
                return True, None
            want = float(mis_from_moments(y, g['sample_mean'], g['sample_cov'], g['gamma'], adj))
            return self._close(g['loglik'], want, 1e-8), want
        for rec in out['rounds']:
            n = rec['n']
            if len(out['liks']) <= rec['n_lik'] or out['liks'][rec['n_lik']]['n'] != n:
                bad.append(('round_one_likelihood_call', 'round %d: no likelihood evaluation recorded' % n))
                break
            l = out['liks'][rec['n_lik']]
            g = rec['gamma_on_record']
            if l['gamma_in'] != g:
                bad.append(('round_gamma_on_record', 'round %d: the likelihood was evaluated with gamma %r, the chain records gamma %r '
                            'for this round' % (n, l['gamma_in'], g)))
            sub = dict(mode=mode, X=case['Xs'][rec['x']], y=case['y'], gamma=g)
            want = float(self.spec_val(sub))
            if not self._close(l['val'], want, 1e-8, self.spec_slack(sub)):
                bad.append(('round_likelihood_formula[%s]' % mode, 'round %d: synthetic log-likelihood %r, published formula at the gamma '
                            'on record %r gives %r' % (n, l['val'], g, want)))
            if rec['after']['gamma'] != g or rec['gamma_row_after'] != g:
                bad.append(('sampler_gamma_kept', 'round %d: after _process_simulated the gamma sampler holds %r (chain row: %r), the '
                            'gamma of this round is %r' % (n, rec['after']['gamma'], rec['gamma_row_after'], g)))
            okc, wantc = coherent(rec['after'])
            if not okc:
                bad.append(('sampler_state_coherent', 'round %d: after _process_simulated the gamma sampler state pairs loglik %r with '
                            'gamma %r, whose adjusted log-likelihood at the stored moments is %r' % (n, rec['after']['loglik'],
                                                                                                    rec['after']['gamma'], wantc)))
            # the row written: candidate with loglik + logprior when accepted, the previous row otherwise
            lpost_new = l['val'] + rec['lprior']
            if rec['accepted']:
                if rec['row'] != [rec['cand'], rec['lprior'], lpost_new]:
                    bad.append(('round_row', 'round %d accepted: row %r, expected candidate with log posterior %r' % (n, rec['row'], lpost_new)))
            elif rec['prev'] is None or rec['row'] != rec['prev']:
                bad.append(('round_row', 'round %d rejected: row %r, previous row %r' % (n, rec['row'], rec['prev'])))
            if n == 0 and not (rec['accepted'] and not rec['us']):
                bad.append(('round_accept_rule', 'initialisation round not accepted or drew a uniform'))
            if n > 0 and rec['prev'] is not None:
                lj = 0.0
                if case['bound'] is not None:
                    lj = spec_logjac_theta(rec['cand'], case['bound']) - spec_logjac_theta(rec['prev'][0], case['bound'])
                lr = lj + lpost_new - rec['prev'][2]
                if len(rec['us']) != 1:
                    bad.append(('round_accept_rule', 'round %d: %d uniform draws' % (n, len(rec['us']))))
                elif math.isfinite(lr):
                    prob = min(1.0, math.exp(max(-700.0, min(700.0, lr))))
                    if abs(rec['us'][0] - prob) > 1e-6 * max(prob, 1e-300) * (1 + abs(lr)) and bool(rec['accepted']) != (rec['us'][0] < prob):
                        bad.append(('round_accept_rule', 'round %d: u = %r, acceptance probability %r, accepted = %r'
                                    % (n, rec['us'][0], prob, bool(rec['accepted']))))
            ini = rec.get('init')
            if ini is not None:
                gs = ini['gss']
                if gs['gamma'] != ini['gamma_row']:
                    bad.append(('init_gamma_on_record', 'after _init_round the sampler holds gamma %r, the chain row %d records %r'
                                % (gs['gamma'], ini['m'], ini['gamma_row'])))
                okc, wantc = coherent(gs)
                if not okc:
                    bad.append(('sampler_state_coherent', 'after _init_round (n_samples %d) the gamma sampler state pairs loglik %r with '
                                'gamma %r, whose adjusted log-likelihood at the stored moments is %r' % (ini['n'], gs['loglik'], gs['gamma'], wantc)))
                if gs['loglik'] is not None and ini['lpost_prev'] != gs['loglik'] + ini['lprior_prev']:
                    bad.append(('init_logposterior', 'after _init_round log posterior of row %d is %r, sampler loglik %r + log prior %r'
                                % (ini['m'] - 1, ini['lpost_prev'], gs['loglik'], ini['lprior_prev'])))
        return bad[:4]

    def classify(self, case, out, clause):
        if case['kind'] == 'val' and isinstance(out, dict) and out.get('loglik', 0) is None and len(case['y']) == 1:
            # known: these four modes raise on a single summary statistic; the standard / Warton / Ghurye-Olkin
            # likelihoods must work at d = 1 and get no key
            key = {'mis_mean': 'mis_mean', 'mis_var': 'mis_var', 'semi': 'semi', 'semi_warton': 'semi',
                   'whiten': 'whiten', 'whiten+warton': 'whiten'}.get(case['mode'])
            return None if key is None else 'd1-raises-' + key
        if case['kind'] == 'val' and case['mode'] in ('go', 'go_far') and isinstance(out, dict) and out.get('loglik') is not None:
            d = len(case['y'])
            want = self.spec_val(case)
            if d == 1 and out['loglik'] == -INF and want > -INF:
                return 'go-d1-always-neginf'
            if want == -INF and out['loglik'] > -INF:
                return 'go-psi-not-posdef'
            n = len(case['X'])
            if math.isfinite(want) and abs(out['loglik'] - want - 0.5 * (n - d - 2) * (d - 1) * math.log(n - 1)) < 1e-6:
                return 'go-logdet-missing-d'
        return None

    def nontrivial(self, case, out):
        k = case['kind']
        nt = True
        if k == 'tf':
            nt = any(btype(ab) != '3' for ab in case['bound'])
        elif k == 'mh':
            r = out['exp_arg']
            nt = (case['bound'] is not None and any(btype(ab) != '3' for ab in case['bound'])) or abs(r) >= 700
        elif k == 'step':
            nt = len(case['rows']) >= 1
        elif k == 'init':
            nt = len(out['rows']) > len(case['rows'])
        elif k == 'lik':
            nt = case['W'] is not None or case['penalty'] is not None or len(case['y']) >= 2
        elif k == 'chain':
            nt = len(out['liks']) >= 2
        return json.dumps(case, sort_keys=True) if nt else None

    # -- Coq terms ---------------------------------------------------------------------------------------
    @staticmethod
    def qv(v):
        return clist([cq(x) for x in v])

    @classmethod
    def qm(cls, m):
        return clist([cls.qv(r) for r in m])

    @classmethod
    def qrow(cls, r):
        return '(mkRow %s %s %s)' % (cls.qv(r[0]), cq(r[1]), cq(r[2]))

    @classmethod
    def qtab(cls, keys, vals):
        return clist(['(%s, %s)' % (cls.qv(k), cq(v)) for k, v in zip(keys, vals)])

    def to_coq(self, case, out):
        k = case['kind']
        if k == 'mh':
            if not (math.isfinite(out['ratio']) and out['ratio'] > 0):
                return None
            keys = [case['p_new'], case['p_prev']]
            return 'CMh %s %s %s %s %s %s (mkExp %s %s) %s %s' % (
                cbool(case['bound'] is not None), self.qv(case['p_new']), cq(case['lpost_new']),
                self.qrow([case['p_prev'], case['lprior_prev'], case['lpost_prev']]),
                self.qtab(keys, out['jac_impl']), self.qtab(keys, out['jac_spec']),
                cq(out['exp_arg']), cq(out['exp_val']), cq(out['ratio']), cq(math.log(out['ratio'])))
        if k == 'step':
            n = len(case['rows'])
            st = '(mkState %s %s (Some (%s, %s)) %s %s 0%%nat)' % (
                clist([self.qrow(r) for r in case['rows']]), cnat(case['cap']), self.qv(case['cand']), cq(case['lprior']),
                cz(case['cap']), cnat(case['acc']))
            if n:
                keys = [case['cand'], case['rows'][-1][0]]
                ji, js = self.qtab(keys, out['jac_impl']), self.qtab(keys, out['jac_spec'])
                ec = '(Some (mkExp %s %s))' % (cq(out['exp_arg']), cq(out['exp_val']))
            else:
                ji = js = '[]'
                ec = 'None'
            return 'CStep %s %s %s %s %s %s %s %s %s %s %s' % (
                cbool(case['bound'] is not None), cnat(case['burn_in']), st, cq(case['loglik']), cq(case['u']), ji, js, ec,
                self.qrow(out['row']), cnat(out['acc']), cnat(out['n_samples']))
        if k == 'init':
            st = '(mkState %s %s None %s 0%%nat 0%%nat)' % (clist([self.qrow(r) for r in case['rows']]), cnat(case['cap']),
                                                            cz(case['rounds']))
            props = ['(%s, %s)' % (self.qv(p), 'None' if lp == -INF else '(Some %s)' % cq(lp)) for p, lp in out['proposals']]
            props.append('(%s, Some 0)' % self.qv([0.0] * len(case['rows'][0][0])))     # must not be consumed
            cand = 'None' if out['cand'] is None else '(Some (%s, %s))' % (self.qv(out['cand'][0]), cq(out['cand'][1]))
            return 'CInit %s %s %s %s %s %s %s' % (st, clist(props), clist([self.qrow(r) for r in out['rows']]), cand,
                                                   cz(out['rounds']), cnat(out['consumed']), cbool(out['started']))
        if k == 'lik':
            W = 'None' if case['W'] is None else '(Some %s)' % self.qm(case['W'])
            sh = 'None' if case['penalty'] is None else '(Some (%s, %s))' % (cq(1 - case['penalty']), self.qv(out['sqrt_diag']))
            return 'CLik %s %s %s %s %s %s %s %s' % (cnat(len(case['y'])), self.qm(case['X']), self.qv(case['y']), W, sh,
                                                     self.qv(out['y']), self.qv(out['mean']), self.qm(out['cov']))
        if k == 'hist':
            if not case['coq'] or any(a is None for a in out['args']):
                return None            # float-sized data, or an evaluation that raised / made no density call (py clauses)
            mode = case['mode']
            if mode in ('mis_mean', 'mis_var'):
                v = 'VMean' if mode == 'mis_mean' else 'VVar'
            else:
                v = '(VStd %s %s)' % ('None' if 'W' not in case else '(Some %s)' % self.qm(case['W']),
                                      'None' if 'penalty' not in case else '(Some %s)' % cq(1 - case['penalty']))
            evs = []
            for j in range(case['K']):
                X = case['Xs'][0 if case['xbuf'] == 'same' else j]
                a = out['args'][j]
                evs.append('(mkEval %s %s %s %s %s %s)' % (self.qm(X), self.qv(case.get('gamma', [])), self.qv(out['sd'][j]),
                                                           self.qv(a[0]), self.qv(a[1]), self.qm(a[2])))
            return 'CHist %s %s %s %s' % (cnat(len(case['y'])), v, self.qv(case['y']), clist(evs))
        if k == 'chain':
            if len(out['args']) != len(out['rounds']):
                return None
            evs = []
            for rec, a, sd in zip(out['rounds'], out['args'], out['sd']):
                evs.append('(mkEval %s %s %s %s %s %s)' % (self.qm(case['Xs'][rec['x']]), self.qv(rec['gamma_on_record']), self.qv(sd),
                                                           self.qv(a[0]), self.qv(a[1]), self.qm(a[2])))
            return 'CHist %s %s %s %s' % (cnat(len(case['y'])), 'VMean' if case['adjustment'] == 'mean' else 'VVar',
                                          self.qv(case['y']), clist(evs))
        return None

    # -- search after a broken proof / correspondence -----------------------------------------------------
    def search(self, reason, budget_s=60):
        """A proof obligation about the translated formulas broke (or model and code disagree): look for a concrete
        point where the implementation's log-Jacobian is not the log of the (finite-difference) derivative of the
        implementation's back-transform, or where the round trip fails; then fall back to the generic search."""
        t0 = time.time()
        rng = random.Random(self.seed * 104729 + 1)
        save = self.rng
        self.rng = rng
        try:
            while time.time() - t0 < budget_s / 2.0:
                for _ in range(200):
                    case = self.gen_tf()
                    try:
                        out = self.run_tf(case)
                    except Exception as e:
                        return Failure('ok', None, case, {'__exception__': repr(e)}, 'static transform helper raised: %r' % e)
                    bad = [b for b in self.py_tf(case, out) if b[0] in ('logJ_is_log_derivative', 'round_trip', 'logJ_closed_form')]
                    if bad:
                        return Failure('ok', None, case, out, 'numeric search after a broken obligation: %s: %s' % bad[0])
        finally:
            self.rng = save
        return super().search(reason, budget_s=max(5, budget_s - (time.time() - t0)))


if __name__ == '__main__':
    sys.exit(run_check(C20))
