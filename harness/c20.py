"""C20 - BSL: synthetic likelihood and its Metropolis-Hastings step.

Two ties to /repo (DESIGN.md 4.1, 4.2):
  * translator  harness/translate_c20.py -> coq/Gen/C20_Transforms.v (regenerated on every run); the theorems of
    Proofs/C20_Transforms.v are about the generated text;
  * correspondence with coq/Num/Bsl.v: BSL._get_mh_ratio, _process_simulated, _init_round on constructed sampler
    objects, mean/cov/whitening/Warton as handed to multivariate_normal.logpdf by gaussian_syn_likelihood;
  * python side (py_check): static helpers vs the translated trees, round trip, log-Jacobian vs finite differences,
    every likelihood vs an independent recomputation of its published formula.
"""
import math
import types

import numpy as np
from common import *
import translate_c20

INF = float('inf')


# ------------------------------------------------------------------------------------------------
# helpers
# ------------------------------------------------------------------------------------------------

def bnd_arr(bound):
    return np.array([[-INF if a is None else a, INF if b is None else b] for a, b in bound], dtype=float)


def btype(ab):
    a, b = ab
    return str((1 if a is None else 0) + (2 if b is None else 0))


def spec_logjac_theta(theta, bound):
    """sum_i log |d theta_i / d theta~_i| written in theta (independent of the code's formulas):
    two-sided: (x-a)(b-x)/(b-a); upper-bounded: b-x; lower-bounded: x-a; unbounded: 1."""
    s = 0.0
    for x, (a, b) in zip(theta, bound):
        t = btype((a, b))
        if t == '0':
            s += math.log((x - a) * (b - x) / (b - a))
        elif t == '1':
            s += math.log(b - x)
        elif t == '2':
            s += math.log(x - a)
    return s


def spec_back(y, ab):
    a, b = ab
    t = btype(ab)
    if t == '0':
        return a + (b - a) / (1.0 + math.exp(-y))
    if t == '1':
        return b - math.exp(-y)
    if t == '2':
        return a + math.exp(y)
    return y


class NpProxy:
    """stands in for the module-level name `np` of elfi.methods.inference.bsl: records np.exp calls."""

    def __init__(self):
        self.calls = []

    def __getattr__(self, k):
        return getattr(np, k)

    def exp(self, x):
        v = np.exp(x)
        self.calls.append((x, v))
        return v


class SsProxy:
    """stands in for `ss` (scipy.stats) in elfi.methods.bsl.pdf_methods: records multivariate_normal.logpdf args."""

    def __init__(self):
        import scipy.stats
        self._ss = scipy.stats
        self.calls = []
        self.multivariate_normal = types.SimpleNamespace(logpdf=self._logpdf)

    def __getattr__(self, k):
        return getattr(self._ss, k)

    def gaussian_kde(self, *a, **k):
        """numpy-2 shim (like numpy.Inf): `logpdf_y[j] = kernel.logpdf(y)` stores a 1-element array into a scalar
        slot, which numpy >= 2.4 refuses; hand back the element."""
        kde = self._ss.gaussian_kde(*a, **k)
        real = kde.logpdf

        def logpdf(x):
            v = real(x)
            return float(v[0]) if getattr(v, 'shape', None) == (1,) else v
        kde.logpdf = logpdf
        return kde

    def _logpdf(self, x, mean=None, cov=None):
        self.calls.append((np.array(x, dtype=float), np.array(mean, dtype=float), np.array(cov, dtype=float)))
        return self._ss.multivariate_normal.logpdf(x, mean=mean, cov=cov)


class BoxPrior:
    def __init__(self, lo, hi, value):
        self.lo, self.hi, self.value = np.array(lo, dtype=float), np.array(hi, dtype=float), value
        self.seen = []

    def logpdf(self, x):
        x = np.atleast_2d(x)[0]
        v = self.value if bool(np.all((x > self.lo) & (x < self.hi))) else -INF
        self.seen.append(([float(t) for t in x], v))
        return v


class ScriptedRandom:
    def __init__(self, draws=(), us=()):
        self.draws, self.us, self.means = list(draws), list(us), []

    def multivariate_normal(self, mean, cov):
        self.means.append([float(t) for t in mean])
        return np.array(self.draws.pop(0), dtype=float)

    def uniform(self):
        return self.us.pop(0)


def make_sampler(cap, rows, bound, burn_in=0, rounds=None, acc=0):
    """A BSL object with exactly the attributes _get_mh_ratio/_process_simulated/_init_round touch."""
    from elfi.methods.inference.bsl import BSL
    s = object.__new__(BSL)
    k = len(rows[0][0])
    st = {'n_samples': 0, 'params': np.zeros((cap, k)), 'logprior': np.zeros(cap), 'logposterior': np.zeros(cap),
          'n_sim_round': 7, 'round': 0, 'n_sim': 0, 'n_batches': 0}
    for i, (p, lp, lpo) in enumerate(rows):
        st['params'][i] = p
        st['logprior'][i] = lp
        st['logposterior'][i] = lpo
    s.state = st
    s.logit_transform_bound = None if bound is None else bnd_arr(bound)
    s.is_misspec = False
    s.burn_in = burn_in
    s.num_accepted = acc
    s.objective = {'round': cap if rounds is None else rounds, 'n_batches': cap if rounds is None else rounds}
    s.n_sim_round = 4
    s.computation_context = types.SimpleNamespace(batch_size=4)
    s.sigma_proposals = np.eye(k)
    s.simulated = np.ones((4, 2))
    s.observed = np.ones((1, 2))
    return s


def impl_jac_theta(theta, bound):
    """_jacobian_logit_transform(_para_logit_transform(theta)) through the real static helpers."""
    from elfi.methods.inference.bsl import BSL
    b = bnd_arr(bound)
    return float(BSL._jacobian_logit_transform(BSL._para_logit_transform(np.array(theta, dtype=float), b), b))


# ---- independent recomputation of the published likelihood formulas ----

def mvn_logpdf(y, m, S):
    S = np.atleast_2d(S)
    d = len(m)
    r = np.asarray(y, dtype=float) - m
    sign, logdet = np.linalg.slogdet(S)
    if not (sign > 0 and np.linalg.eigvalsh((S + S.T) / 2).min() > 1e-13 * abs(S).max()):
        return -INF          # not positive definite: no density (scipy raises, the code answers -inf)
    return -0.5 * (d * math.log(2 * math.pi) + logdet + float(r @ np.linalg.solve(S, r)))


def sample_mean_cov(X):
    n = X.shape[0]
    m = X.sum(0) / n
    C = (X - m).T @ (X - m) / (n - 1)
    return m, np.atleast_2d(C)


def log_c(k, nu):
    """log c(k, nu), Ghurye & Olkin (1969)"""
    from scipy.special import gammaln
    return -k * nu / 2 * math.log(2) - k * (k - 1) / 4 * math.log(math.pi) - sum(gammaln(0.5 * (nu - i)) for i in range(k))


def ghurye_olkin(X, y):
    n, d = X.shape
    m, S = sample_mean_cov(X)
    M = (n - 1) * S
    r = (np.asarray(y, dtype=float).reshape(-1) - m).reshape(-1, 1)
    psi = M - r @ r.T / (1 - 1 / n)
    if np.linalg.eigvalsh(psi).min() <= 0:
        return -INF
    return (-0.5 * d * math.log(2 * math.pi) + log_c(d, n - 2) - log_c(d, n - 1) - 0.5 * d * math.log(1 - 1 / n)
            - 0.5 * (n - d - 2) * np.linalg.slogdet(M)[1] + 0.5 * (n - d - 3) * np.linalg.slogdet(psi)[1])


def warton_cov(S, gamma, eps=1e-5):
    dd = np.sqrt(np.diag(S) + eps)
    R = S / np.outer(dd, dd)
    return np.outer(dd, dd) * (gamma * R + (1 - gamma) * np.eye(len(dd)))


def semi_parametric(X, y, gamma=None):
    """An, Nott & Drovandi (2020): sum_j log g_j(y_j) + log Gaussian-copula density at eta_j = Phi^-1(G_j(y_j)),
    g_j Gaussian KDE (Silverman bandwidth), correlation = Gaussian rank correlation (optionally Warton-shrunk)."""
    from scipy.stats import norm, rankdata
    n, d = X.shape
    logg, eta = 0.0, np.zeros(d)
    for j in range(d):
        xs = X[:, j]
        h = xs.std(ddof=1) * (n * 3 / 4.0) ** (-0.2)
        z = (y[j] - xs) / h
        logg += math.log(np.mean(norm.pdf(z)) / h)
        eta[j] = norm.ppf(min(1.0, np.mean(norm.cdf(z))))
    if not np.all(np.isfinite(eta)):
        return -INF
    tail = float(np.min(np.minimum(norm.cdf(eta), norm.sf(eta))))
    if tail < 1e-6:
        return None          # Phi^-1 at 1 - 1e-15 amplifies rounding by 1e9: no meaningful 1e-8 comparison
    q = norm.ppf(rankdata(X, axis=0) / (n + 1))
    den = np.sum(norm.ppf(np.arange(1, n + 1) / (n + 1)) ** 2)
    R = q.T @ q / den
    np.fill_diagonal(R, 1.0)
    if gamma is not None:
        R = gamma * R + (1 - gamma) * np.eye(d)
    if not np.linalg.cond(R) < 1e10:
        return None          # (numerically) singular rank correlation: outside the property's quantifier
    return logg - 0.5 * (np.linalg.slogdet(R)[1] + float(eta @ (np.linalg.inv(R) - np.eye(d)) @ eta))


# ------------------------------------------------------------------------------------------------
# the check
# ------------------------------------------------------------------------------------------------

class C20(PropCheck):
    pid = 'C20'
    header = ('From Coq Require Import List ZArith QArith Bool.\nFrom Elfi Require Import Base.Harness Num.Bsl.\n'
              'Import ListNotations.\nLocal Open Scope Q_scope.\n')
    case_type = 'Bsl.case'
    preds = (('Bsl.agree', 'agree'), ('Bsl.ok', 'ok'))
    chunk = 60
    rule = ('kinds: tf (static transform helpers on points strictly inside mixed bound types; non-trivial = at least one '
            'bounded coordinate), mh (_get_mh_ratio on a constructed state; non-trivial = transform in use with a bounded '
            'coordinate, or the [-700,700] clip active), step (_process_simulated with a stub likelihood; non-trivial = n>=1), '
            'init (_init_round with scripted proposals; non-trivial = at least one out-of-support proposal), lik '
            '(gaussian_syn_likelihood mean/cov plumbing in Coq; non-trivial = whitening or shrinkage or d>=2), val '
            '(likelihood values vs independent formulas; all non-trivial); distinct by full case content')
    trusted = ('translator harness/translate_c20.py (Python ast -> Gallina over R; numpy scalar + - * / log exp read as the real '
               'operations, rounding ignored); its output is additionally evaluated on floats against the real helpers on every tf case',
               'oracles: numpy exp/log/sqrt (recorded calls), scipy multivariate_normal.logpdf, numpy slogdet/solve/eigvalsh, '
               'scipy gammaln/norm/rankdata in the independent likelihood recomputation',
               'BSL objects are built with object.__new__ and only the attributes the three methods read '
               '(the end-to-end sampler does not run under numpy 2)')

    def __init__(self, seed, tier):
        super().__init__(seed, tier)
        self._trees = None
        self._trees_err = None
        self._py_seen = {}

    # -- translator --------------------------------------------------------------------------------
    def gen_translated(self):
        out = os.path.join(COQ, 'Gen', 'C20_Transforms.v')
        try:
            self._trees = translate_c20.generate(REPO, out)
        except Exception as e:
            self._trees_err = str(e)
            # leave no stale translation behind: the theorems must not be re-checked against old text
            with open(out, 'w') as f:
                f.write('(* translation failed: %s *)\n' % str(e).replace('*', 'x'))
            raise

    def trees(self):
        if self._trees is None and self._trees_err is None:
            try:
                self._trees = translate_c20.read_helpers(REPO)
            except Exception as e:
                self._trees_err = str(e)
        return self._trees

    # -- generators --------------------------------------------------------------------------------
    def rand_bound(self, k, unb_ok=True):
        r = self.rng
        bound = []
        for _ in range(k):
            t = r.choice(['0', '0', '1', '2', '3'] if unb_ok else ['0', '1', '2'])
            lo = round(r.uniform(-5, 5), 3)
            hi = lo + round(r.uniform(0.1, 8), 3)
            bound.append([None if t in '13' else lo, None if t in '23' else hi])
        return bound

    def rand_inside(self, ab, edge=False):
        r = self.rng
        a, b = ab
        t = btype(ab)
        fr = r.choice([1e-6, 1e-3]) if edge else r.uniform(0.02, 0.98)
        if t == '0':
            return a + (b - a) * (fr if r.random() < 0.5 or not edge else 1 - fr)
        if t == '1':
            return b - (fr if edge else r.choice([r.uniform(0.01, 3), r.uniform(3, 200)]))
        if t == '2':
            return a + (fr if edge else r.choice([r.uniform(0.01, 3), r.uniform(3, 200)]))
        return r.uniform(-50, 50)

    def gen_tf(self):
        r = self.rng
        k = r.randint(1, 4)
        bound = self.rand_bound(k)
        edge = r.random() < 0.1
        theta = [self.rand_inside(ab, edge) for ab in bound]
        self.bump('tf:types=' + ''.join(sorted(set(btype(ab) for ab in bound))))
        return dict(kind='tf', bound=bound, theta=theta, edge=edge)

    def gen_mh(self):
        r = self.rng
        use_tr = r.random() < 0.75
        k = r.randint(1, 3)
        bound = self.rand_bound(k) if use_tr else None
        bb = bound or [[None, None]] * k
        p_new = [self.rand_inside(ab) for ab in bb]
        p_prev = p_new if r.random() < 0.05 else [self.rand_inside(ab) for ab in bb]
        lp_prev = r.uniform(-50, 5)
        mode = r.choice(['small', 'small', 'small', 'up', 'down', 'big'])
        delta = {'small': r.uniform(-4, 4), 'up': r.uniform(5, 60), 'down': -r.uniform(5, 690),
                 'big': r.choice([-1, 1]) * r.uniform(690, 3000)}[mode]
        self.bump('mh:%s:%s' % ('tr' if use_tr else 'plain', mode))
        n = r.randint(1, 3)
        return dict(kind='mh', bound=bound, p_new=p_new, p_prev=p_prev, lpost_new=lp_prev + delta, lpost_prev=lp_prev,
                    lprior_prev=r.uniform(-3, 0), n=n)

    def gen_step(self):
        r = self.rng
        use_tr = r.random() < 0.7
        k = r.randint(1, 3)
        bound = self.rand_bound(k) if use_tr else None
        bb = bound or [[None, None]] * k
        n = r.choice([0, 1, 1, 2, 3])
        rows = []
        for _ in range(n):
            rows.append([[self.rand_inside(ab) for ab in bb], r.uniform(-3, 0), r.uniform(-30, 0)])
        cand = [self.rand_inside(ab) for ab in bb]
        lp = r.uniform(-3, 0)
        mode = r.choice(['small', 'small', 'up', 'down'])
        base = rows[-1][2] if rows else -5.0
        loglik = base - lp + {'small': r.uniform(-3, 3), 'up': r.uniform(3, 800), 'down': -r.uniform(3, 800)}[mode]
        u = r.random()
        if n and r.random() < 0.3:
            # put u next to the acceptance probability
            lj = (spec_logjac_theta(cand, bound) - spec_logjac_theta(rows[-1][0], bound)) if use_tr else 0.0
            pr = min(1.0, math.exp(max(-700.0, min(700.0, lj + loglik + lp - rows[-1][2]))))
            u = min(0.999999, max(0.0, pr * r.choice([1 - 1e-3, 1 + 1e-3, 0.5, 1.5])))
        burn = r.choice([0, 0, 1, 2, 5])
        self.bump('step:n=%d:%s:%s' % (min(n, 2), 'tr' if use_tr else 'plain', mode))
        return dict(kind='step', bound=bound, rows=rows, cand=cand, lprior=lp, loglik=loglik, u=u, burn_in=burn,
                    cap=n + r.randint(1, 3), acc=r.randint(0, n))

    def gen_init(self):
        r = self.rng
        use_tr = r.random() < 0.6
        k = r.randint(1, 2)
        bound = self.rand_bound(k, unb_ok=True) if use_tr else None
        bb = bound or [[None, None]] * k
        n = r.randint(1, 3)
        rows = [[[self.rand_inside(ab) for ab in bb], -0.5, r.uniform(-30, 0)] for _ in range(n)]
        last = rows[-1][0]
        # prior support: a box around the last point (always contains it)
        lo = [x - r.uniform(0.2, 2) for x in last]
        hi = [x + r.uniform(0.2, 2) for x in last]
        cap = n + r.randint(1, 5)
        pat = r.choice(['mixed', 'mixed', 'all_out', 'first_in'])
        m = cap - n + 2
        draws = []
        from elfi.methods.inference.bsl import BSL
        tl = [float(t) for t in BSL._para_logit_transform(np.array(last), bnd_arr(bb))] if use_tr else list(last)
        for j in range(m):
            inside = {'mixed': r.random() < 0.35, 'all_out': False, 'first_in': j == 0}[pat]
            if inside:
                draws.append([t + r.uniform(-0.02, 0.02) for t in tl])
            else:
                draws.append([t + r.choice([-1, 1]) * r.uniform(6, 12) for t in tl])
        self.bump('init:%s:%s' % ('tr' if use_tr else 'plain', pat))
        return dict(kind='init', bound=bound, rows=rows, cap=cap, rounds=cap + r.randint(0, 3), draws=draws,
                    prior_lo=lo, prior_hi=hi, prior_value=-0.5)

    def gen_lik(self):
        r = self.rng
        d = r.choice([1, 2, 2, 3])
        n = r.randint(d + 2, d + 5)
        q = lambda s, m: r.randint(-m * s, m * s) / float(s)
        A = [[q(8, 2) for _ in range(d)] for _ in range(d)]
        X = []
        for _ in range(n):
            z = [q(16, 3) for _ in range(d)]
            X.append([sum(A[i][j] * z[j] for j in range(d)) + z[i] for i in range(d)])
        y = [q(16, 2) for _ in range(d)]
        W = None
        if d >= 2 and r.random() < 0.5:
            W = [[q(8, 2) + (1.0 if i == j else 0.0) for j in range(d)] for i in range(d)]
        pen = r.choice([None, None, 0.0, 0.25, 0.5, 0.9, 1.0])
        self.bump('lik:d=%d:%s:%s' % (d, 'W' if W else '-', 'warton' if pen is not None else '-'))
        return dict(kind='lik', X=X, y=y, W=W, penalty=pen)

    def gen_val(self):
        r = self.rng
        mode = r.choice(['std', 'std', 'whiten', 'warton', 'whiten+warton', 'go', 'go', 'go_far', 'mis_mean', 'mis_var', 'semi',
                         'semi_warton'])
        d = r.choice([1, 2, 3, 4, 6])
        n = r.randint(d + 4, d + 60)
        nr = np.random.RandomState(r.randrange(2 ** 31))
        X = nr.randn(n, d) @ (np.eye(d) + 0.5 * nr.randn(d, d)) + 3 * nr.randn(d)
        y = X.mean(0) + nr.randn(d) * X.std(0) * (r.choice([0.2, 1.0, 2.0]) if 'semi' not in mode else r.choice([0.2, 0.7]))
        if mode == 'go_far':
            y = X.mean(0) + r.choice([20, 50, 300]) * X.std(0)
        c = dict(kind='val', mode=mode, X=X.tolist(), y=y.tolist(), obs_2d=r.random() < 0.5)
        if 'whiten' in mode:
            c['W'] = (np.eye(d) + 0.4 * nr.randn(d, d)).tolist()
        if 'warton' in mode:
            c['penalty'] = r.choice([0.0, 0.1, 0.5, 0.9, 1.0])
        if mode.startswith('mis'):
            c['gamma'] = np.abs(nr.randn(d)).tolist()
        self.bump('val:%s:d=%d' % (mode, d))
        return c

    def generate(self):
        scale = 1 if self.tier == 'quick' else 12
        plan = [(self.gen_tf, 300), (self.gen_mh, 180), (self.gen_step, 150), (self.gen_init, 150), (self.gen_lik, 90),
                (self.gen_val, 240)]
        for g, n in plan:
            for _ in range(n * scale):
                yield g()

    # -- implementation drivers ----------------------------------------------------------------------
    def run_impl(self, case):
        return getattr(self, 'run_' + case['kind'])(case)

    def run_tf(self, case):
        from elfi.methods.inference.bsl import BSL
        b = bnd_arr(case['bound'])
        th = np.array(case['theta'], dtype=float)
        tt = BSL._para_logit_transform(th, b)
        back = BSL._para_logit_back_transform(tt, b)
        lj = float(BSL._jacobian_logit_transform(tt, b))
        # per coordinate (1-vectors) for the tree / finite-difference comparisons
        per = []
        for i in range(len(th)):
            bi = b[i:i + 1]
            yi = float(tt[i])
            h = 1e-5 * max(1.0, abs(yi))
            up = float(BSL._para_logit_back_transform(np.array([yi + h]), bi)[0])
            dn = float(BSL._para_logit_back_transform(np.array([yi - h]), bi)[0])
            per.append(dict(y=yi, logJ=float(BSL._jacobian_logit_transform(np.array([yi]), bi)), fd=(up - dn) / (2 * h)))
        return dict(tilde=[float(t) for t in tt], back=[float(t) for t in back], logJ=lj, per=per)

    def run_mh(self, case):
        import elfi.methods.inference.bsl as bslmod
        n = case['n']
        rows = [[case['p_prev'], case['lprior_prev'], case['lpost_prev']]] * n + [[case['p_new'], -1.0, case['lpost_new']]]
        s = make_sampler(n + 2, rows, case['bound'])
        s.state['n_samples'] = n
        px = NpProxy()
        bslmod.np = px
        try:
            ratio = float(s._get_mh_ratio())
        finally:
            bslmod.np = np
        arg, val = px.calls[-1]
        out = dict(ratio=ratio, exp_arg=float(arg), exp_val=float(val))
        if case['bound'] is not None:
            out['jac_impl'] = [impl_jac_theta(case['p_new'], case['bound']), impl_jac_theta(case['p_prev'], case['bound'])]
            out['jac_spec'] = [spec_logjac_theta(case['p_new'], case['bound']), spec_logjac_theta(case['p_prev'], case['bound'])]
        else:
            out['jac_impl'] = out['jac_spec'] = [0.0, 0.0]
        return out

    def run_step(self, case):
        import elfi.methods.inference.bsl as bslmod
        rows = case['rows'] + [[case['cand'], case['lprior'], 0.0]]
        n = len(case['rows'])
        s = make_sampler(case['cap'], rows, case['bound'], burn_in=case['burn_in'], acc=case['acc'])
        s.state['n_samples'] = n
        s.likelihood = lambda ssx, ssy, _v=case['loglik']: _v
        s.random_state = ScriptedRandom(us=[case['u']])
        px = NpProxy()
        bslmod.np = px
        try:
            s._process_simulated()
        finally:
            bslmod.np = np
        out = dict(row=[[float(t) for t in s.state['params'][n]], float(s.state['logprior'][n]), float(s.state['logposterior'][n])],
                   acc=int(s.num_accepted), n_samples=int(s.state['n_samples']),
                   earlier_untouched=bool(all(list(s.state['params'][i]) == list(case['rows'][i][0])
                                              and s.state['logprior'][i] == case['rows'][i][1]
                                              and s.state['logposterior'][i] == case['rows'][i][2] for i in range(n))),
                   uniform_draws_used=1 - len(s.random_state.us))
        if n:
            arg, val = px.calls[-1]
            out['exp_arg'], out['exp_val'] = float(arg), float(val)
            prev = case['rows'][-1][0]
            if case['bound'] is not None:
                out['jac_impl'] = [impl_jac_theta(case['cand'], case['bound']), impl_jac_theta(prev, case['bound'])]
                out['jac_spec'] = [spec_logjac_theta(case['cand'], case['bound']), spec_logjac_theta(prev, case['bound'])]
            else:
                out['jac_impl'] = out['jac_spec'] = [0.0, 0.0]
        return out

    def run_init(self, case):
        n = len(case['rows'])
        s = make_sampler(case['cap'], case['rows'], case['bound'], rounds=case['rounds'])
        s.state['n_samples'] = n
        s.prior = BoxPrior(case['prior_lo'], case['prior_hi'], case['prior_value'])
        s.random_state = ScriptedRandom(draws=case['draws'])
        sims = []
        s.prepare_new_batch = lambda *a, **k: sims.append(1)      # never called by _init_round; recorded if it were
        s._init_round()
        n2 = int(s.state['n_samples'])
        started = bool(s.state['n_sim_round'] == 0)
        rows = [[[float(t) for t in s.state['params'][i]], float(s.state['logprior'][i]), float(s.state['logposterior'][i])]
                for i in range(n2)]
        cand = None
        if n2 < case['cap']:
            cand = [[float(t) for t in s.state['params'][n2]], float(s.state['logprior'][n2])]
        return dict(rows=rows, cand=cand, rounds=int(s.objective['round']), n_batches=int(s.objective['n_batches']),
                    consumed=len(s.prior.seen), started=started, proposals=s.prior.seen, means=s.random_state.means,
                    draws_used=len(case['draws']) - len(s.random_state.draws), sims=len(sims))

    def _lik_call(self, fn, *a, **k):
        import elfi.methods.bsl.pdf_methods as pm
        px = SsProxy()
        old = pm.ss
        pm.ss = px
        try:
            v = fn(*a, **k)
        finally:
            pm.ss = old
        return v, px.calls

    def run_lik(self, case):
        import elfi.methods.bsl.pdf_methods as pm
        X = np.array(case['X'], dtype=float)
        y = np.array(case['y'], dtype=float)
        kw = {}
        if case['W'] is not None:
            kw['whitening'] = np.array(case['W'], dtype=float)
        if case['penalty'] is not None:
            kw.update(shrinkage='warton', penalty=case['penalty'])
        v, calls = self._lik_call(pm.gaussian_syn_likelihood, X, y, **kw)
        assert len(calls) == 1
        yy, m, C = calls[0]
        out = dict(loglik=float(np.asarray(v).reshape(-1)[0]), y=np.atleast_1d(yy).tolist(), mean=np.atleast_1d(m).tolist(),
                   cov=np.atleast_2d(C).tolist())
        if case['penalty'] is not None:
            Xw = X @ np.array(case['W']).T if case['W'] is not None else X
            S = np.atleast_2d(np.cov(Xw, rowvar=False))
            out['sqrt_diag'] = [float(t) for t in np.sqrt(np.diag(S + 1e-5))]
        return out

    def run_val(self, case):
        import elfi.methods.bsl.pdf_methods as pm
        X = np.array(case['X'], dtype=float)
        y = np.array(case['y'], dtype=float)
        yo = y.reshape(1, -1) if case.get('obs_2d') else y
        mode = case['mode']
        try:
            if mode in ('std', 'whiten', 'warton', 'whiten+warton'):
                kw = {}
                if 'W' in case:
                    kw['whitening'] = np.array(case['W'])
                if 'penalty' in case:
                    kw.update(shrinkage='warton', penalty=case['penalty'])
                v = pm.gaussian_syn_likelihood(X, yo, **kw)
            elif mode in ('go', 'go_far'):
                v = pm.gaussian_syn_likelihood_ghurye_olkin(X, yo)
            elif mode == 'mis_mean':
                v = pm.syn_likelihood_misspec(X, yo, np.array(case['gamma']), 'mean')
            elif mode == 'mis_var':
                v = pm.syn_likelihood_misspec(X, yo, np.array(case['gamma']), 'variance')
            elif mode == 'semi':
                v, _ = self._lik_call(pm.semi_param_kernel_estimate, X, yo)
            elif mode == 'semi_warton':
                v, _ = self._lik_call(pm.semi_param_kernel_estimate, X, yo, shrinkage='warton', penalty=case['penalty'])
            else:
                raise ValueError(mode)
        except Exception as e:      # a likelihood that raises has no value: reported by py_val
            return dict(loglik=None, raised='%s: %s' % (type(e).__name__, e))
        return dict(loglik=float(np.asarray(v).reshape(-1)[0]))

    # -- python-side clauses ---------------------------------------------------------------------------
    def py_check(self, case, out):
        """common.run_check prints one VIOLATION per distinct detail text: after the first two failures of a
        clause the text is constant, so a systematic break gives a handful of replays, not hundreds."""
        res = []
        for clause, msg in getattr(self, 'py_' + case['kind'])(case, out):
            k = (clause, self.classify(case, out, clause))      # known findings do not use up the detailed slots
            c = self._py_seen.get(k, 0)
            self._py_seen[k] = c + 1
            res.append((clause, msg if c < 2 else 'further failing case of this clause (details in its first replays)'))
        return res

    @staticmethod
    def _close(a, b, rel, ab=0.0):
        if a == b:
            return True
        if not (math.isfinite(a) and math.isfinite(b)):
            return False
        return abs(a - b) <= ab + rel * (1 + max(abs(a), abs(b)))

    def py_tf(self, case, out):
        bad = []
        bound, th = case['bound'], case['theta']
        rt = 1e-9 if not case.get('edge') else 1e-6
        for i, ab in enumerate(bound):
            a, b = ab
            if not self._close(out['back'][i], th[i], rt):
                bad.append(('round_trip', 'coordinate %d (type %s): back(trans(x)) = %r, x = %r' % (i, btype(ab), out['back'][i], th[i])))
            lo, hi = (-INF if a is None else a), (INF if b is None else b)
            if not (lo <= out['back'][i] <= hi):
                bad.append(('range', 'coordinate %d: back-transform %r outside [%r, %r]' % (i, out['back'][i], lo, hi)))
            per = out['per'][i]
            # log-Jacobian = log of the derivative of the back-transform (central finite difference of the real function)
            if not (per['fd'] > 0 and self._close(per['logJ'], math.log(per['fd']), 1e-5)):
                bad.append(('logJ_is_log_derivative', 'coordinate %d (type %s, bounds %r): logJ(y=%r) = %r but log of the '
                            'finite-difference derivative of _para_logit_back_transform is %r'
                            % (i, btype(ab), ab, per['y'], per['logJ'], math.log(per['fd']) if per['fd'] > 0 else None)))
            tr = self.trees()
            if tr is not None:
                env = dict(a=0.0 if a is None else a, b=0.0 if b is None else b, x=th[i], y=per['y'])
                t = btype(ab)
                for nm, got in (('trans', out['tilde'][i]), ('back', out['back'][i]), ('logJ', per['logJ'])):
                    try:
                        want = translate_c20.evaluate(tr[nm][t], env)
                    except (ValueError, ZeroDivisionError, OverflowError) as e:
                        want = float('nan')
                    if not self._close(got, want, 1e-12):
                        bad.append(('translated_text', '%s type %s: function gives %r, translated expression %r' % (nm, t, got, want)))
        if not self._close(out['logJ'], spec_logjac_theta(th, bound), 1e-7 if not case.get('edge') else 1e-4):
            bad.append(('logJ_closed_form', 'logJ(trans(theta)) = %r, change-of-variables value %r' % (out['logJ'], spec_logjac_theta(th, bound))))
        if not self._close(out['logJ'], sum(p['logJ'] for p in out['per']), 1e-12):
            bad.append(('logJ_sum', 'vector log-Jacobian is not the sum of the coordinates\''))
        return bad[:3]

    def py_mh(self, case, out):
        lj = out['jac_spec'][0] - out['jac_spec'][1]
        r = lj + case['lpost_new'] - case['lpost_prev']
        want = math.exp(max(-700.0, min(700.0, r)))
        if not self._close(out['ratio'], want, 1e-7 * (1 + abs(r)) if abs(r) < 700 else 1e-9, 0.0) and \
                not abs(out['ratio'] - want) <= 1e-7 * want * (1 + abs(r)):
            return [('mh_ratio', '_get_mh_ratio = %r, exp(clip(dlogpost + dlogJ)) = %r' % (out['ratio'], want))]
        return []

    def py_step(self, case, out):
        bad = []
        if not out['earlier_untouched']:
            bad.append(('rows_untouched', 'an earlier chain row changed'))
        if len(case['rows']) == 0 and out['uniform_draws_used'] != 0:
            bad.append(('n0_no_draw', 'a uniform was drawn on the initialisation round'))
        if len(case['rows']) > 0 and out['uniform_draws_used'] != 1:
            bad.append(('one_uniform', 'expected exactly one uniform draw'))
        return bad

    def py_init(self, case, out):
        from elfi.methods.inference.bsl import BSL
        bad = []
        if out['sims']:
            bad.append(('no_simulation', '_init_round asked for a batch'))
        if out['draws_used'] != out['consumed']:
            bad.append(('one_draw_per_proposal', 'draws %d, prior evaluations %d' % (out['draws_used'], out['consumed'])))
        last = case['rows'][-1][0]
        bb = case['bound']
        for j, ((prop, lp), mean) in enumerate(zip(out['proposals'], out['means'])):
            draw = case['draws'][j]
            if bb is not None:
                want_mean = [float(t) for t in BSL._para_logit_transform(np.array(last), bnd_arr(bb))]
                want_prop = [spec_back(t, ab) for t, ab in zip(draw, bb)]
            else:
                want_mean, want_prop = list(last), list(draw)
            if not all(self._close(a, b, 1e-12) for a, b in zip(mean, want_mean)):
                bad.append(('proposal_mean', 'proposal %d centred at %r, transformed previous state is %r' % (j, mean, want_mean)))
            if not all(self._close(a, b, 1e-9) for a, b in zip(prop, want_prop)):
                bad.append(('proposal_back_transform', 'proposal %d = %r, back-transform of the draw is %r' % (j, prop, want_prop)))
        if out['n_batches'] != out['rounds'] * 1:
            bad.append(('objective_batches', 'n_batches %r for %r rounds' % (out['n_batches'], out['rounds'])))
        return bad[:3]

    def py_lik(self, case, out):
        want = mvn_logpdf(np.array(out['y']), np.array(out['mean']), np.array(out['cov']))
        if not self._close(out['loglik'], want, 1e-8):
            return [('loglik_is_mvn', 'returned %r, normal log density at the recorded mean/cov %r' % (out['loglik'], want))]
        return []

    def spec_val(self, case):
        X = np.array(case['X'], dtype=float)
        y = np.array(case['y'], dtype=float)
        mode = case['mode']
        if mode in ('std', 'whiten', 'warton', 'whiten+warton'):
            if 'W' in case:
                W = np.array(case['W'])
                X, y = X @ W.T, W @ y
            m, S = sample_mean_cov(X)
            if 'penalty' in case:
                S = warton_cov(S, 1 - case['penalty'])
            return mvn_logpdf(y, m, S)
        if mode in ('go', 'go_far'):
            return ghurye_olkin(X, y)
        m, S = sample_mean_cov(X)
        sd = np.sqrt(np.diag(S))
        if mode == 'mis_mean':
            return mvn_logpdf(y, m + sd * np.array(case['gamma']), S)
        if mode == 'mis_var':
            return mvn_logpdf(y, m, S + np.diag((sd * np.array(case['gamma'])) ** 2))
        if mode == 'semi':
            return semi_parametric(X, y)
        if mode == 'semi_warton':
            return semi_parametric(X, y, 1 - case['penalty'])
        raise ValueError(mode)

    def py_val(self, case, out):
        want = self.spec_val(case)
        if want is None:
            self.bump('val:semi:ill-conditioned-or-singular-not-compared')
            return []
        if out['loglik'] is None:
            return [('likelihood_formula[%s]' % case['mode'],
                     '%s, n=%d, d=%d: raised %s, published formula gives %r' % (case['mode'], len(case['X']), len(case['y']),
                                                                               out['raised'], want))]
        if not self._close(out['loglik'], want, 1e-8):
            d = len(case['y'])
            return [('likelihood_formula[%s]' % case['mode'],
                     '%s, n=%d, d=%d: returned %r, published formula %r' % (case['mode'], len(case['X']), d, out['loglik'], want))]
        return []

    def classify(self, case, out, clause):
        if case['kind'] == 'val' and isinstance(out, dict) and out.get('loglik', 0) is None and len(case['y']) == 1:
            # known: these four modes raise on a single summary statistic; the standard / Warton / Ghurye-Olkin
            # likelihoods must work at d = 1 and get no key
            key = {'mis_mean': 'mis_mean', 'mis_var': 'mis_var', 'semi': 'semi', 'semi_warton': 'semi',
                   'whiten': 'whiten', 'whiten+warton': 'whiten'}.get(case['mode'])
            return None if key is None else 'd1-raises-' + key
        if case['kind'] == 'val' and case['mode'] in ('go', 'go_far') and isinstance(out, dict) and out.get('loglik') is not None:
            d = len(case['y'])
            want = self.spec_val(case)
            if d == 1 and out['loglik'] == -INF and want > -INF:
                return 'go-d1-always-neginf'
            if want == -INF and out['loglik'] > -INF:
                return 'go-psi-not-posdef'
            n = len(case['X'])
            if math.isfinite(want) and abs(out['loglik'] - want - 0.5 * (n - d - 2) * (d - 1) * math.log(n - 1)) < 1e-6:
                return 'go-logdet-missing-d'
        return None

    def nontrivial(self, case, out):
        k = case['kind']
        nt = True
        if k == 'tf':
            nt = any(btype(ab) != '3' for ab in case['bound'])
        elif k == 'mh':
            r = out['exp_arg']
            nt = (case['bound'] is not None and any(btype(ab) != '3' for ab in case['bound'])) or abs(r) >= 700
        elif k == 'step':
            nt = len(case['rows']) >= 1
        elif k == 'init':
            nt = len(out['rows']) > len(case['rows'])
        elif k == 'lik':
            nt = case['W'] is not None or case['penalty'] is not None or len(case['y']) >= 2
        return json.dumps(case, sort_keys=True) if nt else None

    # -- Coq terms ---------------------------------------------------------------------------------------
    @staticmethod
    def qv(v):
        return clist([cq(x) for x in v])

    @classmethod
    def qm(cls, m):
        return clist([cls.qv(r) for r in m])

    @classmethod
    def qrow(cls, r):
        return '(mkRow %s %s %s)' % (cls.qv(r[0]), cq(r[1]), cq(r[2]))

    @classmethod
    def qtab(cls, keys, vals):
        return clist(['(%s, %s)' % (cls.qv(k), cq(v)) for k, v in zip(keys, vals)])

    def to_coq(self, case, out):
        k = case['kind']
        if k == 'mh':
            if not (math.isfinite(out['ratio']) and out['ratio'] > 0):
                return None
            keys = [case['p_new'], case['p_prev']]
            return 'CMh %s %s %s %s %s %s (mkExp %s %s) %s %s' % (
                cbool(case['bound'] is not None), self.qv(case['p_new']), cq(case['lpost_new']),
                self.qrow([case['p_prev'], case['lprior_prev'], case['lpost_prev']]),
                self.qtab(keys, out['jac_impl']), self.qtab(keys, out['jac_spec']),
                cq(out['exp_arg']), cq(out['exp_val']), cq(out['ratio']), cq(math.log(out['ratio'])))
        if k == 'step':
            n = len(case['rows'])
            st = '(mkState %s %s (Some (%s, %s)) %s %s 0%%nat)' % (
                clist([self.qrow(r) for r in case['rows']]), cnat(case['cap']), self.qv(case['cand']), cq(case['lprior']),
                cz(case['cap']), cnat(case['acc']))
            if n:
                keys = [case['cand'], case['rows'][-1][0]]
                ji, js = self.qtab(keys, out['jac_impl']), self.qtab(keys, out['jac_spec'])
                ec = '(Some (mkExp %s %s))' % (cq(out['exp_arg']), cq(out['exp_val']))
            else:
                ji = js = '[]'
                ec = 'None'
            return 'CStep %s %s %s %s %s %s %s %s %s %s %s' % (
                cbool(case['bound'] is not None), cnat(case['burn_in']), st, cq(case['loglik']), cq(case['u']), ji, js, ec,
                self.qrow(out['row']), cnat(out['acc']), cnat(out['n_samples']))
        if k == 'init':
            st = '(mkState %s %s None %s 0%%nat 0%%nat)' % (clist([self.qrow(r) for r in case['rows']]), cnat(case['cap']),
                                                            cz(case['rounds']))
            props = ['(%s, %s)' % (self.qv(p), 'None' if lp == -INF else '(Some %s)' % cq(lp)) for p, lp in out['proposals']]
            props.append('(%s, Some 0)' % self.qv([0.0] * len(case['rows'][0][0])))     # must not be consumed
            cand = 'None' if out['cand'] is None else '(Some (%s, %s))' % (self.qv(out['cand'][0]), cq(out['cand'][1]))
            return 'CInit %s %s %s %s %s %s %s' % (st, clist(props), clist([self.qrow(r) for r in out['rows']]), cand,
                                                   cz(out['rounds']), cnat(out['consumed']), cbool(out['started']))
        if k == 'lik':
            W = 'None' if case['W'] is None else '(Some %s)' % self.qm(case['W'])
            sh = 'None' if case['penalty'] is None else '(Some (%s, %s))' % (cq(1 - case['penalty']), self.qv(out['sqrt_diag']))
            return 'CLik %s %s %s %s %s %s %s %s' % (cnat(len(case['y'])), self.qm(case['X']), self.qv(case['y']), W, sh,
                                                     self.qv(out['y']), self.qv(out['mean']), self.qm(out['cov']))
        return None

    # -- search after a broken proof / correspondence -----------------------------------------------------
    def search(self, reason, budget_s=60):
        """A proof obligation about the translated formulas broke (or model and code disagree): look for a concrete
        point where the implementation's log-Jacobian is not the log of the (finite-difference) derivative of the
        implementation's back-transform, or where the round trip fails; then fall back to the generic search."""
        t0 = time.time()
        rng = random.Random(self.seed * 104729 + 1)
        save = self.rng
        self.rng = rng
        try:
            while time.time() - t0 < budget_s / 2.0:
                for _ in range(200):
                    case = self.gen_tf()
                    try:
                        out = self.run_tf(case)
                    except Exception as e:
                        return Failure('ok', None, case, {'__exception__': repr(e)}, 'static transform helper raised: %r' % e)
                    bad = [b for b in self.py_tf(case, out) if b[0] in ('logJ_is_log_derivative', 'round_trip', 'logJ_closed_form')]
                    if bad:
                        return Failure('ok', None, case, out, 'numeric search after a broken obligation: %s: %s' % bad[0])
        finally:
            self.rng = save
        return super().search(reason, budget_s=max(5, budget_s - (time.time() - t0)))


if __name__ == '__main__':
    sys.exit(run_check(C20))
