"""C05 — output pools are transparent: correspondence with coq/Store/Pool.v plus numeric pool runs."""
import os
import shutil
import numpy as np
from functools import partial
from common import *
from graphgen import *
import rejmodels

CALLS = {}

KNOWN_STALE = 'stale-order-after-remove-store-same-context'

DTYPES_SIM = ['f8', 'f8', 'f4', 'i8', 'i4', '>f8']                 # dtypes a simulator batch may have in the inference runs
DTYPES_STORE = ['f8', 'f4', 'i8', 'i4', 'u1', '>f8', '>i4', 'c16', 'b1', 'f2']   # ... and in the direct pool round trips


def relayout(a, layout):
    """An array with the values, shape and dtype of `a` but another memory layout.
    layout: 'C' | 'F' | 'perm:<axes>' (contiguous in a permuted axis order) | 'strided:<axis>' (every second
    element of a wider buffer along <axis>) | 'neg' (negative strides on all axes) | 'offset' (a window into a larger buffer)"""
    a = np.asarray(a)
    if layout == 'C':
        out = np.ascontiguousarray(a)
    elif layout == 'F':
        out = np.asfortranarray(a)
    elif layout.startswith('perm:'):
        perm = [int(x) for x in layout[5:].split(',')][:a.ndim]
        perm = [x for x in perm if x < a.ndim] + [x for x in range(a.ndim) if x not in perm]
        inv = np.argsort(perm)
        out = np.ascontiguousarray(a.transpose(perm)).transpose(inv)
    elif layout.startswith('strided:'):
        ax = int(layout[8:]) % a.ndim
        shape = list(a.shape)
        shape[ax] = 2 * shape[ax] + 1
        big = np.zeros(shape, dtype=a.dtype)
        sl = [slice(None)] * a.ndim
        sl[ax] = slice(1, None, 2)
        big[tuple(sl)] = a
        out = big[tuple(sl)]
    elif layout == 'neg':
        rev = tuple(slice(None, None, -1) for _ in range(a.ndim))
        out = np.ascontiguousarray(a[rev])[rev]
    elif layout == 'offset':
        big = np.zeros(tuple(n + 2 for n in a.shape), dtype=a.dtype)
        sl = tuple(slice(1, n + 1) for n in a.shape)
        big[sl] = a
        out = big[sl]
    else:
        raise ValueError(layout)
    assert out.shape == a.shape and out.dtype == a.dtype
    return out


def gen_layout(r, ndim):
    k = r.choice(['C', 'F', 'F', 'perm', 'perm', 'strided', 'neg', 'offset'])
    if k == 'perm':
        ax = list(range(ndim))
        r.shuffle(ax)
        return 'perm:' + ','.join(map(str, ax))
    if k == 'strided':
        return 'strided:%d' % r.randrange(ndim)
    return k


def convert(base, dtype):
    """the float64 table `base` in another dtype; integer versions are odd numbers (never 0: the observed data are zeros)"""
    dt = np.dtype(dtype)
    if dt.kind in 'iu':
        return (2 * np.round(500 * base) + 1).astype(dt)
    return base.astype(dt)


def counting_sim(*params, batch_size=1, random_state=None, width=2, key=None, layout='C', dtype='f8', depth=0):
    CALLS[key] = CALLS.get(key, 0) + 1
    x = convert(rejmodels.sim_fn(*params, batch_size=batch_size, random_state=random_state, width=width), dtype)
    if depth:
        x = np.stack([x * (j + 1) if j % 2 == 0 else -x for j in range(depth)], axis=2)
    return relayout(x, layout)


def counting_summ(x, key=None, s_layout='view'):
    x = np.asarray(x)
    if np.any(x != 0):      # the observed twin applies the same callable to the (all-zero) observed data
        CALLS[key] = CALLS.get(key, 0) + 1
    flat = np.array(x.reshape(len(x), -1), dtype=float, order='C')
    f = flat[:, 0].copy()
    for j in range(1, flat.shape[1]):       # every entry of the batch takes part, in a fixed order of operations
        f = f + (j + 1) * 0.125 * flat[:, j]
    if s_layout == 'C1':
        return f
    two = np.stack([f, 2 * f + 1], axis=1)
    if s_layout == 'view':
        return two[:, 0]                    # a non-contiguous 1-D view
    if s_layout == 'F2':
        return np.asfortranarray(two)
    if s_layout == 'strided2':
        return relayout(two, 'strided:1')
    raise ValueError(s_layout)


def summ2(x):
    x = np.asarray(x)
    return np.array(x.reshape(len(x), -1)[:, -1], dtype=float) * 2.0


def build_counting(cfg, key):
    import elfi
    m = elfi.ElfiModel(name='pm')
    t1 = elfi.Prior('uniform', -1, 2, model=m, name='t1')
    params = [t1]
    if cfg.get('two_params'):
        params.append(elfi.Prior('normal', t1, 0.5, model=m, name='t2'))
    width, depth = cfg.get('width', 2), cfg.get('depth', 0)
    sim = elfi.Simulator(partial(counting_sim, width=width, key=key + ':sim', layout=cfg.get('layout', 'C'),
                                 dtype=cfg.get('dtype', 'f8'), depth=depth), *params, model=m, name='sim',
                         observed=np.zeros((1, width, depth) if depth else (1, width)))
    s1 = elfi.Summary(partial(counting_summ, key=key + ':s1', s_layout=cfg.get('s_layout', 'view')), sim, model=m, name='s1')
    elfi.Discrepancy(partial(rejmodels.disc_fn, levels=cfg.get('levels', 4)), s1, model=m, name='d')
    return m


def blob(outputs):
    return {k: (np.asarray(v).shape, str(np.asarray(v).dtype), np.asarray(v).tobytes().hex()) for k, v in sorted(outputs.items())}


def same_array(a, b):
    """same shape, dtype (up to byte order: a pickled big-endian array comes back in native order with equal values) and
    values bit for bit, in logical order, whatever the memory layouts"""
    a, b = np.asarray(a), np.asarray(b)
    na, nb = a.dtype.newbyteorder('='), b.dtype.newbyteorder('=')
    return a.shape == b.shape and na == nb and a.astype(na).tobytes() == b.astype(nb).tobytes()


def elem_codes(raw, isz):
    return [int.from_bytes(raw[k:k + isz], 'little') for k in range(0, len(raw), isz)]


def nd_of(arr):
    """the array as coq/Store/Layout.v sees it: shape, strides and offset in elements, and the buffer it is a window
    into as element codes (the integer value of each element's bytes)"""
    import ctypes
    arr = np.asarray(arr)
    isz = arr.itemsize
    bounds = getattr(getattr(np.lib, 'array_utils', None), 'byte_bounds', None) or np.byte_bounds
    lo, hi = bounds(arr)
    ptr = arr.__array_interface__['data'][0]
    assert all(st % isz == 0 for st in arr.strides) and (ptr - lo) % isz == 0 and (hi - lo) % isz == 0
    buf = elem_codes(ctypes.string_at(lo, hi - lo), isz)
    return ('{| nd_shape := %s; nd_strides := %s; nd_offset := %s; nd_buf := %s |}'
            % (clist([cnat(n) for n in arr.shape]), clist([cz(st // isz) for st in arr.strides]), cz((ptr - lo) // isz),
               clist([cz(x) for x in buf])))


def rand_array(rs, shape, dtype):
    dt = np.dtype(dtype)
    if dt.kind == 'b':
        return rs.randint(0, 2, size=shape).astype(dt)
    if dt.kind in 'iu':
        return rs.randint(0, 200, size=shape).astype(dt)
    if dt.kind == 'c':
        return (rs.normal(size=shape) + 1j * rs.normal(size=shape)).astype(dt)
    return rs.normal(size=shape).astype(dt)


class C05(PropCheck):
    pid = 'C05'
    header = ('From Coq Require Import List String ZArith Bool.\n'
              'From Elfi Require Import Base.Harness Graph.Net Graph.Denote Store.Layout Store.Pool.\nImport ListNotations.\n')
    case_type = 'Pool.case'
    preds = (('Pool.agree', 'agree'), ('Pool.ok', 'ok'))
    chunk = 30
    case_timeout = 120
    build_targets = ('Store/Pool.vo',)
    rule = ('(a) symbolic: random model graphs with recording operations, a stored node set (simulators, things computed from them, '
            'optionally all parameters), 2-4 consecutive runs over one persistent OutputPool, each run on a new inference object '
            '(new context + handler), on a new handler over the previous context, or on the SAME BatchHandler + ComputationContext '
            'after reset() (fill, rerun, rerun needing more/fewer batches, rerun after remove_store, rerun after replacing a downstream '
            'node), results/call logs/pool content per batch vs the Coq model (whose only cross-run state is the net\'s grown output '
            'set, the executor cache and the pool) and the pool-free meaning; (b) numeric: seeded Rejection with OutputPool and on-disk '
            'ArrayPool, simulator batches of several dtypes and memory layouts (C, Fortran, permuted axes, strided, negative strides, '
            '2-D/3-D), a history of sample()/set_objective+iterate calls on the same and on new Rejection objects with several budgets '
            'vs the same run without a pool (bit identical), operation call counters per call, pool content vs fresh recomputation '
            '(values, dtype, shape; also after close/open), refusal of another batch_size / seed; (c) store: OutputPool/ArrayPool '
            'add_batch/get_batch round trips of arrays of many dtypes and layouts, same process, after flush and after close/open; '
            'non-trivial = a run that reused at least one held batch / a round trip of a non-C-contiguous batch; distinct by configuration')
    trusted = ('symbolic values do not see the random stream: stream transparency is covered by theorem C05_generator_positions and the numeric runs',)

    def generate(self):
        n = 153 if self.tier == 'quick' else 2000
        r = self.rng
        for i in range(n):
            k = i % 9
            if k in (0, 2, 4, 6):
                yield self._gen_symbolic(r)
            elif k == 8:
                yield self._gen_store(r)
            else:
                yield self._gen_numeric(r)

    # ---- symbolic ----------------------------------------------------------------------------------
    def _gen_symbolic(self, r):
        spec = gen_spec(r, n_nodes=r.randint(4, 8), named_edges=False, allow_meta=False)
        # keep it acceptable: give every simulator an observation, no prior feeding a discrepancy's observed data
        for s in spec:
            if s['kind'] == 'sim':
                s['observed'] = 1000 + len(s['name'])
        names = [s['name'] for s in spec]
        storeable = [s['name'] for s in spec if s['kind'] in ('sim', 'summary', 'op', 'disc')]
        stored = r.sample(storeable, min(len(storeable), r.randint(1, 3))) if storeable else []
        if r.random() < 0.3:
            stored += [s['name'] for s in spec if s['kind'] == 'prior']
        runs = []
        for k in range(r.randint(2, 4)):
            reuse = 'fresh' if k == 0 else r.choice(['fresh', 'fresh', 'handler', 'handler', 'handler', 'ctx'])
            if reuse == 'fresh':
                outs = r.sample(names, r.randint(1, len(names)))
                become = k > 0 and r.random() < 0.3
            else:
                # the same inference object (or its context) again: same model, same requested outputs
                outs = list(runs[-1]['outputs'])
                become = False
            runs.append(dict(outputs=outs, m=r.randint(1, 4), reuse=reuse, become=become,
                             remove=(r.sample(stored, 1) if stored and k > 0 and r.random() < (0.3 if reuse == 'fresh' else 0.2) else [])))
            self.bump('run:' + reuse)
        self.bump('symbolic')
        self.bump('stored=%d' % len(stored))
        return dict(mode='symbolic', spec=spec, stored=sorted(set(stored)), runs=runs, seed=r.randrange(2 ** 31))

    def _run_symbolic(self, case):
        import elfi
        import elfi.clients.native as native
        from elfi.client import BatchHandler
        from elfi.model.elfi_model import ComputationContext
        from elfi.store import OutputPool
        elfi.set_client(native.Client())
        rec = Recorder()
        m, refs = build_model(case['spec'], rec)
        pool = OutputPool(list(case['stored']))
        runs_coq = []
        summary = []
        reused = False
        ctx = bh = None
        prev_outs = None
        chain_removed = []        # stores removed between runs that share one ComputationContext
        for k, run in enumerate(case['runs']):
            reuse = run.get('reuse', 'fresh') if k > 0 else 'fresh'
            for nm in run['remove']:
                if pool.has_store(nm):
                    pool.remove_store(nm)
                    if reuse != 'fresh':
                        chain_removed.append(nm)
            if reuse == 'fresh':
                chain_removed = []
            if run['become'] and reuse == 'fresh':
                # replace a downstream deterministic node that is not stored by a fresh operation with the same parents
                import networkx as nx
                cands = [s for s in case['spec'] if s['kind'] in ('summary', 'op') and s['name'] not in case['stored']
                         and m.has_node(s['name'])
                         and not (set(nx.descendants(m.source_net, s['name'])) & set(case['stored']))]
                if cands:
                    s = cands[-1]
                    new = elfi.Operation(rec_op(rec, 'new_' + s['name']), *[m[p] for p in m.get_parents(s['name'])],
                                         name='tmp_' + s['name'] + str(k), model=m)
                    try:
                        m[s['name']].become(new)
                    except Exception:
                        pass
            if reuse == 'fresh':
                outs = [o for o in run['outputs'] if m.has_node(o)]
            else:
                outs = prev_outs
            try:
                if reuse == 'handler':
                    bh.reset()                       # what set_objective does when the same object is sampled again
                else:
                    if reuse == 'fresh':
                        ctx = ComputationContext(batch_size=2, seed=case['seed'], pool=pool)
                    bh = BatchHandler(m, ctx, output_names=outs)
            except ValueError as e:
                if 'Observed nodes must be deterministic' in str(e):
                    self.bump('symbolic_rejected_graph')
                    return dict(mode='symbolic', skipped=True, reused=False, problems=[])
                raise
            prev_outs = outs
            batches = []
            for i in range(run['m']):
                before = {nm: (i in st) for nm, st in pool.stores.items() if st is not None}
                rec.reset()
                try:
                    bh.submit()
                    res, idx = bh.wait_next()
                except KeyError as e:
                    if chain_removed and "'output'" in str(e):
                        # known shape: the executor's order cache of this context predates the removal of a store
                        return dict(mode='symbolic', reused=reused, known=KNOWN_STALE,
                                    problems=[(KNOWN_STALE, 'run %d (reuse=%s) batch %d after remove_store(%s) on the same context raised %s'
                                               % (k, reuse, i, ','.join(chain_removed), str(e)[:120]))])
                    raise
                assert idx == i
                if any(before.values()):
                    reused = True
                items = sorted(res.items())
                batches.append('(%s, %s)' % (clist(['(%s, %s)' % (cstr(a), cvalue(v)) for a, v in items]),
                                             clist([cstr(x) for x in rec.log])))
            dump = []
            for nm in sorted(pool.stores):
                st = pool.stores[nm]
                ent = [] if st is None else ['(%s, %s)' % (cnat(i), cvalue(st[i])) for i in sorted(st)]
                dump.append('(%s, %s)' % (cstr(nm), clist(ent)))
            runs_coq.append('{| ro_reuse := %s; ro_src := %s; ro_outputs := %s; ro_removed := %s; ro_batches := %s; ro_pool_after := %s |}'
                            % ({'fresh': 'Fresh', 'ctx': 'SameContext', 'handler': 'SameHandler'}[reuse],
                               snet_of_model(m), clist([cstr(o) for o in outs]), clist([cstr(x) for x in run['remove']]),
                               clist(batches, sep=';\n    '), clist(dump)))
            summary.append([k, run['m'], len(outs), reuse])
        return dict(mode='symbolic', summary=summary, reused=reused, problems=[],
                    coq='{| o_stored := %s; o_runs := %s; o_arrays := [] |}' % (clist([cstr(s) for s in case['stored']]), clist(runs_coq, sep=';\n  ')))

    # ---- numeric -----------------------------------------------------------------------------------
    def _gen_numeric(self, r):
        self.bump('numeric')
        kind = r.choice(['dict', 'array', 'array'])
        self.bump('pool=' + kind)
        stored = r.choice([['sim'], ['sim', 's1'], ['s1'], ['sim', 't1'], ['sim', 's1', 'd']])
        depth = r.choice([0, 0, 3])
        layout = gen_layout(r, 3 if depth else 2)
        dtype = r.choice(DTYPES_SIM)
        s_layout = r.choice(['view', 'C1', 'F2', 'strided2'])
        self.bump('sim_layout=' + layout.split(':')[0] + ('/3d' if depth else '/2d'))
        self.bump('sim_dtype=' + dtype)
        self.bump('s1_layout=' + s_layout)
        n = r.choice([2, 3, 5])
        n_sim1, extra = r.randint(4, 12), r.randint(1, 8)
        # the calls after the filling one: which Rejection object, which budget, through which entry point
        steps = []
        for _ in range(r.randint(3, 5)):
            st = dict(obj=r.choice(['same', 'same', 'first', 'new']), budget=r.choice(['ns1', 'ns1', 'ns2', 'ns3', 'small']),
                      via=r.choice(['sample', 'sample', 'iterate']))
            steps.append(st)
            self.bump('step:%s/%s' % (st['obj'], st['budget']))
        return dict(mode='numeric', cfg=dict(two_params=False, width=r.choice([1, 2, 3]), levels=r.choice([3, 4, 8]), depth=depth,
                                            layout=layout, dtype=dtype, s_layout=s_layout),
                    b=r.choice([1, 2, 4, 5]), n=n, n_sim1=n_sim1, extra=extra, extra2=r.randint(1, 6), steps=steps,
                    seed=r.randrange(2 ** 31), pool=kind, stored=stored, change_summary=r.random() < 0.5)

    def _run_numeric(self, case):
        import elfi
        import elfi.clients.native as native
        from elfi.store import OutputPool, ArrayPool
        from elfi.client import BatchHandler
        from elfi.model.elfi_model import ComputationContext
        elfi.set_client(native.Client())
        problems = []
        key = 'k%d' % case['seed']
        CALLS.clear()
        b, n, seed = case['b'], case['n'], case['seed']
        stored = list(case['stored'])
        ns1 = max(case['n_sim1'], n)
        ns2 = ns1 + case['extra']
        budgets = dict(ns1=ns1, ns2=ns2, ns3=ns2 + case.get('extra2', 1), small=max(n, ns1 // 2))

        def call(rej, n_sim, via='sample'):
            if via == 'iterate':
                rej.set_objective(n, n_sim=n_sim)
                while not rej.finished:
                    rej.iterate()
                rej.batches.cancel_pending()
                res = rej.extract_result()
            else:
                res = rej.sample(n, n_sim=n_sim, bar=False)
            return dict(outputs=blob(res.outputs), threshold=float(res.threshold), n_sim=int(res.n_sim))

        def run(model, n_sim, pool=None, via='sample'):
            rej = elfi.Rejection(model['d'], batch_size=b, seed=seed, output_names=['s1'], pool=pool)
            return call(rej, n_sim, via), rej

        m = build_counting(case['cfg'], key)
        refs = {}

        def ref(n_sim):
            if n_sim not in refs:
                saved = dict(CALLS)
                refs[n_sim] = run(m, n_sim)[0]
                CALLS.clear()
                CALLS.update(saved)
            return refs[n_sim]
        ref1, ref2 = ref(ns1), ref(ns2)
        free_sim_calls = CALLS.get(key + ':sim', 0)

        def fresh_batch(bi):
            return BatchHandler(m, ComputationContext(batch_size=b, seed=seed), output_names=stored).compute(bi)

        def check_content(pl, upto, when):
            for bi in range(upto):
                fresh = fresh_batch(bi)
                held = pl.get_batch(bi)
                for nm in stored:
                    if nm not in held:
                        problems.append('%s: pool lacks %s for consumed batch %d' % (when, nm, bi))
                    elif not same_array(held[nm], fresh[nm]):
                        problems.append('%s: pool content of %s batch %d differs from a fresh computation (held %s %s, fresh %s %s)'
                                        % (when, nm, bi, np.asarray(held[nm]).dtype, np.asarray(held[nm]).shape,
                                           np.asarray(fresh[nm]).dtype, np.asarray(fresh[nm]).shape))
            for nm in stored:
                st = pl.stores.get(nm)
                if st is not None and len(st) != upto:
                    problems.append('%s: store %s holds %d batches after %d were consumed' % (when, nm, len(st), upto))

        def held(pl, nm, bi):
            st = pl.stores.get(nm) if nm in pl.stores else None
            return st is not None and bi in st

        def expected_calls(pl, nb):
            """how often the counting operations must run for batches 0..nb-1 given what the pool holds now: a stored node
            runs exactly for the batches the pool lacks; the simulator (when not stored) only where the summary must be computed"""
            e_sim = e_s1 = 0
            for bi in range(nb):
                s1_runs = not held(pl, 's1', bi)
                sim_runs = (not held(pl, 'sim', bi)) and ('sim' in pl.stores or s1_runs)
                e_s1 += s1_runs
                e_sim += sim_runs
            return e_sim, e_s1

        def check_calls(what, e_sim, e_s1):
            g_sim, g_s1 = CALLS.get(key + ':sim', 0), CALLS.get(key + ':s1', 0)
            if 'sim' in stored and g_sim != e_sim:
                problems.append('%s: stored simulator ran %d times, the pool lacked %d of the consumed batches' % (what, g_sim, e_sim))
            if 's1' in stored and g_s1 != e_s1:
                problems.append('%s: stored summary ran %d times, the pool lacked %d of the consumed batches' % (what, g_s1, e_s1))
            if 'sim' not in stored and g_sim != e_sim:
                problems.append('%s: simulator ran %d times although the summary computed from it had to be computed for %d batches only'
                                % (what, g_sim, e_sim))

        # with a pool: fill
        if case['pool'] == 'array':
            shutil.rmtree('pools', ignore_errors=True)
            pool = ArrayPool(stored, name='p%d' % seed)
        else:
            pool = OutputPool(stored)
        CALLS.clear()
        nb1 = -(-ns1 // b)
        got1, rej = run(m, ns1, pool)
        if got1 != ref1:
            problems.append('filling run differs from the pool-free run')
        calls_fill = dict(CALLS)
        check_calls('filling run', nb1, nb1)
        if len(pool) != nb1:
            problems.append('pool holds %d batches after consuming %d' % (len(pool), nb1))
        check_content(pool, nb1, 'after the filling run')
        consumed = nb1
        # a history of further calls on the same / the first / a new inference object, several budgets
        first, last = rej, rej
        for si, st in enumerate(case.get('steps', [])):
            n_sim = budgets[st['budget']]
            nb = -(-n_sim // b)
            e_sim, e_s1 = expected_calls(pool, nb)
            CALLS.clear()
            if st['obj'] == 'new':
                got, last = run(m, n_sim, pool, st['via'])
            else:
                if st['obj'] == 'first':
                    last = first
                got = call(last, n_sim, st['via'])
            what = 'call %d (%s object, %s, n_sim=%d over a pool of %d batches)' % (si + 1, st['obj'], st['via'], n_sim, consumed)
            if got != ref(n_sim):
                problems.append('%s differs from the pool-free run' % what)
            check_calls(what, e_sim, e_s1)
            consumed = max(consumed, nb)
            if len(pool) != consumed:
                problems.append('%s: pool holds %d batches after %d were consumed' % (what, len(pool), consumed))
        check_content(pool, consumed, 'after the history')
        # reuse by a new object with the first budget, then a rerun needing more batches than stored
        CALLS.clear()
        e_sim, e_s1 = expected_calls(pool, nb1)
        got1b, _ = run(m, ns1, pool)
        if got1b != ref1:
            problems.append('reusing run differs from the pool-free run')
        check_calls('reusing run', e_sim, e_s1)
        big = max(budgets.values()) + b * case['extra']
        nbig = -(-big // b)
        e_sim, e_s1 = expected_calls(pool, nbig)
        CALLS.clear()
        got2, _ = run(m, big, pool)
        if got2 != ref(big):
            problems.append('rerun with a larger budget differs from the pool-free run')
        check_calls('rerun with a larger budget (%d batches, %d held)' % (nbig, consumed), e_sim, e_s1)
        consumed = max(consumed, nbig)
        # change a downstream node and reuse
        if case['change_summary'] and 's1' not in stored:
            m2 = build_counting(case['cfg'], key)
            import elfi as _e
            new = _e.Summary(summ2, m2['sim'], model=m2, name='s1_new')
            m2['s1'].become(new)
            ref3, _ = run(m2, ns2)
            CALLS.clear()
            got3, _ = run(m2, ns2, pool)
            if got3 != ref3:
                problems.append('after replacing the summary the pooled run differs from the pool-free run')
            if 'sim' in stored and CALLS.get(key + ':sim', 0) != 0:
                problems.append('simulator ran again after replacing a downstream node')
        # on-disk pool: save, reopen, reuse
        if case['pool'] == 'array':
            pool.flush()
            pool.save()
            name = pool.name
            pool.close()
            pool2 = ArrayPool.open(name)
            check_content(pool2, consumed, 'after close + open')
            CALLS.clear()
            got4, rej4 = run(m, ns1, pool2)
            if got4 != ref1:
                problems.append('reopened on-disk pool gives a different result')
            check_calls('run on the reopened on-disk pool', 0, 0)
            CALLS.clear()
            if call(rej4, ns2) != ref2:
                problems.append('second call on the reopened on-disk pool gives a different result')
            check_calls('second call on the reopened on-disk pool', 0, 0)
            pool2.delete()
            shutil.rmtree('pools', ignore_errors=True)
            pool = None
        # refusal of another batch_size / seed
        if pool is not None:
            offers = [(dict(batch_size=b + 1, seed=seed), 'batch_size'), (dict(batch_size=b, seed=seed + 1), 'seed'),
                      (dict(batch_size=b + 1), 'batch_size (seed not given)'), (dict(seed=seed + 7), 'seed (batch_size not given)')]
            if seed != 0:
                offers.append((dict(batch_size=b, seed=0), 'seed (0 offered)'))
            for kw, what in offers:
                try:
                    ComputationContext(pool=pool, **kw)
                    problems.append('a pool created with another %s was accepted' % what)
                except ValueError:
                    pass
        return dict(mode='numeric', problems=problems, reused=True, calls_fill=calls_fill, free_sim_calls=free_sim_calls)

    # ---- store: pool round trips ----------------------------------------------------------------------
    def _gen_store(self, r):
        self.bump('store')
        kind = r.choice(['array', 'array', 'array', 'dict'])
        self.bump('store_pool=' + kind)
        nodes = []
        for nm in r.sample(['sim', 's1', 'd', 't1'], r.randint(1, 3)):
            trail = r.choice([[], [r.randint(1, 4)], [r.randint(2, 4)], [r.randint(1, 3), r.randint(2, 3)], [r.randint(2, 3), r.randint(1, 3)]])
            dtype = r.choice(DTYPES_STORE)
            nb = r.randint(2, 5)
            layouts = [gen_layout(r, 1 + len(trail)) for _ in range(nb + 2)]
            for l in layouts:
                self.bump('store_layout=%s/%dd' % (l.split(':')[0], 1 + len(trail)))
            self.bump('store_dtype=' + dtype)
            nodes.append(dict(name=nm, trail=trail, dtype=dtype, layouts=layouts))
        return dict(mode='store', pool=kind, b=r.choice([1, 2, 3, 5]), seed=r.randrange(2 ** 31), nodes=nodes,
                    nb=r.randint(2, 5), readd=r.random() < 0.5, read_between=r.random() < 0.5)

    def _run_store(self, case):
        from elfi.store import OutputPool, ArrayPool
        from elfi.model.elfi_model import ComputationContext
        problems = []
        b, seed = case['b'], case['seed']
        names = [nd['name'] for nd in case['nodes']]
        cls = ArrayPool if case['pool'] == 'array' else OutputPool
        shutil.rmtree('pools', ignore_errors=True)
        pool = cls(names, name='s%d' % seed)
        ComputationContext(batch_size=b, seed=seed, pool=pool)        # hands the pool its batch_size and seed
        rs = np.random.RandomState(seed % (2 ** 32))
        expected = {nm: {} for nm in names}
        nd_terms = {nm: [] for nm in names}       # the produced arrays (layout and buffer) in the order they were added
        nonc = False

        def produce(i):
            nonlocal nonc
            batch, keep = {}, {}
            for nd in case['nodes']:
                a = rand_array(rs, (b,) + tuple(nd['trail']), nd['dtype'])
                arr = relayout(a, nd['layouts'][i % len(nd['layouts'])])
                nonc = nonc or not arr.flags['C_CONTIGUOUS']
                batch[nd['name']] = arr
                keep[nd['name']] = np.array(a, order='C', copy=True)
            return batch, keep

        def check(pl, when):
            for nm in names:
                for i, want in expected[nm].items():
                    got = pl.get_batch(i)
                    if nm not in got:
                        problems.append('%s: pool lacks %s batch %d' % (when, nm, i))
                    elif not same_array(got[nm], want):
                        g = np.asarray(got[nm])
                        problems.append('%s: %s batch %d read back differs from what was added (%s %s vs %s %s)'
                                        % (when, nm, i, g.dtype, g.shape, want.dtype, want.shape))
                st = pl.stores.get(nm)
                if st is not None and len(st) != len(expected[nm]):
                    problems.append('%s: store %s holds %d batches, %d were added' % (when, nm, len(st), len(expected[nm])))
            extra = pl.get_batch(max([len(e) for e in expected.values()] + [0]))
            if extra:
                problems.append('%s: pool returns data for a batch that was never added' % when)

        def add(pl, i):
            batch, keep = produce(i)
            snapshot = {k: (v.strides, v.tobytes()) for k, v in batch.items()}
            batch['not_stored'] = np.zeros(b)                  # results of nodes without a store are ignored
            pl.add_batch(batch, i)
            for k, (strides, raw) in snapshot.items():
                if batch[k].strides != strides or batch[k].tobytes() != raw:
                    problems.append('add_batch altered the caller\'s array of %s' % k)
            for nm in names:
                expected[nm][i] = keep[nm]
                nd_terms[nm].append(nd_of(batch[nm]))
            if case['readd'] and i > 0:
                other, _ = produce(i)                          # "Do not add again": a held batch is never overwritten
                pl.add_batch(other, i - 1)
            if case['read_between']:
                check(pl, 'after adding batch %d' % i)

        for i in range(case['nb']):
            add(pool, i)
        check(pool, 'same process')
        pool.flush()
        check(pool, 'after flush')
        pool.save()
        name = pool.name
        pool.close()
        pool2 = cls.open(name)
        check(pool2, 'after close + open')
        if pool2.batch_size != b or pool2.seed != seed:
            problems.append('reopened pool has batch_size %r seed %r' % (pool2.batch_size, pool2.seed))
        for i in range(case['nb'], case['nb'] + 2):
            add(pool2, i)
        check(pool2, 'appended after reopening')
        pool2.flush()
        check(pool2, 'appended after reopening, flushed')
        # the same for the Coq model of layouts: produced windows, the data region of the file, what the pool returns
        obs = []
        for nd in case['nodes']:
            nm = nd['name']
            isz = np.dtype(nd['dtype']).itemsize
            reads = []
            for i in sorted(expected[nm]):
                g = pool2.get_batch(i).get(nm)
                g = np.zeros(0, dtype=nd['dtype']) if g is None else np.asarray(g)
                if g.dtype != np.dtype(nd['dtype']) and g.dtype.newbyteorder('=') == np.dtype(nd['dtype']).newbyteorder('='):
                    g = g.astype(nd['dtype'])            # equal up to byte order (a pickled array comes back in native order)
                reads.append(clist([cz(x) for x in elem_codes(g.tobytes(), g.itemsize)]))
            if case['pool'] == 'array':
                with open(os.path.join(pool2.path, nm + '.npy'), 'rb') as f:
                    np.lib.format.read_magic(f)
                    np.lib.format.read_array_header_2_0(f)
                    filedata = '(Some %s)' % clist([cz(x) for x in elem_codes(f.read(), isz)])
            else:
                filedata = 'None'
            obs.append('{| so_batches := %s; so_file := %s; so_read := %s |}' % (clist(nd_terms[nm], sep=';\n   '), filedata, clist(reads)))
        pool2.delete()
        shutil.rmtree('pools', ignore_errors=True)
        return dict(mode='store', problems=problems, reused=nonc,
                    coq='{| o_stored := []; o_runs := []; o_arrays := %s |}' % clist(obs, sep=';\n  '))

    def run_impl(self, case):
        try:
            if case['mode'] == 'symbolic':
                return self._run_symbolic(case)
            if case['mode'] == 'store':
                return self._run_store(case)
            return self._run_numeric(case)
        except (AssertionError, KeyboardInterrupt):
            raise
        except Exception as e:
            if type(e).__name__ == 'CaseTimeout':
                raise
            # a run over a pool must give the result of the pool-free run: raising is a failure of the property
            return dict(mode=case['mode'], reused=True, problems=['a run over the pool raised %s: %s' % (type(e).__name__, str(e)[:200])])

    def py_check(self, case, out):
        probs = out.get('problems', [])
        if not probs:
            return []
        if not isinstance(probs[0], tuple):
            # every failing case is a violation; to keep the number of replay files of one run small only the first few
            # failing cases of each mode are reported (the known-finding shape is not counted here)
            seen = self.__dict__.setdefault('_reported', {})
            seen[case['mode']] = seen.get(case['mode'], 0) + 1
            if seen[case['mode']] > 4:
                self.bump('further_failing_cases_not_reported')
                return []
        p = probs[0]          # one failure per case: the first clause that failed (the rest follows from it more often than not)
        more = ' (+%d more)' % (len(probs) - 1) if len(probs) > 1 else ''
        return [(p[0], p[1] + more) if isinstance(p, tuple) else (case['mode'], p + more)]

    def classify(self, case, out, clause):
        # only the one known shape: KeyError in a run that reuses a ComputationContext after a store was removed from its pool
        if clause == KNOWN_STALE and out.get('known') == KNOWN_STALE and case.get('mode') == 'symbolic':
            return KNOWN_STALE
        return None

    def nontrivial(self, case, out):
        return json.dumps(case, sort_keys=True) if out.get('reused') else None

    def to_coq(self, case, out):
        return out.get('coq')


if __name__ == '__main__':
    sys.exit(run_check(C05))
