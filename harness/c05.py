"""C05 — output pools are transparent: correspondence with coq/Store/Pool.v plus numeric pool runs."""
import os
import shutil
import numpy as np
from functools import partial
from common import *
from graphgen import *
import rejmodels

CALLS = {}


def counting_sim(*params, batch_size=1, random_state=None, width=2, key=None):
    CALLS[key] = CALLS.get(key, 0) + 1
    return rejmodels.sim_fn(*params, batch_size=batch_size, random_state=random_state, width=width)


def counting_summ(x, key=None):
    if np.any(np.asarray(x) != 0):      # the observed twin applies the same callable to the (all-zero) observed data
        CALLS[key] = CALLS.get(key, 0) + 1
    return np.asarray(x)[:, 0]


def summ2(x):
    return np.asarray(x)[:, -1] * 2.0


def build_counting(cfg, key):
    import elfi
    m = elfi.ElfiModel(name='pm')
    t1 = elfi.Prior('uniform', -1, 2, model=m, name='t1')
    params = [t1]
    if cfg.get('two_params'):
        params.append(elfi.Prior('normal', t1, 0.5, model=m, name='t2'))
    sim = elfi.Simulator(partial(counting_sim, width=cfg.get('width', 2), key=key + ':sim'), *params, model=m, name='sim',
                         observed=np.zeros((1, cfg.get('width', 2))))
    s1 = elfi.Summary(partial(counting_summ, key=key + ':s1'), sim, model=m, name='s1')
    elfi.Discrepancy(partial(rejmodels.disc_fn, levels=cfg.get('levels', 4)), s1, model=m, name='d')
    return m


def blob(outputs):
    return {k: (np.asarray(v).shape, np.asarray(v).tobytes().hex()) for k, v in sorted(outputs.items())}


class C05(PropCheck):
    pid = 'C05'
    header = ('From Coq Require Import List String ZArith Bool.\n'
              'From Elfi Require Import Base.Harness Graph.Net Graph.Denote Store.Pool.\nImport ListNotations.\n')
    case_type = 'Pool.case'
    preds = (('Pool.agree', 'agree'), ('Pool.ok', 'ok'))
    chunk = 60
    case_timeout = 120
    build_targets = ('Store/Pool.vo',)
    rule = ('(a) symbolic: random model graphs with recording operations, a stored node set (simulators, things computed from them, '
            'optionally all parameters), 2-3 consecutive BatchHandler runs over one persistent OutputPool (fill, rerun, rerun needing '
            'more batches, rerun after remove_store, rerun after replacing a downstream node), results/call logs/pool content per batch '
            'vs the Coq model and the pool-free meaning; (b) numeric: seeded Rejection with OutputPool and on-disk ArrayPool vs the '
            'same run without a pool (bit identical), operation call counters, pool content vs fresh recomputation, refusal of another '
            'batch_size / seed; non-trivial = a run that reused at least one held batch; distinct by configuration')
    trusted = ('symbolic values do not see the random stream: stream transparency is covered by theorem C05_generator_positions and the numeric runs',)

    def generate(self):
        n = 70 if self.tier == 'quick' else 1000
        r = self.rng
        for i in range(n):
            if i % 2 == 0:
                yield self._gen_symbolic(r)
            else:
                yield self._gen_numeric(r)

    # ---- symbolic ----------------------------------------------------------------------------------
    def _gen_symbolic(self, r):
        spec = gen_spec(r, n_nodes=r.randint(4, 8), named_edges=False, allow_meta=False)
        # keep it acceptable: give every simulator an observation, no prior feeding a discrepancy's observed data
        for s in spec:
            if s['kind'] == 'sim':
                s['observed'] = 1000 + len(s['name'])
        names = [s['name'] for s in spec]
        storeable = [s['name'] for s in spec if s['kind'] in ('sim', 'summary', 'op', 'disc')]
        stored = r.sample(storeable, min(len(storeable), r.randint(1, 3))) if storeable else []
        if r.random() < 0.3:
            stored += [s['name'] for s in spec if s['kind'] == 'prior']
        runs = []
        for k in range(r.randint(2, 3)):
            outs = r.sample(names, r.randint(1, len(names)))
            runs.append(dict(outputs=outs, m=r.randint(1, 4), remove=(r.sample(stored, 1) if stored and k > 0 and r.random() < 0.3 else []),
                             become=(k > 0 and r.random() < 0.3)))
        self.bump('symbolic')
        self.bump('stored=%d' % len(stored))
        return dict(mode='symbolic', spec=spec, stored=sorted(set(stored)), runs=runs, seed=r.randrange(2 ** 31))

    def _run_symbolic(self, case):
        import elfi
        import elfi.clients.native as native
        from elfi.client import BatchHandler
        from elfi.model.elfi_model import ComputationContext
        from elfi.store import OutputPool
        elfi.set_client(native.Client())
        rec = Recorder()
        m, refs = build_model(case['spec'], rec)
        pool = OutputPool(list(case['stored']))
        runs_coq = []
        summary = []
        reused = False
        for k, run in enumerate(case['runs']):
            for nm in run['remove']:
                if pool.has_store(nm):
                    pool.remove_store(nm)
            if run['become']:
                # replace a downstream deterministic node that is not stored by a fresh operation with the same parents
                import networkx as nx
                cands = [s for s in case['spec'] if s['kind'] in ('summary', 'op') and s['name'] not in case['stored']
                         and m.has_node(s['name'])
                         and not (set(nx.descendants(m.source_net, s['name'])) & set(case['stored']))]
                if cands:
                    s = cands[-1]
                    new = elfi.Operation(rec_op(rec, 'new_' + s['name']), *[m[p] for p in m.get_parents(s['name'])],
                                         name='tmp_' + s['name'] + str(k), model=m)
                    try:
                        m[s['name']].become(new)
                    except Exception:
                        pass
            outs = [o for o in run['outputs'] if m.has_node(o)]
            ctx = ComputationContext(batch_size=2, seed=case['seed'], pool=pool)
            try:
                bh = BatchHandler(m, ctx, output_names=outs)
            except ValueError as e:
                if 'Observed nodes must be deterministic' in str(e):
                    self.bump('symbolic_rejected_graph')
                    return dict(mode='symbolic', skipped=True, reused=False, problems=[])
                raise
            batches = []
            for i in range(run['m']):
                before = {nm: (i in st) for nm, st in pool.stores.items() if st is not None}
                rec.reset()
                bh.submit()
                res, idx = bh.wait_next()
                assert idx == i
                if any(before.values()):
                    reused = True
                items = sorted(res.items())
                batches.append('(%s, %s)' % (clist(['(%s, %s)' % (cstr(a), cvalue(v)) for a, v in items]),
                                             clist([cstr(x) for x in rec.log])))
            dump = []
            for nm in sorted(pool.stores):
                st = pool.stores[nm]
                ent = [] if st is None else ['(%s, %s)' % (cnat(i), cvalue(st[i])) for i in sorted(st)]
                dump.append('(%s, %s)' % (cstr(nm), clist(ent)))
            runs_coq.append('{| ro_src := %s; ro_outputs := %s; ro_removed := %s; ro_batches := %s; ro_pool_after := %s |}'
                            % (snet_of_model(m), clist([cstr(o) for o in outs]), clist([cstr(x) for x in run['remove']]),
                               clist(batches, sep=';\n    '), clist(dump)))
            summary.append([k, run['m'], len(outs)])
        return dict(mode='symbolic', summary=summary, reused=reused, problems=[],
                    coq='{| o_stored := %s; o_runs := %s |}' % (clist([cstr(s) for s in case['stored']]), clist(runs_coq, sep=';\n  ')))

    # ---- numeric -----------------------------------------------------------------------------------
    def _gen_numeric(self, r):
        self.bump('numeric')
        kind = r.choice(['dict', 'dict', 'array'])
        self.bump('pool=' + kind)
        stored = r.choice([['sim'], ['sim', 's1'], ['s1'], ['sim', 't1'], ['sim', 's1', 'd']])
        return dict(mode='numeric', cfg=dict(two_params=False, width=r.choice([1, 2]), levels=r.choice([3, 4, 8])),
                    b=r.choice([1, 2, 4]), n=r.choice([2, 3, 5]), n_sim1=r.randint(4, 12), extra=r.randint(1, 8),
                    seed=r.randrange(2 ** 31), pool=kind, stored=stored, change_summary=r.random() < 0.5)

    def _run_numeric(self, case):
        import elfi
        import elfi.clients.native as native
        from elfi.store import OutputPool, ArrayPool
        elfi.set_client(native.Client())
        problems = []
        key = 'k%d' % case['seed']
        CALLS.clear()
        b, n, seed = case['b'], case['n'], case['seed']
        ns1 = max(case['n_sim1'], n)
        ns2 = ns1 + case['extra']

        def run(model, n_sim, pool=None):
            rej = elfi.Rejection(model['d'], batch_size=b, seed=seed, output_names=['s1'], pool=pool)
            res = rej.sample(n, n_sim=n_sim, bar=False)
            return dict(outputs=blob(res.outputs), threshold=float(res.threshold), n_sim=int(res.n_sim)), rej

        m = build_counting(case['cfg'], key)
        ref1, _ = run(m, ns1)
        ref2, _ = run(m, ns2)
        free_sim_calls = CALLS.get(key + ':sim', 0)
        # with a pool: fill
        if case['pool'] == 'array':
            shutil.rmtree('pools', ignore_errors=True)
            pool = ArrayPool(list(case['stored']), name='p%d' % seed)
        else:
            pool = OutputPool(list(case['stored']))
        CALLS.clear()
        got1, rej = run(m, ns1, pool)
        if got1 != ref1:
            problems.append('filling run differs from the pool-free run')
        nb1 = -(-ns1 // b)
        calls_fill = dict(CALLS)
        if len(pool) != nb1:
            problems.append('pool holds %d batches after consuming %d' % (len(pool), nb1))
        # pool content = fresh recomputation
        from elfi.client import BatchHandler
        from elfi.model.elfi_model import ComputationContext
        for bi in range(nb1):
            fresh = BatchHandler(m, ComputationContext(batch_size=b, seed=seed), output_names=list(case['stored'])).compute(bi)
            held = pool.get_batch(bi)
            for nm in case['stored']:
                if nm not in held or np.asarray(held[nm]).tobytes() != np.asarray(fresh[nm]).tobytes():
                    problems.append('pool content of %s batch %d differs from a fresh computation' % (nm, bi))
        # reuse with the same budget: stored operations must not run again
        CALLS.clear()
        got1b, _ = run(m, ns1, pool)
        if got1b != ref1:
            problems.append('reusing run differs from the pool-free run')
        for nm in ('sim', 's1'):
            if nm in case['stored'] and CALLS.get(key + ':' + nm, 0) != 0:
                problems.append('stored node %s ran %d times on reuse' % (nm, CALLS.get(key + ':' + nm)))
        if 'sim' not in case['stored'] and 's1' in case['stored'] and CALLS.get(key + ':sim', 0) != 0:
            problems.append('simulator ran on reuse although everything requested downstream of it is stored')
        # rerun needing more batches than stored
        CALLS.clear()
        got2, _ = run(m, ns2, pool)
        if got2 != ref2:
            problems.append('rerun with a larger budget differs from the pool-free run')
        nb2 = -(-ns2 // b)
        if 'sim' in case['stored'] and CALLS.get(key + ':sim', 0) != nb2 - nb1:
            problems.append('simulator ran %d times for %d new batches' % (CALLS.get(key + ':sim', 0), nb2 - nb1))
        # change a downstream node and reuse
        if case['change_summary'] and 's1' not in case['stored']:
            m2 = build_counting(case['cfg'], key)
            import elfi as _e
            new = _e.Summary(summ2, m2['sim'], model=m2, name='s1_new')
            m2['s1'].become(new)
            ref3, _ = run(m2, ns2)
            CALLS.clear()
            got3, _ = run(m2, ns2, pool)
            if got3 != ref3:
                problems.append('after replacing the summary the pooled run differs from the pool-free run')
            if 'sim' in case['stored'] and CALLS.get(key + ':sim', 0) != 0:
                problems.append('simulator ran again after replacing a downstream node')
        # on-disk pool: save, reopen, reuse
        if case['pool'] == 'array':
            pool.flush()
            pool.save()
            name = pool.name
            pool.close()
            pool2 = ArrayPool.open(name)
            CALLS.clear()
            got4, _ = run(m, ns1, pool2)
            if got4 != ref1:
                problems.append('reopened on-disk pool gives a different result')
            if 'sim' in case['stored'] and CALLS.get(key + ':sim', 0) != 0:
                problems.append('simulator ran again with the reopened on-disk pool')
            pool2.delete()
            shutil.rmtree('pools', ignore_errors=True)
            pool = None
        # refusal of another batch_size / seed
        if pool is not None:
            offers = [(dict(batch_size=b + 1, seed=seed), 'batch_size'), (dict(batch_size=b, seed=seed + 1), 'seed'),
                      (dict(batch_size=b + 1), 'batch_size (seed not given)'), (dict(seed=seed + 7), 'seed (batch_size not given)')]
            if seed != 0:
                offers.append((dict(batch_size=b, seed=0), 'seed (0 offered)'))
            for kw, what in offers:
                try:
                    ComputationContext(pool=pool, **kw)
                    problems.append('a pool created with another %s was accepted' % what)
                except ValueError:
                    pass
        return dict(mode='numeric', problems=problems, reused=True, calls_fill=calls_fill, free_sim_calls=free_sim_calls)

    def run_impl(self, case):
        try:
            if case['mode'] == 'symbolic':
                return self._run_symbolic(case)
            return self._run_numeric(case)
        except (AssertionError, KeyboardInterrupt):
            raise
        except Exception as e:
            if type(e).__name__ == 'CaseTimeout':
                raise
            # a run over a pool must give the result of the pool-free run: raising is a failure of the property
            return dict(mode=case['mode'], reused=True, problems=['a run over the pool raised %s: %s' % (type(e).__name__, str(e)[:200])])

    def py_check(self, case, out):
        return [('numeric', p) for p in out.get('problems', [])[:3]]

    def nontrivial(self, case, out):
        return json.dumps(case, sort_keys=True) if out.get('reused') else None

    def to_coq(self, case, out):
        return out.get('coq')


if __name__ == '__main__':
    sys.exit(run_check(C05))
