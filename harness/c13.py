"""C13 — weighted quantile / variance / ESS / GMDistribution: correspondence with coq/Num/Quantile.v."""
import math
import numpy as np
from common import *

F = fractions.Fraction
TOL = F(1, 10 ** 9)
TOL32 = F(1, 10 ** 5)       # weights held in binary32: the arithmetic on them is binary32 (eps = 6e-8, n <= 24 terms)

INT_RANGE = {'int8': (-2 ** 7, 2 ** 7 - 1), 'int16': (-2 ** 15, 2 ** 15 - 1), 'int32': (-2 ** 31, 2 ** 31 - 1),
             'int64': (-2 ** 63, 2 ** 63 - 1), 'uint8': (0, 2 ** 8 - 1), 'uint16': (0, 2 ** 16 - 1),
             'uint32': (0, 2 ** 32 - 1), 'uint64': (0, 2 ** 64 - 1)}

# ways of holding / scaling a weight vector: everything normalize_weights, compute_ess, weighted_var (since /repo
# 7d9ef43, which repaired the finding of design_notes/C13.md wave 2), the quantile and GMDistribution are specified for
KINDS_ALL = ('f64', 'f64_dec', 'f64_dec', 'f64_pow2', 'subnormal', 'f32', 'f32_dec', 'int', 'int', 'int', 'bool',
             'list_f', 'tuple_f', 'list_i')
KINDS_EXACT_QUANT = ('f64', 'f64_pow2', 'subnormal_exact', 'int_fit', 'int_fit', 'bool_fit', 'list_i_fit', 'tuple_i_fit',
                     'list_f')
DEC_EXTREME = (-323, -320, -310, -300, -250, -200, -170, -162, -160, -155, -154, -150, -100, -30, 30, 100, 150, 153,
               154, 155, 160, 170, 200, 250, 300)
POW2_TARGETS = (-1074, -1070, -1050, -1022, -1000, -600, -540, -537, -520, -512, -511, -500, -100, 0, 100, 500, 510,
                511, 512, 520, 600, 1000, 1015)


def mk_weights(vals, rep):
    """the object handed to the implementation: the numeric values `vals` held as `rep`."""
    if vals is None:
        return None
    if rep in (None, 'float64'):
        return np.array([float(v) for v in vals], dtype=np.float64)
    if rep == 'list':
        return list(vals)
    if rep == 'tuple':
        return tuple(vals)
    if rep == 'bool':
        return np.array([bool(v) for v in vals], dtype=bool)
    if rep == 'float32':
        return np.array([float(v) for v in vals], dtype=np.float32)
    return np.array([int(v) for v in vals], dtype=rep)


def holds_exactly(vals, rep):
    """`rep` can hold every value of `vals` without rounding."""
    try:
        if rep in INT_RANGE:
            lo, hi = INT_RANGE[rep]
            return all(F(v).denominator == 1 and lo <= int(F(v)) <= hi for v in vals)
        if rep == 'bool':
            return all(F(v) in (0, 1) for v in vals)
        with np.errstate(all='ignore'):
            a = mk_weights(vals, rep)
        got = a.tolist() if isinstance(a, np.ndarray) else list(a)
        return len(got) == len(vals) and all(math.isfinite(g) and F(g) == F(v) for g, v in zip(got, vals))
    except (OverflowError, ValueError, TypeError):
        return False


def sum_fits(vals, rep):
    """the sum of the weights is representable where numpy accumulates it (narrow integers are promoted to 64 bit);
    float sums keep a factor-4 margin below the largest finite value."""
    tot = sum(F(v) for v in vals)
    if rep == 'float32':
        return tot < F(2) ** 126
    if rep in ('int64', 'uint64'):
        return tot <= INT_RANGE[rep][1]
    if rep in INT_RANGE or rep == 'bool':
        return True
    if rep in ('list', 'tuple') and all(isinstance(v, int) for v in vals):
        return tot <= INT_RANGE['int64'][1] and all(v <= INT_RANGE['int64'][1] for v in vals)
    return tot < F(2) ** 1022


def tol_of(rep):
    return TOL32 if rep == 'float32' else TOL


def exact_number(fr):
    """a Fraction as the Python number (int or float) with exactly that value, or None."""
    fr = F(fr)
    if fr.denominator == 1:
        return int(fr)
    try:
        x = fr.numerator / fr.denominator
    except OverflowError:
        return None
    return x if F(x) == fr else None


def ldexp(v, k):
    try:
        return math.ldexp(v, k)
    except OverflowError:
        return math.inf


def log2_floor(fr):
    fr = F(fr)
    e = fr.numerator.bit_length() - fr.denominator.bit_length()
    return e if F(2) ** e <= fr else e - 1


def fl(v):
    """float result -> float or None (nan/inf/non-scalar)."""
    try:
        v = float(v)
    except Exception:
        return None
    return v if math.isfinite(v) else None


def fl_list(a):
    """1-D float result -> list of floats, or None when an entry is nan/inf or the shape is not 1-D."""
    try:
        a = np.asarray(a)
        if a.ndim != 1:
            return None
        l = [float(v) for v in a]
    except Exception:
        return None
    return l if all(math.isfinite(v) for v in l) else None


class Stop(Exception):
    pass


class C13(PropCheck):
    pid = 'C13'
    header = ('From Coq Require Import List ZArith QArith Bool.\nFrom Elfi Require Import Base.Harness Num.Quantile.\n'
              'Import ListNotations.\nOpen Scope Q_scope.\n')
    case_type = 'Quantile.case'
    preds = (('Quantile.agree', 'agree'), ('Quantile.ok', 'ok'))
    chunk = 40
    rule = ('every weight vector is handed over in a generated representation (float64 at a common scale 1e-323..1e300 or '
            '2^-1074..2^1015, subnormals, float32 incl. its extremes, int8..uint64 up to the dtype maximum / around sqrt(max), '
            'bool, list, tuple); the model receives the numeric values only.  six case kinds: weights (normalize_weights and '
            'compute_ess called on the same numbers in two representations and on exact multiples 2^k of them), quant (weighted_sample_quantile directly and through Sample.sample_quantiles / '
            'sample_means_and_95CIs, several alphas per sample, weights and scale*weights), stat (normalize_weights, compute_ess, '
            'weighted_var 1-D and as a column of a 2-D array), pdf (GMDistribution.pdf/logpdf, component densities from '
            'scipy.stats.multivariate_normal as oracle table), rvs (GMDistribution.rvs with a recording box constraint; the hard '
            'stream prescribes the acceptance probability of the constraint, 0.5 down to 1e-4 -- support in the tail of every component, a thin slab, '
            'a corner -- with sizes 1..20 such that the accept loop needs up to ~10^4 rounds: exactly `size` rows, all inside), '
            'hist (a caller\'s session of 3-8 pdf / logpdf / rvs calls on the class in which the arrays passed before -- covariance as matrix, '
            '0-d / (1,) / (1,1) array or scalar, means, weights, points -- are kept, EDITED IN PLACE or replaced between the calls, with calls of other '
            'dimensions and shapes in between: every call equals the stateless model on the numbers passed at that call, and the library leaves the caller\'s arrays unchanged). '
            'non-trivial = quant case with >=2 rows that has a tie in x, a zero weight or an alpha on a cumulative-weight boundary; '
            'stat case with >=2 positive weights; weights case with >=2 positive weights and >=2 calls; pdf case with >=2 components; rvs case that needed >=2 trials; hist case with >=2 calls in which an array object passed before is passed again; distinct by input')
    trusted = ('scipy.stats.multivariate_normal.pdf as the normal-density oracle N(x; m, C) (table supplied per case); numpy.log as ln',
               'numpy.argsort returns a permutation that sorts x (checked per case by is_sorting_perm)',
               'binary64 vs Q: exact comparison on dyadic inputs (integer weights with power-of-two sum, dyadic alpha), '
               'relative tolerance 1e-9 otherwise (1e-5 when the weights are held in binary32)',
               'a weight array in dtype T is described to the model by the exact rational values of its entries')

    # ------------------------------------------------------------------------------------------
    # generators
    # ------------------------------------------------------------------------------------------
    def _values(self, n, exact):
        r = self.rng
        style = r.choice(['ties', 'ties', 'distinct', 'const', 'sorted', 'reversed'])
        if exact:
            pool = [r.randint(-8, 8) / r.choice([1, 1, 2, 4]) for _ in range(max(1, n // 2))]
            allv = [r.randint(-64, 64) / 4.0 for _ in range(n)]
        else:
            pool = [round(r.uniform(-5, 5), r.choice([1, 3, 12])) for _ in range(max(1, n // 2))]
            allv = [r.uniform(-5, 5) * r.choice([1, 1, 1e-3, 1e3]) for _ in range(n)]
        if style == 'ties':
            xs = [r.choice(pool) for _ in range(n)]
        elif style == 'const':
            xs = [pool[0]] * n
        else:
            xs = allv
            if style == 'sorted':
                xs = sorted(xs)
            elif style == 'reversed':
                xs = sorted(xs, reverse=True)
        self.bump('x=' + style)
        return [float(v) for v in xs]

    def _int_weights_pow2(self, n):
        """non-negative integer weights whose sum is a power of two (zeros likely)."""
        r = self.rng
        k = r.randint(0, 7)
        total = 2 ** k
        w = [0] * n
        style = r.choice(['units', 'blocks', 'one'])
        if style == 'one':
            w[r.randrange(n)] = total
        elif style == 'units':
            for _ in range(total):
                w[r.randrange(n)] += 1
        else:
            left = total
            while left > 0:
                b = r.randint(1, left)
                w[r.randrange(n)] += b
                left -= b
        return [float(v) for v in w], k

    # -- representations of a weight vector ------------------------------------------------------------------
    def _int_values(self, base, top):
        m = max(base)
        return [0 if v == 0 else min(top, max(1, int(round(v / m * top)))) for v in base]

    def _try_represent(self, base, kind):
        """`base`: non-negative floats of ordinary size -> (numeric values as Python floats/ints, representation)."""
        r = self.rng
        n = len(base)
        with np.errstate(all='ignore'):
            if kind == 'f64':
                return [float(v) for v in base], 'float64'
            if kind == 'f64_dec':
                c = 10.0 ** r.choice(DEC_EXTREME + (r.randint(-323, 300), r.randint(-323, 300)))
                return [float(v * c) for v in base], 'float64'
            if kind == 'f64_pow2':
                k = r.choice(POW2_TARGETS + (r.randint(-1074, 1015),))
                return [ldexp(v, k - 1) for v in base], 'float64'
            if kind == 'subnormal':
                return [float(i * 5e-324) for i in self._int_values(base, 2 ** r.randint(0, 40))], 'float64'
            if kind == 'f32':
                return [float(v) for v in np.array(base, dtype=np.float32)], 'float32'
            if kind == 'f32_dec':
                c = 10.0 ** r.choice([-45, -44, -40, -38, -30, -25, -20, -19, -18, -10, 10, 18, 19, 20, 25, 30, 37,
                                      r.randint(-45, 37)])
                return [float(v) for v in (np.array(base, dtype=np.float64) * c).astype(np.float32)], 'float32'
            if kind == 'int':
                dt = r.choice(sorted(INT_RANGE))
                hi = INT_RANGE[dt][1]
                cap = hi // n if dt in ('int64', 'uint64') else hi
                style = r.choice(['small', 'max', 'sqrt', 'any'])
                top = {'small': 9, 'max': cap, 'sqrt': math.isqrt(hi) * r.choice([1, 1, 2, 3]), 'any': r.randint(1, cap)}[style]
                self.bump('weights int magnitude=' + style)
                return self._int_values(base, max(1, min(cap, top))), dt
            if kind == 'bool':
                return [1 if v > 0 else 0 for v in base], 'bool'
            if kind in ('list_f', 'tuple_f'):
                return [float(v) for v in base], kind.split('_')[0]
            if kind == 'list_i':
                return self._int_values(base, r.choice([9, 1000, 2 ** 31, 2 ** 40, 2 ** 58 // n])), 'list'
        raise ValueError(kind)

    def _represent(self, base, kinds=KINDS_ALL, what=''):
        for _ in range(8):
            kind = self.rng.choice(kinds)
            vals, rep = self._try_represent(base, kind)
            if (all(math.isfinite(v) for v in vals) and all((b > 0) == (v > 0) for b, v in zip(base, vals))
                    and holds_exactly(vals, rep) and sum_fits(vals, rep)):
                break
        else:
            kind, vals, rep = 'f64', [float(v) for v in base], 'float64'
        self.bump('%sweights as %s' % (what, kind if kind != 'int' else rep))
        return vals, rep

    def _represent_pow2_ints(self, ws):
        """exact quantile mode: integer weights (sum a power of two <= 128) in a container that holds them, or
        times an exact common factor 2^k (down to subnormals)."""
        r = self.rng
        ints = [int(v) for v in ws]
        top = max(ints)
        for _ in range(8):
            kind = r.choice(['f64', 'f64', 'pow2', 'pow2', 'int', 'int', 'int', 'bool', 'list_i', 'tuple_i', 'list_f'])
            if kind == 'f64':
                vals, rep = [float(v) for v in ints], 'float64'
            elif kind == 'pow2':
                k = r.choice([-1074, -1073, -1070, -1022, -1000, -600, -512, -100, 100, 512, 600, 1000, 1015, r.randint(-1074, 1015)])
                vals, rep = [ldexp(float(v), k) for v in ints], 'float64'
            elif kind == 'int':
                rep = r.choice([d for d in sorted(INT_RANGE) if INT_RANGE[d][1] >= top])
                vals = ints
                kind = rep
            elif kind == 'bool':
                vals, rep = ints, 'bool'
            elif kind == 'list_f':
                vals, rep = [float(v) for v in ints], 'list'
            else:
                vals, rep = ints, kind.split('_')[0]
            if holds_exactly(vals, rep) and sum_fits(vals, rep) and all(F(v) * top == F(vals[ints.index(top)]) * i
                                                                        for v, i in zip(vals, ints)):
                self.bump('quant exact weights as ' + kind)
                return vals, rep
        return [float(v) for v in ints], 'float64'

    def _exact_scale_k(self, vals, n):
        """k such that every 2^k * v is a binary64 (no rounding, no overflow of the sum); spans the whole range."""
        r = self.rng
        pos = [F(v) for v in vals if v > 0]
        if not pos:
            return r.randint(-4, 6)
        e_hi = log2_floor(max(pos))
        for _ in range(12):
            k = r.choice(POW2_TARGETS + (r.randint(-1074, 1015), r.randint(-1074, 1015))) - e_hi
            if r.random() < 0.25:
                k = r.randint(-4, 6)
            sv = [exact_number(F(v) * F(2) ** k) for v in vals]
            if all(x is not None for x in sv) and holds_exactly(sv, 'float64') and sum_fits(sv, 'float64'):
                return k
        return 0

    def _float_scale(self, vals, n):
        """a common factor c such that every c * v (v > 0) stays a normal binary64 and the sum stays finite."""
        r = self.rng
        pos = [float(v) for v in vals if v > 0]
        cands = [r.uniform(0.1, 10), 1e-6, 3.0, 1e5]
        r.shuffle(cands)
        if pos:
            m = math.floor(math.log10(max(pos)))
            ext = [t - m for t in (-285, -250, -200, -170, -160, -155, -150, -100, 100, 150, 153, 155, 160, 200, 250, 295,
                                   r.randint(-285, 295))]
            r.shuffle(ext)
            ext = [10.0 ** e for e in ext if -307 <= e <= 307]
            cands = (ext[:2] + cands) if r.random() < 0.6 else cands
        for c in cands:
            if all(1e-290 <= v * c <= 1e300 / n for v in pos):
                self.bump('quant float scale %s' % ('extreme' if not 1e-7 < c < 1e6 else 'ordinary'))
                return c
        return 1.0

    def gen_quant(self, malformed=False):
        r = self.rng
        exact = malformed or r.random() < 0.6
        n = r.choice([1, 1, 2, 2, 3, 4, 5, 6, 8, 8, 12, 16, r.randint(1, 24)])
        if not exact:
            n = min(n, 12)
        case = dict(kind='quant', exact=exact, malformed=None)
        if exact:
            use_none = r.random() < 0.15
            if use_none:
                n = r.choice([1, 2, 4, 8, 16])
                ws, k = None, int(math.log2(n))
            else:
                ws, k = self._int_weights_pow2(n)
            xs = self._values(n, True)
            den = 2 ** k
            alphas = {0.0, 1.0}
            for _ in range(r.randint(2, 5)):
                j = r.randint(0, den)
                t = r.choice(['on', 'on', 'off', 'tiny_above', 'tiny_below'])
                a = {'on': j / den, 'off': (j + 0.5) / den, 'tiny_above': j / den + 2.0 ** -30,
                     'tiny_below': j / den - 2.0 ** -30}[t]
                if 0 <= a <= 1:
                    alphas.add(a)
                    self.bump('alpha=' + t)
            if r.random() < 0.5:
                alphas.discard(0.0)
            if r.random() < 0.3:
                alphas.discard(1.0)
            alphas = sorted(alphas)
            if r.random() < 0.3:
                r.shuffle(alphas)
            scale = 2.0 ** r.randint(-4, 6)
            if ws is not None and not malformed:
                ws, case['wrep'] = self._represent_pow2_ints(ws)
                case['scale_k'] = self._exact_scale_k(ws, n)
                scale = None
                self.bump('quant exact scaled weights at 2^%s' % (lambda e: '(<-1022)' if e < -1022 else '(-1022..-500)' if e < -500
                          else '(-500..500)' if e <= 500 else '(>500)')(log2_floor(max(F(v) for v in ws)) + case['scale_k']))
            if malformed:
                m = r.choice(['alpha_gt1', 'alpha_lt0', 'empty', 'zero_w', 'short_w', 'neg_w'])
                case['malformed'] = m
                if m == 'alpha_gt1':
                    alphas = [1.5, 1.0 + 2.0 ** -20] + alphas[:1]
                elif m == 'alpha_lt0':
                    alphas = [-0.25, -2.0 ** -40] + alphas[:1]
                elif m == 'empty':
                    xs, ws = [], ([] if r.random() < 0.5 else None)
                elif m == 'zero_w':
                    ws = [0.0] * len(xs)
                elif m == 'short_w':
                    ws = (ws if ws is not None else [1.0] * len(xs))[:-1]
                elif m == 'neg_w':
                    ws = ws if ws is not None else [1.0] * len(xs)
                    if len(ws) >= 2:
                        i, j = r.sample(range(len(ws)), 2)
                        ws[i] += 2.0 + ws[j]      # the sum stays the same non-zero power of two (a zero sum with
                        ws[j] = -2.0              # non-zero entries gives +-inf weights, outside the model)
                    else:
                        ws = [-1.0]
                self.bump('quant malformed=' + m)
        else:
            xs = self._values(n, False)
            wstyle = r.choice(['none', 'grid20', 'grid20', 'full', 'tiny_and_big'])
            if wstyle == 'none':
                ws = None
            elif wstyle == 'grid20':
                ws = [r.choice([0.0, 1.0]) * r.randint(0, 2 ** 20) / 2.0 ** 20 if r.random() < 0.3
                      else r.randint(1, 2 ** 20) / 2.0 ** 20 for _ in range(n)]
            elif wstyle == 'full':
                ws = [0.0 if r.random() < 0.2 else r.random() for _ in range(n)]
            else:
                ws = [r.choice([1e-12, 1.0, 1e6]) * r.random() for _ in range(n)]
            if ws is not None and sum(ws) <= 0:
                ws[r.randrange(n)] = 1.0
            alphas = [0.025, 0.975] + [r.choice([0.0, 1.0, 0.5, r.random(), r.random(), round(r.random(), 2)])
                                      for _ in range(r.randint(1, 3))]
            if ws is not None and n >= 2 and r.random() < 0.2:
                # rounded cumulative weights may stay below alpha = 1: the forced last entry then selects the
                # largest value even when its weight is zero
                ws[max(range(n), key=lambda i: xs[i])] = 0.0
                if sum(ws) <= 0:
                    ws[min(range(n), key=lambda i: xs[i])] = 0.7
                alphas.append(1.0)
                self.bump('quant float zero-weight maximum, alpha=1')
            if ws is not None and r.random() < 0.6:
                ws, case['wrep'] = self._represent(ws, what='quant float ')
            scale = self._float_scale(ws, n) if ws is not None else 1.0
            self.bump('quant float w=' + wstyle)
        self.bump('quant exact' if exact else 'quant float')
        self.bump('quant n=%s' % (n if n < 5 else '5-8' if n <= 8 else '9+'))
        case.update(xs=xs, ws=ws, alphas=[float(a) for a in alphas], scale=None if scale is None else float(scale))
        return case

    def gen_stat(self, malformed=False):
        r = self.rng
        n = r.choice([1, 2, 2, 3, 4, 5, 8, r.randint(1, 14)])
        xs = self._values(n, r.random() < 0.3)
        xs = [v if abs(v) < 100 else v / 1000.0 for v in xs]
        if not malformed and n >= 2 and r.random() < 0.25:
            # wave 4: a sample far from the origin relative to its spread (|mean| / sd up to 1e8, e.g. a concentrated SMC
            # population of a parameter of order 1e6): the definition is evaluated exactly on these floats by the model, a
            # sum-of-squares ("one pass") evaluation loses eps * (mean / sd)^2 of the digits
            off = r.choice([1e4, 1e6, -1e6, 1e8])
            xs = [off + r.uniform(-1, 1) for _ in range(n)]
            self.bump('stat offset |mean|/sd >= 1e4')
        wstyle = r.choice(['none', 'equal', 'ints', 'grid', 'full', 'one_nonzero'])
        if wstyle == 'none':
            ws = None
        elif wstyle == 'equal':
            c = r.choice([1.0, 0.25, 3.0, r.randint(1, 2 ** 16) / 2.0 ** 8])
            ws = [c] * n
        elif wstyle == 'ints':
            ws = [float(r.randint(0, 9)) for _ in range(n)]
        elif wstyle == 'grid':
            ws = [r.randint(0, 2 ** 16) / 2.0 ** 16 for _ in range(n)]
        elif wstyle == 'full':
            ws = [0.0 if r.random() < 0.15 else r.uniform(0.05, 1) for _ in range(n)]
        else:
            ws = [0.0] * n
            ws[r.randrange(n)] = float(r.randint(1, 1000))
        if ws is not None and sum(ws) <= 0:
            ws[r.randrange(n)] = 1.0
        if ws is not None and sum(1 for v in ws if v > 0) < 2:
            # one effective observation: the variance is 0/0 -- in every representation, because the code normalises
            # first and w / w == 1.0 exactly
            self.bump('stat single effective observation')
        wrep = None
        if ws is not None and not malformed and r.random() < 0.7:
            ws, wrep = self._represent(ws, what='stat ')
        m = None
        if malformed:
            m = r.choice(['neg_w', 'zero_w', 'short_w', 'empty'])
            if m == 'neg_w':
                ws = [float(r.randint(1, 9)) for _ in range(n)]
                ws[r.randrange(n)] = -1.0
                if n == 1:
                    ws = [-1.0]
            elif m == 'zero_w':
                ws = [0.0] * n
            elif m == 'short_w':
                ws = [1.0] * (n - 1)
            else:
                xs, ws = [], []
            self.bump('stat malformed=' + m)
        else:
            self.bump('stat w=' + wstyle)
        return dict(kind='stat', xs=xs, ws=ws, wrep=None if m else wrep, malformed=m, extra_col=[r.uniform(-3, 3) for _ in xs])

    def gen_weights(self, malformed=False):
        """normalize_weights / compute_ess on one vector of numeric weights: in a generated representation, the same
        numbers in a second representation, and exact multiples 2^k of them (k over the whole binary64 range)."""
        r = self.rng
        n = r.choice([1, 2, 2, 3, 4, 5, 8, 14, r.randint(1, 24)])
        style = r.choice(['uniform', 'zeros', 'equal', 'dominant', 'importance', 'counts'])
        if style == 'uniform':
            base = [r.uniform(0.05, 1) for _ in range(n)]
        elif style == 'zeros':
            base = [0.0 if r.random() < 0.4 else r.uniform(0.05, 1) for _ in range(n)]
        elif style == 'equal':
            base = [r.choice([1.0, 0.25, 0.7])] * n
        elif style == 'dominant':
            base = [r.uniform(1e-6, 1e-3) for _ in range(n)]
            base[r.randrange(n)] = 1.0
        elif style == 'importance':       # exp(log p - log q): many orders of magnitude inside one vector
            base = [math.exp(r.gauss(0, r.choice([1, 5, 15]))) for _ in range(n)]
        else:
            base = [float(r.randint(0, 20)) for _ in range(n)]
        if sum(base) <= 0:
            base[r.randrange(n)] = 1.0
        self.bump('weights style=' + style)
        if malformed:
            m = r.choice(['neg', 'neg', 'zero', 'empty'])
            if m == 'neg':
                rep = r.choice(['float64', 'float32', 'int8', 'int32', 'int64', 'list'])
                vals = [int(r.randint(0, 9)) for _ in range(n)]
                vals[r.randrange(n)] = -r.randint(1, 9)
                if rep in ('float64', 'float32'):
                    vals = [v * 0.25 for v in vals]
            elif m == 'zero':
                rep = r.choice(['float64', 'float32', 'uint8', 'int64', 'bool', 'list', 'tuple'])
                vals = [0] * n if rep not in ('float64', 'float32') else [0.0] * n
            else:
                rep = r.choice(['float64', 'int32', 'list'])
                vals = []
            self.bump('weights malformed=%s as %s' % (m, rep))
            return dict(kind='weights', ws=vals, runs=[dict(k=0, rep=rep, vals=vals)], malformed=m)
        vals, rep = self._represent(base, what='ess ')
        runs = [dict(k=0, rep=rep, vals=vals)]      # `vals`: the very Python numbers put into the container
        alts = [a for a in ['float64', 'float32', 'list', 'tuple', 'bool'] + sorted(INT_RANGE)
                if a != rep and holds_exactly(vals, a) and sum_fits(vals, a)]
        if alts:
            a = r.choice(alts)
            runs.append(dict(k=0, rep=a, vals=vals))
            self.bump('ess same numbers also as ' + a)
        pos = [F(v) for v in vals if v > 0]
        e_hi = log2_floor(max(pos))
        for _ in range(r.randint(1, 3)):
            for _try in range(12):
                k = r.choice(POW2_TARGETS + (r.randint(-1074, 1015), r.randint(-1074, 1015))) - e_hi
                if r.random() < 0.15:
                    k = r.randint(-6, 6)
                sv = [exact_number(F(v) * F(2) ** k) for v in vals]
                if any(x is None for x in sv):
                    continue
                reps = [a for a in ['float64', 'float64', 'float64', 'float32', 'list'] + sorted(INT_RANGE)
                        if holds_exactly(sv, a) and sum_fits(sv, a)]
                if reps and k != 0:
                    a = r.choice(reps)
                    runs.append(dict(k=k, rep=a, vals=sv))
                    t = e_hi + k
                    self.bump('ess multiple 2^k*w as %s, largest weight at 2^%s' % (
                        a, '(<-1022)' if t < -1022 else '(-1022..-500)' if t < -500 else '(-500..500)' if t <= 500 else '(>500)'))
                    break
        self.bump('weights n=%s' % (n if n < 5 else '5-8' if n <= 8 else '9+'))
        return dict(kind='weights', ws=vals, runs=runs, malformed=None)

    def gen_pdf(self, malformed=False):
        r = self.rng
        d = r.choice([1, 1, 2, 3])
        k = r.randint(1, 5) if d == 1 else r.randint(2, 5)
        npts = r.randint(1, 4)
        means = [[round(r.uniform(-2, 2), 3) for _ in range(d)] for _ in range(k)]
        pts = [[round(r.uniform(-3, 3), 3) for _ in range(d)] for _ in range(npts)]
        if r.random() < 0.3:
            pts[0] = list(means[r.randrange(k)])
        if d == 1 or r.random() < 0.4:
            cov = r.choice([1.0, 0.25, 2.5, round(r.uniform(0.05, 4), 3)])
        else:
            a = np.array([[r.uniform(-1, 1) for _ in range(d)] for _ in range(d)])
            cov = (a @ a.T + np.eye(d) * r.uniform(0.2, 1.0)).tolist()
        wstyle = r.choice(['none', 'ints', 'floats', 'normalised', 'with_zero'])
        if wstyle == 'none':
            ws = None
        elif wstyle == 'ints':
            ws = [float(r.randint(1, 9)) for _ in range(k)]
        elif wstyle == 'floats':
            ws = [r.uniform(0.01, 5) for _ in range(k)]
        elif wstyle == 'normalised':
            ws = [r.uniform(0.1, 1) for _ in range(k)]
            s = sum(ws)
            ws = [v / s for v in ws]
        else:
            ws = [float(r.randint(0, 3)) for _ in range(k)]
            ws[r.randrange(k)] = 2.0
            if k > 1:
                ws[(ws.index(2.0) + 1) % k] = 0.0
        m = None
        wrep = None
        if ws is not None and not malformed and r.random() < 0.6:
            ws, wrep = self._represent(ws, what='pdf ')
        if malformed:
            m = r.choice(['neg_w', 'zero_w'])
            ws = [1.0] * k
            if m == 'neg_w':
                ws[r.randrange(k)] = -0.5
            else:
                ws = [0.0] * k
            self.bump('pdf malformed=' + m)
        else:
            self.bump('pdf d=%d' % d)
            self.bump('pdf w=' + wstyle)
        return dict(kind='pdf', d=d, means=means, pts=pts, cov=cov, ws=ws, wrep=wrep, malformed=m)

    def gen_rvs(self):
        r = self.rng
        d = r.choice([1, 1, 2, 3])
        k = r.randint(1, 4) if d == 1 else r.randint(2, 4)
        means = [[round(r.uniform(-2, 2), 2) for _ in range(d)] for _ in range(k)]
        cov = r.choice([1.0, 0.5, 2.0]) if (d == 1 or r.random() < 0.5) else (np.eye(d) * r.uniform(0.3, 2)).tolist()
        ws = r.choice([None, [float(r.randint(1, 5)) for _ in range(k)], [r.choice([0.0, 1.0, 1.0]) * r.uniform(0.05, 1) for _ in range(k)]])
        wrep = None
        if ws is not None and sum(ws) <= 0:
            ws[r.randrange(k)] = 1.0
        if ws is not None and r.random() < 0.6:
            ws, wrep = self._represent(ws, what='rvs ')
        size = r.choice([0, 1, 1, 2, 3, 5, 8, 12])
        tight = r.choice(['none', 'wide', 'medium', 'narrow'])
        c = means[r.randrange(k)]
        half = {'none': None, 'wide': 50.0, 'medium': 1.5, 'narrow': 0.6}[tight]
        box = None if half is None else [[c[j] - half * r.uniform(0.5, 1), c[j] + half * r.uniform(0.5, 1)] for j in range(d)]
        self.bump('rvs box=' + tight)
        self.bump('rvs d=%d' % d)
        return dict(kind='rvs', d=d, means=means, cov=cov, ws=ws, wrep=wrep, size=size, box=box,
                    outside=r.choice(['-inf', 'nan', '+inf']), seed=r.randrange(2 ** 31))

    # -- rvs under hard constraints (wave 3) ---------------------------------------------------------------
    ACCEPT_TARGETS = (0.5, 0.2, 0.05, 0.02, 0.01, 5e-3, 3e-3, 2e-3, 1e-3, 1e-3, 5e-4, 3e-4, 1e-4)

    @staticmethod
    def _box_acceptance(means, sig, wn, box):
        """exact acceptance probability of an axis-parallel box under sum_i wn_i N(m_i, C) when either C is diagonal
        (sig = sqrt of its diagonal) or only one coordinate is really constrained (marginal of that coordinate)."""
        tail = lambda z: 0.5 * math.erfc(z / math.sqrt(2.0))
        p = 0.0
        for m, w in zip(means, wn):
            q = w
            for j, (lo, hi) in enumerate(box):
                q *= max(0.0, tail((lo - m[j]) / sig[j]) - tail((hi - m[j]) / sig[j]))
            p += q
        return p

    def gen_rvs_hard(self):
        """a constraint of prescribed acceptance probability (0.5 down to 1e-4) and a size 1..20 such that the unchanged
        accept loop needs about H(size)/acceptance rounds -- up to ~10^4, far more than any plausible round limit."""
        r = self.rng
        d = r.choice([1, 1, 2, 2, 3])
        k = r.randint(1, 3) if d == 1 else r.randint(2, 3)
        means = [[round(r.uniform(-1.5, 1.5), 2) for _ in range(d)] for _ in range(k)]
        style = r.choice(['tail', 'tail', 'narrow', 'corner']) if d > 1 else r.choice(['tail', 'tail', 'narrow'])
        if d == 1 or style == 'corner' or r.random() < 0.5:
            c = r.choice([1.0, 0.5, 2.0, round(r.uniform(0.3, 2), 2)])
            cov = c if (d == 1 or r.random() < 0.6) else (np.eye(d) * c).tolist()
            sig = [math.sqrt(c)] * d
        else:       # full matrix: one constrained coordinate, whose marginal is N(m_j, C_jj)
            a = np.array([[r.uniform(-1, 1) for _ in range(d)] for _ in range(d)])
            cm = a @ a.T + np.eye(d) * r.uniform(0.3, 1.0)
            cov = cm.tolist()
            sig = [math.sqrt(cm[j, j]) for j in range(d)]
        ws = r.choice([None, [float(r.randint(1, 5)) for _ in range(k)], [r.choice([0.0, 1.0, 1.0]) * r.uniform(0.05, 1) for _ in range(k)]])
        if ws is not None and sum(ws) <= 0:
            ws[r.randrange(k)] = 1.0
        wn = [1.0 / k] * k if ws is None else [v / sum(ws) for v in ws]
        BIG = 1e9
        j0 = r.randrange(d)
        width = r.choice([0.5, 1.0, 2.0, BIG])
        top = max(m[j0] for m in means)
        ctr = means[r.randrange(k)]

        def box_of(t):
            if style == 'tail':         # the support of coordinate j0 lies in the upper tail of every component
                return [[top + t, min(BIG, top + t + width)] if j == j0 else [-BIG, BIG] for j in range(d)]
            if style == 'narrow':       # a thin slab around a component mean
                return [[ctr[j] - t, ctr[j] + t] if j == j0 else [-BIG, BIG] for j in range(d)]
            return [[ctr[j] + t * sig[j], BIG] for j in range(d)]      # corner: every coordinate above a threshold
        target = r.choice(self.ACCEPT_TARGETS)
        lo, hi = (0.0, 12.0 * max(sig) + 4.0) if style != 'narrow' else (1e-9, 12.0 * max(sig) + 4.0)
        incr = style == 'narrow'
        for _ in range(80):
            mid = 0.5 * (lo + hi)
            pm = self._box_acceptance(means, sig, wn, box_of(mid))
            if (pm < target) == incr:
                lo = mid
            else:
                hi = mid
        box = box_of(0.5 * (lo + hi))
        p = self._box_acceptance(means, sig, wn, box)
        if not (0.3 * target <= p <= 1.0):      # e.g. the target cannot be reached (acceptance at t = 0 already below it)
            p = max(p, 1e-12)
        budget = 10500.0 if p < 2e-4 else 6000.0 if p < 4e-4 else 3000.0      # rounds; about 0.3 ms each
        h, smax = 0.0, 0
        for sz in range(1, 21):
            h += 1.0 / sz
            if h / p <= budget:
                smax = sz
        if smax == 0:           # acceptance below the reachable range: keep the run bounded by an easier constraint
            self.bump('rvs hard: target unreachable, skipped')
            return self.gen_rvs()
        size = r.choice([smax, r.randint(1, smax), r.randint(1, smax)])
        expect = sum(1.0 / i for i in range(1, size + 1)) / p
        self.bump('rvs hard acceptance~%s' % ('%.0e' % p if p < 0.1 else '%.1f' % p))
        self.bump('rvs hard style=' + style)
        self.bump('rvs hard size=%s' % (size if size <= 3 else '4-8' if size <= 8 else '9-20'))
        self.bump('rvs hard expected rounds %s' % ('<100' if expect < 100 else '100-1000' if expect < 1000 else '1000-4000' if expect < 4000 else '>4000'))
        self.bump('rvs d=%d' % d)
        return dict(kind='rvs', d=d, means=means, cov=cov, ws=ws, wrep=None, size=size, box=box, hard=True,
                    acceptance=p, max_rounds=int(max(2000, 8 * expect)),
                    outside=r.choice(['-inf', '-inf', 'nan', '+inf']), seed=r.randrange(2 ** 31))

    # -- histories of calls on the class (wave 3) ------------------------------------------------------------
    @staticmethod
    def _pd_ok(c):
        ev = np.linalg.eigvalsh(np.array(c, dtype=float))
        return ev[0] >= 0.1 and ev[-1] <= 30.0

    def _new_cov(self, d, form):
        r = self.rng
        if form != 'matrix':
            return r.choice([1.0, 0.25, 2.5, round(r.uniform(0.15, 4), 3)])
        while True:
            a = np.array([[r.uniform(-1, 1) for _ in range(d)] for _ in range(d)])
            c = (a @ a.T + np.eye(d) * r.uniform(0.2, 1.0))
            c = ((c + c.T) / 2).tolist()
            if self._pd_ok(c):
                return c

    def _edit_cov(self, cur, d, form):
        """the numbers a caller would leave in its covariance array after an in-place edit."""
        r = self.rng
        how = r.choice(['scale', 'scale', 'offdiag', 'diag', 'new'])
        if form != 'matrix':
            if how in ('scale', 'offdiag', 'diag'):
                f = r.choice([0.25, 0.5, 2.0, 4.0])
                f = f if 0.1 <= cur * f <= 30 else 1.0 / f
                return 'scale', cur * f
            return 'new', self._new_cov(d, form)
        c = np.array(cur, dtype=float)
        if how == 'scale':
            f = r.choice([0.25, 0.5, 2.0, 4.0])
            if not self._pd_ok(c * f):
                f = 1.0 / f
            if self._pd_ok(c * f):
                return how, (c * f).tolist()
        elif how == 'offdiag':
            for _ in range(6):
                i, j = r.sample(range(d), 2)
                c2 = c.copy()
                c2[i, j] = c2[j, i] = r.uniform(-0.9, 0.9) * math.sqrt(c[i, i] * c[j, j])
                if self._pd_ok(c2):
                    return how, c2.tolist()
        elif how == 'diag':
            c2 = c.copy()
            i = r.randrange(d)
            c2[i, i] = c2[i, i] * r.choice([1.5, 2.0, 3.0]) + r.choice([0.0, 0.5])
            if self._pd_ok(c2):
                return how, c2.tolist()
        return 'new', self._new_cov(d, form)

    def gen_hist(self):
        """a caller's session with the class-level API: 3-8 calls of pdf / logpdf / rvs; between the calls the caller
        keeps, EDITS IN PLACE or replaces the arrays (cov, means, weights, x) it passed before; calls of other
        dimensions / component counts in between.  The case records, per call, the numbers passed and, per argument,
        whether the array object of the same role and shape is re-used ('reuse': the numbers are written into it in place)
        or a new object is passed ('fresh')."""
        r = self.rng
        nctx = r.choice([1, 1, 2, 2, 3])
        d0 = r.choice([1, 2, 2, 3])
        ctxs = []
        for c in range(nctx):
            d = d0 if (c == 0 or r.random() < 0.5) else r.choice([1, 2, 3])
            ctxs.append(dict(d=d, k=r.randint(1, 4) if d == 1 else r.randint(2, 4), npts=r.randint(1, 3),
                             form=r.choice(['scalar', 'arr0', 'arr1', 'arr11', 'arr1'] if d == 1 else ['matrix', 'matrix', 'matrix', 'arr0', 'scalar'])))
        cur = {}        # label -> numbers currently held by the caller's array of that role and shape
        steps = []
        ctx = ctxs[0]
        self.bump('hist contexts=%d' % nctx)
        for t in range(r.randint(3, 8)):
            if nctx > 1 and t > 0 and r.random() < 0.3:
                new = r.choice([c for c in ctxs if c is not ctx])
                self.bump('hist switch to %s' % ('another dimension' if new['d'] != ctx['d'] else 'the same dimension, other shapes'))
                ctx = new
            d, k, npts = ctx['d'], ctx['k'], ctx['npts']
            form = ctx['form']
            if r.random() < 0.12:      # the caller passes its covariance in another form for once
                form = r.choice(['scalar', 'arr0', 'arr1', 'arr11'] if d == 1 else ['matrix', 'arr0', 'scalar'])
            call = r.choice(['pdf', 'pdf', 'pdf', 'logpdf', 'logpdf', 'rvs'])
            step = dict(call=call, d=d)

            def arg(role, label, fresh_values, edit):
                """decide what the caller does with its array `label` before this call."""
                if label not in cur:
                    cur[label] = fresh_values()
                    what = 'first use'
                    mode = 'reuse'
                else:
                    what = r.choice(['same', 'same', 'same', 'inplace', 'inplace', 'inplace', 'inplace', 'fresh', 'fresh copy'])
                    mode = 'reuse'
                    if what == 'inplace':
                        how, vals = edit(cur[label])
                        cur[label] = vals
                        what = 'inplace ' + how
                    elif what == 'fresh':       # another object with other numbers; the old object keeps its numbers
                        self.bump('hist %s: %s' % (role, what))
                        return dict(values=fresh_values(), mode='fresh')
                    elif what == 'fresh copy':
                        mode = 'fresh'
                self.bump('hist %s: %s' % (role, what))
                return dict(values=cur[label], mode=mode)

            # covariance
            if form == 'scalar':
                lab = 'cov/scalar/%d' % d
                if lab in cur and r.random() < 0.5:
                    _, cur[lab] = self._edit_cov(cur[lab], d, form)
                elif lab not in cur:
                    cur[lab] = self._new_cov(d, form)
                step['cov'] = dict(form=form, values=cur[lab], mode='fresh')
                self.bump('hist cov: python scalar')
            else:
                lab = 'cov/%s/%d' % (form, d if form == 'matrix' else 0)
                step['cov'] = dict(form=form, **arg('cov', lab, lambda: self._new_cov(d, form), lambda c: self._edit_cov(c, d, form)))
            self.bump('hist cov form=' + form)
            # means
            newmeans = lambda: [[round(r.uniform(-2, 2), 3) for _ in range(d)] for _ in range(k)]

            def edit_means(m):
                how = r.choice(['shift', 'one', 'new'])
                if how == 'shift':
                    dl = [round(r.uniform(-0.5, 0.5), 3) for _ in range(d)]
                    return how, [[max(-2.5, min(2.5, v + e)) for v, e in zip(row, dl)] for row in m]
                if how == 'one':
                    m = [list(row) for row in m]
                    m[r.randrange(k)] = [round(r.uniform(-2, 2), 3) for _ in range(d)]
                    return how, m
                return how, newmeans()
            step['means'] = arg('means', 'means/%d/%d' % (d, k), newmeans, edit_means)
            # weights
            if r.random() < 0.25:
                step['ws'] = None
                self.bump('hist weights: None')
            else:
                def neww():
                    w = r.choice([[float(r.randint(1, 9)) for _ in range(k)], [r.uniform(0.01, 5) for _ in range(k)],
                                  [r.choice([0.0, 1.0, 1.0]) * r.uniform(0.05, 1) for _ in range(k)]])
                    if sum(w) <= 0:
                        w[r.randrange(k)] = 1.0
                    return w

                def edit_w(w):
                    how = r.choice(['scale', 'zero', 'one', 'new'])
                    w = list(w)
                    if how == 'scale':
                        f = r.choice([0.5, 2.0, 0.1, 10.0, 1.0 / sum(w)])
                        return how, [v * f for v in w]
                    if how == 'zero' and sum(1 for v in w if v > 0) >= 2:
                        w[r.choice([i for i, v in enumerate(w) if v > 0])] = 0.0
                        return how, w
                    if how == 'one':
                        w[r.randrange(k)] = r.uniform(0.05, 5)
                        return how, w
                    return 'new', neww()
                step['ws'] = arg('weights', 'w/%d' % k, neww, edit_w)
            # points / sampler arguments
            if call == 'rvs':
                size = r.choice([1, 1, 2, 3, 5])
                tight = r.choice(['none', 'wide', 'medium'])
                c = step['means']['values'][r.randrange(k)]
                half = {'none': None, 'wide': 50.0, 'medium': 1.5}[tight]
                step.update(size=size, seed=r.randrange(2 ** 31), outside=r.choice(['-inf', 'nan', '+inf']),
                            box=None if half is None else [[c[j] - half * r.uniform(0.5, 1), c[j] + half * r.uniform(0.5, 1)] for j in range(d)])
            else:
                newx = lambda: [[round(r.uniform(-3, 3), 3) for _ in range(d)] for _ in range(npts)]

                def edit_x(x):
                    how = r.choice(['shift', 'at a mean', 'new'])
                    if how == 'shift':
                        dl = [round(r.uniform(-0.5, 0.5), 3) for _ in range(d)]
                        return how, [[max(-3.5, min(3.5, v + e)) for v, e in zip(row, dl)] for row in x]
                    if how == 'at a mean':
                        x = [list(row) for row in x]
                        x[r.randrange(npts)] = list(step['means']['values'][r.randrange(k)])
                        return how, x
                    return how, newx()
                step['x'] = arg('x', 'x/%d/%d' % (d, npts), newx, edit_x)
            self.bump('hist call=%s d=%d' % (call, d))
            steps.append(json.loads(json.dumps(step)))     # a snapshot: later edits must not reach earlier steps
        self.bump('hist calls=%d' % len(steps))
        return dict(kind='hist', steps=steps)

    def gen_gm1(self):
        """exactly one component in dimension d >= 2 (means of shape (1, d))."""
        r = self.rng
        d = r.choice([2, 2, 3])
        a = np.array([[r.uniform(-1, 1) for _ in range(d)] for _ in range(d)])
        self.bump('gm1 d=%d' % d)
        return dict(kind='gm1', d=d, means=[[round(r.uniform(-2, 2), 2) for _ in range(d)]],
                    pts=[[round(r.uniform(-2, 2), 2) for _ in range(d)] for _ in range(r.randint(1, 3))],
                    cov_matrix=(a @ a.T + np.eye(d) * 0.5).tolist(), cov_scalar=r.choice([1.0, 0.5, 2.0]),
                    size=r.choice([1, 3, 5]), seed=r.randrange(2 ** 31))

    def generate(self):
        f = 1 if self.tier == 'quick' else 20
        r = self.rng
        for _ in range(260 * f):
            yield self.gen_quant()
        for _ in range(40 * f):
            yield self.gen_quant(malformed=True)
        for _ in range(110 * f):
            yield self.gen_stat()
        for _ in range(25 * f):
            yield self.gen_stat(malformed=True)
        for _ in range(120 * f):
            yield self.gen_weights()
        for _ in range(20 * f):
            yield self.gen_weights(malformed=True)
        for _ in range(70 * f):
            yield self.gen_pdf()
        for _ in range(10 * f):
            yield self.gen_pdf(malformed=True)
        for _ in range(90 * f):
            yield self.gen_rvs()
        for _ in range(6 * f):
            yield self.gen_gm1()
        for _ in range(60 * f):
            yield self.gen_hist()
        for _ in range(32 * (1 if f == 1 else 8)):
            yield self.gen_rvs_hard()

    # ------------------------------------------------------------------------------------------
    # implementation drivers
    # ------------------------------------------------------------------------------------------
    def run_impl(self, case):
        return getattr(self, 'impl_' + case['kind'])(case)

    @staticmethod
    def _call(f, *a, **kw):
        """(value, error-name)"""
        try:
            return f(*a, **kw), None
        except (IndexError, ValueError, ZeroDivisionError) as e:
            return None, type(e).__name__

    def impl_quant(self, case):
        from elfi.methods.utils import weighted_sample_quantile
        from elfi.methods.results import Sample
        x = np.array(case['xs'], dtype=float)
        w = mk_weights(case['ws'], case.get('wrep'))
        if w is None:
            ws = None
        elif case.get('scale_k') is not None:      # exact multiples 2^k * w, as binary64
            ws = mk_weights([exact_number(F(v) * F(2) ** case['scale_k']) for v in case['ws']], 'float64')
        else:
            with np.errstate(all='ignore'):
                ws = np.array([float(v) for v in case['ws']], dtype=np.float64) * case['scale']
        runs = []
        for a in case['alphas']:
            q, e = self._call(weighted_sample_quantile, x, a, w)
            qs, es = (None, None) if w is None else self._call(weighted_sample_quantile, x, a, ws)
            smp = Sample('probe', {'p': x}, ['p'], weights=w)
            q2, e2 = self._call(lambda: smp.sample_quantiles(alpha=a)['p'])
            runs.append(dict(alpha=a, q=fl(q) if e is None else None, err=e, qs=fl(qs) if es is None else None, errs=es,
                             via_sample=fl(q2) if e2 is None else None, via_sample_err=e2,
                             raw_nonfinite=(e is None and fl(q) is None)))
        ci, ce = self._call(lambda: Sample('probe', {'p': x}, ['p'], weights=w).sample_means_and_95CIs['p'])
        d025, _ = self._call(weighted_sample_quantile, x, 0.025, w)
        d975, _ = self._call(weighted_sample_quantile, x, 0.975, w)
        return dict(runs=runs, index=[int(i) for i in np.argsort(x)],
                    ci=None if ci is None else [fl(ci[1]), fl(ci[2])], ci_direct=[fl(d025) if d025 is not None else None,
                                                                                  fl(d975) if d975 is not None else None])

    def impl_stat(self, case):
        from elfi.methods.utils import normalize_weights, compute_ess, weighted_var
        x = np.array(case['xs'], dtype=float)
        w = mk_weights(case['ws'], case.get('wrep'))
        out = dict(norm=None, ess=None)
        if w is not None:
            with np.errstate(all='ignore'):
                nw, e = self._call(normalize_weights, w)
                out['norm'] = None if e else fl_list(nw)
                out['norm_err'] = e
                es, e = self._call(compute_ess, w)
                out['ess'] = None if e else fl(es)
                out['ess_err'] = e
        with np.errstate(all='ignore'):
            v, e = self._call(weighted_var, x, w)
            out['var'] = None if e else fl(v)
            out['var_err'] = e
            # the same column inside a 2-D array (observations in rows)
            x2 = np.column_stack([x, np.array(case['extra_col'], dtype=float)]) if len(x) else None
            if x2 is not None:
                v2, e2 = self._call(weighted_var, x2, w)
                out['var_2d'] = None if e2 else [fl(v2[0]), fl(v2[1])]
                v1, e1 = self._call(weighted_var, x2[:, 1], w)
                out['var_col1'] = None if e1 else fl(v1)
        return out

    def impl_weights(self, case):
        from elfi.methods.utils import normalize_weights, compute_ess
        runs = []
        for rn in case['runs']:
            sv = rn['vals']
            w = mk_weights(sv, rn['rep'])
            held = [F(v) for v in (w.tolist() if isinstance(w, np.ndarray) else w)]
            assert held == [F(v) * F(2) ** rn['k'] for v in case['ws']], 'harness: %s does not hold 2^k * w' % rn['rep']
            with np.errstate(all='ignore'):
                nw, e1 = self._call(normalize_weights, w)
                es, e2 = self._call(compute_ess, w)
            after = [F(v) for v in (w.tolist() if isinstance(w, np.ndarray) else w)]
            runs.append(dict(norm=None if e1 else fl_list(nw), norm_err=e1, ess=None if e2 else fl(es), ess_err=e2,
                             raw_ess=None if e2 else repr(es), mutated=after != held,
                             nonfinite=(e1 is None and fl_list(nw) is None) or (e2 is None and fl(es) is None)))
        return dict(runs=runs)

    @staticmethod
    def _shape_args(case):
        d = case['d']
        means = np.array(case['means'], dtype=float)
        pts = np.array(case['pts'], dtype=float) if 'pts' in case else None
        if d == 1:
            means = means[:, 0]
            pts = None if pts is None else pts[:, 0]
        cov = case['cov'] if not isinstance(case['cov'], list) else np.array(case['cov'])
        w = mk_weights(case['ws'], case.get('wrep'))
        return means, pts, cov, w

    def impl_pdf(self, case):
        import scipy.stats as ss
        from elfi.methods.utils import GMDistribution
        means, pts, cov, w = self._shape_args(case)
        with np.errstate(all='ignore'):
            p, e = self._call(GMDistribution.pdf, pts, means, cov, w)
            lp, le = self._call(GMDistribution.logpdf, pts, means, cov, w)
        dens = [[float(ss.multivariate_normal.pdf(x, mean=m, cov=cov)) for m in means] for x in pts]
        out = dict(pdf=None if e else [float(v) for v in np.atleast_1d(p)], err=e,
                   logpdf=None if le else [float(v) for v in np.atleast_1d(lp)], dens=dens)
        if e is None:
            # single-point call conventions: a scalar / one row in, a scalar out
            p0 = GMDistribution.pdf(pts[0], means, cov, w)
            out['pdf_single'] = float(p0) if np.ndim(p0) == 0 else 'shape %s' % (np.shape(p0),)
        return out

    def _run_rvs(self, means, cov, w, d, size, box, outside, seed, max_rounds=400, condense=False):
        """one call of GMDistribution.rvs with a recording box constraint.  `condense`: batches in which no row was
        accepted are counted but not kept (they leave the state of the accept loop unchanged, C13_rvs_rejected_batch);
        the kept batches are a proposal stream on which the model makes the same decisions."""
        from elfi.methods.utils import GMDistribution
        bad = {'-inf': -np.inf, 'nan': np.nan, '+inf': np.inf}[outside]
        batches = []
        count = dict(rounds=0, candidates=0)

        t_start = time.time()

        def prior_logpdf(x):
            # out of fuel: far more rounds than the constraint needs (or, on an overloaded machine, a minute of them)
            if count['rounds'] >= max_rounds or (count['rounds'] % 256 == 255 and time.time() - t_start > 60):
                raise Stop('too many trials')
            x = np.asarray(x)
            rows_ = x.reshape(len(x), -1)
            count['rounds'] += 1
            count['candidates'] += len(rows_)
            if box is None:
                inside = np.ones(len(rows_), dtype=bool)
            else:
                inside = np.all([(rows_[:, j] >= box[j][0]) & (rows_[:, j] <= box[j][1]) for j in range(d)], axis=0)
            if not condense or inside.any():
                batches.append([[float(v) for v in row] for row in rows_])
            if box is None:
                return np.zeros(len(x))
            return np.where(inside, -1.25, bad)

        try:
            o = GMDistribution.rvs(means, cov, w, size=size, prior_logpdf=prior_logpdf,
                                   random_state=np.random.RandomState(seed))
        except Stop:
            self.bump('rvs gave up after %s trials (excluded: out of fuel)' % (400 if max_rounds == 400 else '8x the expected number of'))
            return dict(out=None, batches=batches[:3], gave_up=True, rounds=count['rounds'])
        except Exception as e:      # a crash on a valid request is a failure of the property, with a concrete replay
            return dict(out=None, batches=batches[:3], crashed='%s: %s' % (type(e).__name__, str(e)[:200]), rounds=count['rounds'])
        o = np.asarray(o)
        out = dict(out=[[float(v) for v in np.atleast_1d(row)] for row in o], shape=list(o.shape), batches=batches,
                   rounds=count['rounds'], candidates=count['candidates'])
        if box is None:
            o2 = GMDistribution.rvs(means, cov, w, size=size, random_state=np.random.RandomState(seed))
            out['same_without_constraint'] = bool(np.array_equal(np.asarray(o2), o))
        return out

    def impl_rvs(self, case):
        means, _, cov, w = self._shape_args(case)
        hard = bool(case.get('hard'))
        out = self._run_rvs(means, cov, w, case['d'], case['size'], case['box'], case['outside'], case['seed'],
                            max_rounds=case.get('max_rounds', 400), condense=hard)
        if hard and out.get('rounds') is not None and not out.get('gave_up'):
            n = out['rounds']
            self.bump('rvs hard rounds used %s' % ('<100' if n < 100 else '100-1000' if n < 1000 else '1000-4000' if n < 4000 else '>4000'))
        return out

    # -- histories of calls ------------------------------------------------------------------------------------
    @staticmethod
    def _hist_build(role, spec, d):
        """a NEW object holding the numbers of `spec` in the shape the caller uses for `role`."""
        v = spec['values']
        if role == 'cov':
            form = spec['form']
            if form == 'scalar':
                return float(v)
            if form == 'matrix':
                return np.array(v, dtype=float)
            return np.array(float(v)).reshape({'arr0': (), 'arr1': (1,), 'arr11': (1, 1)}[form])
        a = np.array(v, dtype=float)
        if role in ('means', 'x') and d == 1:
            a = a[:, 0]
        return a

    def impl_hist(self, case):
        import scipy.stats as ss
        from elfi.methods.utils import GMDistribution
        pool = {}       # the caller's long-lived arrays, by role and shape
        outs = []
        for st in case['steps']:
            d = st['d']
            args, held = {}, {}
            for role in ('cov', 'means', 'ws', 'x'):
                spec = st.get(role)
                if spec is None:
                    args[role] = None
                    continue
                new = self._hist_build(role, spec, d)
                key = (role, spec.get('form'), np.shape(new))
                if spec['mode'] == 'reuse' and isinstance(new, np.ndarray):
                    if key in pool:
                        pool[key][...] = new        # the caller edits its array in place
                    else:
                        pool[key] = new
                    new = pool[key]
                args[role] = new
                held[role] = np.array(new, dtype=float, copy=True)
            # the component densities for the numbers of THIS call, from objects nobody else ever sees
            means_c = np.array(st['means']['values'], dtype=float)
            cv = st['cov']['values']
            cov_c = np.array(cv, dtype=float) if st['cov']['form'] == 'matrix' else float(cv) * np.eye(d)
            o = dict(call=st['call'])
            with np.errstate(all='ignore'):
                if st['call'] == 'rvs':
                    o.update(self._run_rvs(args['means'], args['cov'], args['ws'], d, st['size'], st['box'], st['outside'], st['seed']))
                else:
                    pts_c = np.array(st['x']['values'], dtype=float)
                    o['dens'] = [[float(ss.multivariate_normal.pdf(x, mean=m, cov=cov_c)) for m in means_c] for x in pts_c]
                    f = GMDistribution.pdf if st['call'] == 'pdf' else GMDistribution.logpdf
                    v, e = self._call(f, args['x'], args['means'], args['cov'], args['ws'])
                    o['err'] = e
                    if e is None:
                        v = np.asarray(v)
                        o['shape'] = list(v.shape)
                        vals = [float(t) for t in np.atleast_1d(v)]
                        if st['call'] == 'pdf':
                            o['pdf'] = vals if all(math.isfinite(t) for t in vals) else None
                            o['raw'] = vals
                        else:
                            o['logpdf'] = vals
                            ex = [float(np.exp(t)) for t in vals]
                            o['exp'] = ex if all(math.isfinite(t) for t in ex) else None
            o['mutated'] = [role for role, h in held.items()
                            if not np.array_equal(np.asarray(args[role], dtype=float), h)]
            outs.append(o)
        return dict(steps=outs)

    def impl_gm1(self, case):
        from elfi.methods.utils import GMDistribution
        means = np.array(case['means'], dtype=float)
        pts = np.array(case['pts'], dtype=float)
        out = {}
        for name, cov in (('matrix', np.array(case['cov_matrix'])), ('scalar', case['cov_scalar'])):
            try:
                p = GMDistribution.pdf(pts, means, cov)
                out['pdf_' + name] = [float(v) for v in np.atleast_1d(p)] if np.size(p) == len(pts) else 'shape %s' % (np.shape(p),)
            except Exception as e:
                out['pdf_' + name] = 'raised %s: %s' % (type(e).__name__, str(e)[:80])
            try:
                o = GMDistribution.rvs(means, cov, size=case['size'], random_state=np.random.RandomState(case['seed']))
                out['rvs_shape_' + name] = list(np.shape(o))
            except Exception as e:
                out['rvs_shape_' + name] = 'raised %s: %s' % (type(e).__name__, str(e)[:80])
        return out

    # ------------------------------------------------------------------------------------------
    # python-side clauses
    # ------------------------------------------------------------------------------------------
    def py_check(self, case, out):
        bad = []
        k = case['kind']
        if k == 'quant':
            for rn in out['runs']:
                if rn['raw_nonfinite']:
                    bad.append(('quant_finite', 'alpha=%r returned a non-finite value' % rn['alpha']))
                if (rn['q'], rn['err'] is None) != (rn['via_sample'], rn['via_sample_err'] is None):
                    bad.append(('sample_quantiles', 'Sample.sample_quantiles(alpha=%r)=%r but weighted_sample_quantile=%r'
                                % (rn['alpha'], rn['via_sample'], rn['q'])))
            if out['ci'] is not None and out['ci'] != out['ci_direct']:
                bad.append(('sample_95CI', 'sample_means_and_95CIs %r != direct quantiles %r' % (out['ci'], out['ci_direct'])))
        elif k == 'weights':
            for rn, o in zip(case['runs'], out['runs']):
                if o['mutated']:
                    bad.append(('weights_not_mutated', 'the caller\'s weights (2^%d * w as %s) were modified' % (rn['k'], rn['rep'])))
        elif k == 'stat':
            if case['malformed'] is None and out.get('var_2d') is not None:
                if out['var_2d'][0] != out['var'] or out['var_2d'][1] != out['var_col1']:
                    a, b = np.array([out['var_2d'][0], out['var_2d'][1]], dtype=float), np.array([out['var'], out['var_col1']], dtype=float)
                    if not np.allclose(a, b, rtol=1e-9, atol=1e-12, equal_nan=True):
                        bad.append(('var_columnwise', '2-D result %r != per-column results %r' % (out['var_2d'], [out['var'], out['var_col1']])))
            if case['malformed'] is None and case['ws'] is not None and out['var'] is not None and len(case['xs']) > 1:
                w = np.array(case['ws'])
                if len(set(case['ws'])) == 1:
                    ref = float(np.var(np.array(case['xs']), ddof=1))
                    if not math.isclose(ref, out['var'], rel_tol=1e-9, abs_tol=1e-12):
                        bad.append(('var_equal_weights', 'equal weights: %r != np.var(ddof=1) = %r' % (out['var'], ref)))
        elif k == 'pdf':
            if out['pdf'] is not None:
                import scipy.stats as ss
                from scipy.special import logsumexp
                means, pts, cov, w = self._shape_args(case)
                if w is None:
                    wn = np.ones(len(means)) / len(means)
                else:       # exact normalised weights of the numeric values, whatever their representation
                    tot = sum(F(v) for v in case['ws'])
                    wn = np.array([float(F(v) / tot) for v in case['ws']])
                rt = 1e-5 if case.get('wrep') == 'float32' else 1e-10
                for j, x in enumerate(pts):
                    ref = sum(wn[i] * ss.multivariate_normal.pdf(x, mean=means[i], cov=cov) for i in range(len(means)))
                    if not math.isclose(ref, out['pdf'][j], rel_tol=rt, abs_tol=1e-300):
                        bad.append(('pdf_scipy', 'pdf[%d]=%r, scipy mixture sum=%r' % (j, out['pdf'][j], ref)))
                    lref = logsumexp([np.log(wn[i]) + ss.multivariate_normal.logpdf(x, mean=means[i], cov=cov)
                                      for i in range(len(means)) if wn[i] > 0])
                    if out['logpdf'] is None or not math.isclose(lref, out['logpdf'][j], rel_tol=10 * rt, abs_tol=10 * rt):
                        bad.append(('logpdf_scipy', 'logpdf[%d]=%r, logsumexp reference=%r' % (j, out['logpdf'] and out['logpdf'][j], lref)))
                    if out['logpdf'] is not None and out['logpdf'][j] != float(np.log(out['pdf'][j])):
                        bad.append(('logpdf_is_log_pdf', 'logpdf[%d]=%r != log(pdf)=%r' % (j, out['logpdf'][j], float(np.log(out['pdf'][j])))))
                if out.get('pdf_single') != out['pdf'][0]:
                    if isinstance(out.get('pdf_single'), str) or not math.isclose(out['pdf_single'], out['pdf'][0], rel_tol=1e-12):
                        bad.append(('pdf_single_point', 'pdf(one point)=%r, first of batch=%r' % (out.get('pdf_single'), out['pdf'][0])))
        elif k == 'gm1':
            import scipy.stats as ss
            m = np.array(case['means'][0])
            for name, cov in (('matrix', np.array(case['cov_matrix'])), ('scalar', case['cov_scalar'])):
                ref = [float(ss.multivariate_normal.pdf(x, mean=m, cov=cov)) for x in case['pts']]
                got = out['pdf_' + name]
                if isinstance(got, str) or not np.allclose(got, ref, rtol=1e-10, atol=0):
                    bad.append(('gm_single_component', 'one component, d=%d, %s cov: pdf=%r, expected N(x; m, C)=%r'
                                % (case['d'], name, got, ref)))
                if out['rvs_shape_' + name] != [case['size'], case['d']]:
                    bad.append(('gm_single_component', 'one component, d=%d, %s cov: rvs(size=%d) shape %r, expected %r'
                                % (case['d'], name, case['size'], out['rvs_shape_' + name], [case['size'], case['d']])))
        elif k == 'hist':
            import scipy.stats as ss
            from scipy.special import logsumexp
            for t, (st, o) in enumerate(zip(case['steps'], out['steps'])):
                where = 'call %d of %d (%s, d=%d)' % (t + 1, len(case['steps']), st['call'], st['d'])
                if o['mutated']:
                    bad.append(('hist_inputs_not_mutated', '%s: the library modified the caller\'s %s' % (where, '/'.join(o['mutated']))))
                if st['call'] == 'rvs':
                    if o.get('crashed'):
                        bad.append(('rvs_completes', '%s: rvs(size=%d) raised %s' % (where, st['size'], o['crashed'])))
                    if o['out'] is not None:
                        want = [st['size']] + ([] if st['d'] == 1 else [st['d']])
                        if o['shape'] != want:
                            bad.append(('rvs_shape', '%s: shape %r, expected %r' % (where, o['shape'], want)))
                        if o.get('same_without_constraint') is False:
                            bad.append(('rvs_no_constraint', '%s: prior_logpdf=None differs from an always-finite prior_logpdf' % where))
                    continue
                if o['err'] is not None:
                    bad.append(('hist_call_completes', '%s raised %s on valid arguments' % (where, o['err'])))
                    continue
                k_ = len(st['means']['values'])
                if st['ws'] is None:
                    wn = [1.0 / k_] * k_
                else:
                    tot = sum(F(v) for v in st['ws']['values'])
                    wn = [float(F(v) / tot) for v in st['ws']['values']]
                if o['shape'] != [len(o['dens'])]:
                    bad.append(('hist_shape', '%s: result shape %r for %d points' % (where, o['shape'], len(o['dens']))))
                    continue
                for j, dens in enumerate(o['dens']):
                    ref = sum(wi * di for wi, di in zip(wn, dens))
                    if st['call'] == 'pdf':
                        if not math.isclose(ref, o['raw'][j], rel_tol=1e-10, abs_tol=1e-300):
                            bad.append(('hist_pdf', '%s: pdf[%d]=%r but the weighted sum of the component densities for the '
                                        'numbers passed at this call is %r' % (where, j, o['raw'][j], ref)))
                    else:
                        lref = float(np.log(ref)) if ref > 0 else -math.inf
                        got = o['logpdf'][j]
                        if not (got == lref or math.isclose(lref, got, rel_tol=1e-9, abs_tol=1e-9)):
                            bad.append(('hist_logpdf', '%s: logpdf[%d]=%r but log of the weighted sum of the component densities '
                                        'for the numbers passed at this call is %r' % (where, j, got, lref)))
        elif k == 'rvs':
            if out.get('crashed'):
                bad.append(('rvs_completes', 'rvs(size=%d) raised %s' % (case['size'], out['crashed'])))
            if out['out'] is not None:
                want = [case['size']] + ([] if case['d'] == 1 else [case['d']])
                if out['shape'] != want:
                    bad.append(('rvs_shape', 'shape %r, expected %r' % (out['shape'], want)))
                if out.get('same_without_constraint') is False:
                    bad.append(('rvs_no_constraint', 'prior_logpdf=None differs from an always-finite prior_logpdf for the same seed'))
        return bad

    def nontrivial(self, case, out):
        k = case['kind']
        if case.get('malformed') or k == 'gm1':
            return None
        if k == 'quant':
            xs, ws = case['xs'], case['ws']
            if len(xs) < 2:
                return None
            tie = len(set(xs)) < len(xs)
            zero = ws is not None and any(v == 0 for v in ws)
            onb = False
            if case['exact']:
                w = ws if ws is not None else [1.0] * len(xs)
                s = sum(w)
                cum, c = set(), 0.0
                for i in out['index']:
                    c += w[i]
                    cum.add(c / s)
                onb = any(a in cum for a in case['alphas'] if 0 < a < 1)
            if not (tie or zero or onb):
                return None
        elif k == 'stat':
            if case['ws'] is not None and sum(1 for v in case['ws'] if v > 0) < 2:
                return None
            if len(case['xs']) < 2:
                return None
        elif k == 'weights':
            if sum(1 for v in case['ws'] if v > 0) < 2 or len(case['runs']) < 2:
                return None
        elif k == 'pdf':
            if len(case['means']) < 2:
                return None
        elif k == 'rvs':
            if out['out'] is None or out.get('rounds', len(out['batches'])) < 2:
                return None
        elif k == 'hist':
            # at least two calls, and an array object the caller passed before is passed again
            if len(case['steps']) < 2 or not any(sp is not None and isinstance(sp, dict) and sp.get('mode') == 'reuse'
                                                 for st in case['steps'][1:] for sp in (st.get('cov'), st.get('means'), st.get('ws'), st.get('x'))):
                return None
        return json.dumps(case, sort_keys=True)

    def classify(self, case, out, clause):
        # known finding: _normalize_params squeezes a (1, d) means array into d one-dimensional components
        if case['kind'] == 'gm1' and len(case['means']) == 1 and case['d'] >= 2 and clause == 'gm_single_component':
            return 'gm-single-component-multidim'
        return None

    # ------------------------------------------------------------------------------------------
    # Coq terms
    # ------------------------------------------------------------------------------------------
    @staticmethod
    def _ql(l):
        return clist([cq(v) for v in l])

    def _qlo(self, l):
        return copt(l, self._ql)

    def to_coq(self, case, out):
        k = case['kind']
        if k == 'quant':
            tol = 0 if case['exact'] else tol_of(case.get('wrep'))
            scale = F(2) ** case['scale_k'] if case.get('scale_k') is not None else case['scale']
            runs = clist(['{| r_alpha := %s; r_impl := %s; r_impl_scaled := %s |}'
                          % (cq(rn['alpha']), copt(rn['q'], cq), copt(rn['qs'], cq)) for rn in out['runs']])
            return 'CQuant %s %s %s %s %s %s' % (self._ql(case['xs']), self._qlo(case['ws']), cq(tol), cq(scale),
                                                 clist([cnat(i) for i in out['index']]), runs)
        if k == 'stat':
            return 'CStat %s %s %s %s %s %s' % (self._ql(case['xs']), self._qlo(case['ws']), cq(tol_of(case.get('wrep'))), self._qlo(out['norm']),
                                                copt(out['ess'], cq), copt(out['var'], cq))
        if k == 'weights':
            runs = clist(['{| w_scale := %s; w_tol := %s; w_norm := %s; w_ess := %s |}'
                          % (cq(F(2) ** rn['k']), cq(tol_of(rn['rep'])), self._qlo(o['norm']), copt(o['ess'], cq))
                          for rn, o in zip(case['runs'], out['runs'])])
            return 'CWeights %s %s' % (self._ql(case['ws']), runs)
        if k == 'pdf':
            return 'CPdf %s %s %s %s' % (clist([self._ql(d) for d in out['dens']]), self._qlo(case['ws']), cq(tol_of(case.get('wrep'))),
                                         self._qlo(out['pdf']))
        mat = lambda m: clist([self._ql(row) for row in m])
        boxq = lambda bx: copt(bx, lambda b: clist(['(%s, %s)' % (cq(lo), cq(hi)) for lo, hi in b]))
        if k == 'rvs':
            if out['out'] is None:
                return None
            return 'CRvs %s %s %s (Some %s)' % (cnat(case['size']), boxq(case['box']), clist([mat(b) for b in out['batches']]), mat(out['out']))
        if k == 'hist':
            calls = []
            for st, o in zip(case['steps'], out['steps']):
                if st['call'] == 'rvs':
                    if o['out'] is None:
                        if o.get('gave_up'):
                            continue        # out of fuel (excluded, counted in the histogram)
                        calls.append('GRvs %s %s [] None' % (cnat(st['size']), boxq(st['box'])))
                    else:
                        calls.append('GRvs %s %s %s (Some %s)' % (cnat(st['size']), boxq(st['box']),
                                                                  clist([mat(b) for b in o['batches']]), mat(o['out'])))
                else:
                    ws = None if st['ws'] is None else st['ws']['values']
                    res = o.get('pdf') if st['call'] == 'pdf' else o.get('exp')
                    calls.append('%s %s %s %s %s' % ('GPdf' if st['call'] == 'pdf' else 'GLogpdf', clist([self._ql(dn) for dn in o['dens']]),
                                                    self._qlo(ws), cq(TOL), self._qlo(res)))
            return 'CHist %s' % clist(calls)
        return None


if __name__ == '__main__':
    sys.exit(run_check(C13))
