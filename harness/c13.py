"""C13 — weighted quantile / variance / ESS / GMDistribution: correspondence with coq/Num/Quantile.v."""
import math
import numpy as np
from common import *

TOL = fractions.Fraction(1, 10 ** 9)


def fl(v):
    """float result -> float or None (nan/inf/non-scalar)."""
    try:
        v = float(v)
    except Exception:
        return None
    return v if math.isfinite(v) else None


class Stop(Exception):
    pass


class C13(PropCheck):
    pid = 'C13'
    header = ('From Coq Require Import List ZArith QArith Bool.\nFrom Elfi Require Import Base.Harness Num.Quantile.\n'
              'Import ListNotations.\nOpen Scope Q_scope.\n')
    case_type = 'Quantile.case'
    preds = (('Quantile.agree', 'agree'), ('Quantile.ok', 'ok'))
    chunk = 40
    rule = ('four case kinds: quant (weighted_sample_quantile directly and through Sample.sample_quantiles / '
            'sample_means_and_95CIs, several alphas per sample, weights and scale*weights), stat (normalize_weights, compute_ess, '
            'weighted_var 1-D and as a column of a 2-D array), pdf (GMDistribution.pdf/logpdf, component densities from '
            'scipy.stats.multivariate_normal as oracle table), rvs (GMDistribution.rvs with a recording box constraint). '
            'non-trivial = quant case with >=2 rows that has a tie in x, a zero weight or an alpha on a cumulative-weight boundary; '
            'stat case with >=2 positive weights; pdf case with >=2 components; rvs case that needed >=2 trials; distinct by input')
    trusted = ('scipy.stats.multivariate_normal.pdf as the normal-density oracle N(x; m, C) (table supplied per case); numpy.log as ln',
               'numpy.argsort returns a permutation that sorts x (checked per case by is_sorting_perm)',
               'binary64 vs Q: exact comparison on dyadic inputs (integer weights with power-of-two sum, dyadic alpha), '
               'relative tolerance 1e-9 otherwise')

    # ------------------------------------------------------------------------------------------
    # generators
    # ------------------------------------------------------------------------------------------
    def _values(self, n, exact):
        r = self.rng
        style = r.choice(['ties', 'ties', 'distinct', 'const', 'sorted', 'reversed'])
        if exact:
            pool = [r.randint(-8, 8) / r.choice([1, 1, 2, 4]) for _ in range(max(1, n // 2))]
            allv = [r.randint(-64, 64) / 4.0 for _ in range(n)]
        else:
            pool = [round(r.uniform(-5, 5), r.choice([1, 3, 12])) for _ in range(max(1, n // 2))]
            allv = [r.uniform(-5, 5) * r.choice([1, 1, 1e-3, 1e3]) for _ in range(n)]
        if style == 'ties':
            xs = [r.choice(pool) for _ in range(n)]
        elif style == 'const':
            xs = [pool[0]] * n
        else:
            xs = allv
            if style == 'sorted':
                xs = sorted(xs)
            elif style == 'reversed':
                xs = sorted(xs, reverse=True)
        self.bump('x=' + style)
        return [float(v) for v in xs]

    def _int_weights_pow2(self, n):
        """non-negative integer weights whose sum is a power of two (zeros likely)."""
        r = self.rng
        k = r.randint(0, 7)
        total = 2 ** k
        w = [0] * n
        style = r.choice(['units', 'blocks', 'one'])
        if style == 'one':
            w[r.randrange(n)] = total
        elif style == 'units':
            for _ in range(total):
                w[r.randrange(n)] += 1
        else:
            left = total
            while left > 0:
                b = r.randint(1, left)
                w[r.randrange(n)] += b
                left -= b
        return [float(v) for v in w], k

    def gen_quant(self, malformed=False):
        r = self.rng
        exact = malformed or r.random() < 0.6
        n = r.choice([1, 1, 2, 2, 3, 4, 5, 6, 8, 8, 12, 16, r.randint(1, 24)])
        if not exact:
            n = min(n, 12)
        case = dict(kind='quant', exact=exact, malformed=None)
        if exact:
            use_none = r.random() < 0.15
            if use_none:
                n = r.choice([1, 2, 4, 8, 16])
                ws, k = None, int(math.log2(n))
            else:
                ws, k = self._int_weights_pow2(n)
            xs = self._values(n, True)
            den = 2 ** k
            alphas = {0.0, 1.0}
            for _ in range(r.randint(2, 5)):
                j = r.randint(0, den)
                t = r.choice(['on', 'on', 'off', 'tiny_above', 'tiny_below'])
                a = {'on': j / den, 'off': (j + 0.5) / den, 'tiny_above': j / den + 2.0 ** -30,
                     'tiny_below': j / den - 2.0 ** -30}[t]
                if 0 <= a <= 1:
                    alphas.add(a)
                    self.bump('alpha=' + t)
            if r.random() < 0.5:
                alphas.discard(0.0)
            if r.random() < 0.3:
                alphas.discard(1.0)
            alphas = sorted(alphas)
            if r.random() < 0.3:
                r.shuffle(alphas)
            scale = 2.0 ** r.randint(-4, 6)
            if malformed:
                m = r.choice(['alpha_gt1', 'alpha_lt0', 'empty', 'zero_w', 'short_w', 'neg_w'])
                case['malformed'] = m
                if m == 'alpha_gt1':
                    alphas = [1.5, 1.0 + 2.0 ** -20] + alphas[:1]
                elif m == 'alpha_lt0':
                    alphas = [-0.25, -2.0 ** -40] + alphas[:1]
                elif m == 'empty':
                    xs, ws = [], ([] if r.random() < 0.5 else None)
                elif m == 'zero_w':
                    ws = [0.0] * len(xs)
                elif m == 'short_w':
                    ws = (ws if ws is not None else [1.0] * len(xs))[:-1]
                elif m == 'neg_w':
                    ws = ws if ws is not None else [1.0] * len(xs)
                    if len(ws) >= 2:
                        i, j = r.sample(range(len(ws)), 2)
                        ws[i] += 2.0 + ws[j]      # the sum stays the same non-zero power of two (a zero sum with
                        ws[j] = -2.0              # non-zero entries gives +-inf weights, outside the model)
                    else:
                        ws = [-1.0]
                self.bump('quant malformed=' + m)
        else:
            xs = self._values(n, False)
            wstyle = r.choice(['none', 'grid20', 'grid20', 'full', 'tiny_and_big'])
            if wstyle == 'none':
                ws = None
            elif wstyle == 'grid20':
                ws = [r.choice([0.0, 1.0]) * r.randint(0, 2 ** 20) / 2.0 ** 20 if r.random() < 0.3
                      else r.randint(1, 2 ** 20) / 2.0 ** 20 for _ in range(n)]
            elif wstyle == 'full':
                ws = [0.0 if r.random() < 0.2 else r.random() for _ in range(n)]
            else:
                ws = [r.choice([1e-12, 1.0, 1e6]) * r.random() for _ in range(n)]
            if ws is not None and sum(ws) <= 0:
                ws[r.randrange(n)] = 1.0
            alphas = [0.025, 0.975] + [r.choice([0.0, 1.0, 0.5, r.random(), r.random(), round(r.random(), 2)])
                                      for _ in range(r.randint(1, 3))]
            if ws is not None and n >= 2 and r.random() < 0.2:
                # rounded cumulative weights may stay below alpha = 1: the forced last entry then selects the
                # largest value even when its weight is zero
                ws[max(range(n), key=lambda i: xs[i])] = 0.0
                if sum(ws) <= 0:
                    ws[min(range(n), key=lambda i: xs[i])] = 0.7
                alphas.append(1.0)
                self.bump('quant float zero-weight maximum, alpha=1')
            scale = r.choice([r.uniform(0.1, 10), 1e-6, 3.0, 1e5])
            self.bump('quant float w=' + wstyle)
        self.bump('quant exact' if exact else 'quant float')
        self.bump('quant n=%s' % (n if n < 5 else '5-8' if n <= 8 else '9+'))
        case.update(xs=xs, ws=ws, alphas=[float(a) for a in alphas], scale=float(scale))
        return case

    def gen_stat(self, malformed=False):
        r = self.rng
        n = r.choice([1, 2, 2, 3, 4, 5, 8, r.randint(1, 14)])
        xs = self._values(n, r.random() < 0.3)
        xs = [v if abs(v) < 100 else v / 1000.0 for v in xs]
        wstyle = r.choice(['none', 'equal', 'ints', 'grid', 'full', 'one_nonzero'])
        if wstyle == 'none':
            ws = None
        elif wstyle == 'equal':
            c = r.choice([1.0, 0.25, 3.0, r.randint(1, 2 ** 16) / 2.0 ** 8])
            ws = [c] * n
        elif wstyle == 'ints':
            ws = [float(r.randint(0, 9)) for _ in range(n)]
        elif wstyle == 'grid':
            ws = [r.randint(0, 2 ** 16) / 2.0 ** 16 for _ in range(n)]
        elif wstyle == 'full':
            ws = [0.0 if r.random() < 0.15 else r.uniform(0.05, 1) for _ in range(n)]
        else:
            ws = [0.0] * n
            ws[r.randrange(n)] = float(r.randint(1, 1000))
        if ws is not None and sum(ws) <= 0:
            ws[r.randrange(n)] = 1.0
        if ws is not None and sum(1 for v in ws if v > 0) < 2:
            # one effective observation: the variance is 0/0; in binary64 (w*w)/w need not equal w, so the code
            # returns -0.0 or garbage instead of nan unless the weight is a small integer -- keep it an integer
            ws = [float(math.ceil(v * 8)) for v in ws]
            self.bump('stat single effective observation (integer weight)')
        m = None
        if malformed:
            m = r.choice(['neg_w', 'zero_w', 'short_w', 'empty'])
            if m == 'neg_w':
                ws = [float(r.randint(1, 9)) for _ in range(n)]
                ws[r.randrange(n)] = -1.0
                if n == 1:
                    ws = [-1.0]
            elif m == 'zero_w':
                ws = [0.0] * n
            elif m == 'short_w':
                ws = [1.0] * (n - 1)
            else:
                xs, ws = [], []
            self.bump('stat malformed=' + m)
        else:
            self.bump('stat w=' + wstyle)
        return dict(kind='stat', xs=xs, ws=ws, malformed=m, extra_col=[r.uniform(-3, 3) for _ in xs])

    def gen_pdf(self, malformed=False):
        r = self.rng
        d = r.choice([1, 1, 2, 3])
        k = r.randint(1, 5) if d == 1 else r.randint(2, 5)
        npts = r.randint(1, 4)
        means = [[round(r.uniform(-2, 2), 3) for _ in range(d)] for _ in range(k)]
        pts = [[round(r.uniform(-3, 3), 3) for _ in range(d)] for _ in range(npts)]
        if r.random() < 0.3:
            pts[0] = list(means[r.randrange(k)])
        if d == 1 or r.random() < 0.4:
            cov = r.choice([1.0, 0.25, 2.5, round(r.uniform(0.05, 4), 3)])
        else:
            a = np.array([[r.uniform(-1, 1) for _ in range(d)] for _ in range(d)])
            cov = (a @ a.T + np.eye(d) * r.uniform(0.2, 1.0)).tolist()
        wstyle = r.choice(['none', 'ints', 'floats', 'normalised', 'with_zero'])
        if wstyle == 'none':
            ws = None
        elif wstyle == 'ints':
            ws = [float(r.randint(1, 9)) for _ in range(k)]
        elif wstyle == 'floats':
            ws = [r.uniform(0.01, 5) for _ in range(k)]
        elif wstyle == 'normalised':
            ws = [r.uniform(0.1, 1) for _ in range(k)]
            s = sum(ws)
            ws = [v / s for v in ws]
        else:
            ws = [float(r.randint(0, 3)) for _ in range(k)]
            ws[r.randrange(k)] = 2.0
            if k > 1:
                ws[(ws.index(2.0) + 1) % k] = 0.0
        m = None
        if malformed:
            m = r.choice(['neg_w', 'zero_w'])
            ws = [1.0] * k
            if m == 'neg_w':
                ws[r.randrange(k)] = -0.5
            else:
                ws = [0.0] * k
            self.bump('pdf malformed=' + m)
        else:
            self.bump('pdf d=%d' % d)
            self.bump('pdf w=' + wstyle)
        return dict(kind='pdf', d=d, means=means, pts=pts, cov=cov, ws=ws, malformed=m)

    def gen_rvs(self):
        r = self.rng
        d = r.choice([1, 1, 2, 3])
        k = r.randint(1, 4) if d == 1 else r.randint(2, 4)
        means = [[round(r.uniform(-2, 2), 2) for _ in range(d)] for _ in range(k)]
        cov = r.choice([1.0, 0.5, 2.0]) if (d == 1 or r.random() < 0.5) else (np.eye(d) * r.uniform(0.3, 2)).tolist()
        ws = r.choice([None, [float(r.randint(1, 5)) for _ in range(k)]])
        size = r.choice([0, 1, 1, 2, 3, 5, 8, 12])
        tight = r.choice(['none', 'wide', 'medium', 'narrow'])
        c = means[r.randrange(k)]
        half = {'none': None, 'wide': 50.0, 'medium': 1.5, 'narrow': 0.6}[tight]
        box = None if half is None else [[c[j] - half * r.uniform(0.5, 1), c[j] + half * r.uniform(0.5, 1)] for j in range(d)]
        self.bump('rvs box=' + tight)
        self.bump('rvs d=%d' % d)
        return dict(kind='rvs', d=d, means=means, cov=cov, ws=ws, size=size, box=box,
                    outside=r.choice(['-inf', 'nan', '+inf']), seed=r.randrange(2 ** 31))

    def gen_gm1(self):
        """exactly one component in dimension d >= 2 (means of shape (1, d))."""
        r = self.rng
        d = r.choice([2, 2, 3])
        a = np.array([[r.uniform(-1, 1) for _ in range(d)] for _ in range(d)])
        self.bump('gm1 d=%d' % d)
        return dict(kind='gm1', d=d, means=[[round(r.uniform(-2, 2), 2) for _ in range(d)]],
                    pts=[[round(r.uniform(-2, 2), 2) for _ in range(d)] for _ in range(r.randint(1, 3))],
                    cov_matrix=(a @ a.T + np.eye(d) * 0.5).tolist(), cov_scalar=r.choice([1.0, 0.5, 2.0]),
                    size=r.choice([1, 3, 5]), seed=r.randrange(2 ** 31))

    def generate(self):
        f = 1 if self.tier == 'quick' else 20
        r = self.rng
        for _ in range(260 * f):
            yield self.gen_quant()
        for _ in range(40 * f):
            yield self.gen_quant(malformed=True)
        for _ in range(110 * f):
            yield self.gen_stat()
        for _ in range(25 * f):
            yield self.gen_stat(malformed=True)
        for _ in range(70 * f):
            yield self.gen_pdf()
        for _ in range(10 * f):
            yield self.gen_pdf(malformed=True)
        for _ in range(90 * f):
            yield self.gen_rvs()
        for _ in range(6 * f):
            yield self.gen_gm1()

    # ------------------------------------------------------------------------------------------
    # implementation drivers
    # ------------------------------------------------------------------------------------------
    def run_impl(self, case):
        return getattr(self, 'impl_' + case['kind'])(case)

    @staticmethod
    def _call(f, *a, **kw):
        """(value, error-name)"""
        try:
            return f(*a, **kw), None
        except (IndexError, ValueError, ZeroDivisionError) as e:
            return None, type(e).__name__

    def impl_quant(self, case):
        from elfi.methods.utils import weighted_sample_quantile
        from elfi.methods.results import Sample
        x = np.array(case['xs'], dtype=float)
        w = None if case['ws'] is None else np.array(case['ws'], dtype=float)
        ws = None if w is None else w * case['scale']
        runs = []
        for a in case['alphas']:
            q, e = self._call(weighted_sample_quantile, x, a, w)
            qs, es = (None, None) if w is None else self._call(weighted_sample_quantile, x, a, ws)
            smp = Sample('probe', {'p': x}, ['p'], weights=w)
            q2, e2 = self._call(lambda: smp.sample_quantiles(alpha=a)['p'])
            runs.append(dict(alpha=a, q=fl(q) if e is None else None, err=e, qs=fl(qs) if es is None else None, errs=es,
                             via_sample=fl(q2) if e2 is None else None, via_sample_err=e2,
                             raw_nonfinite=(e is None and fl(q) is None)))
        ci, ce = self._call(lambda: Sample('probe', {'p': x}, ['p'], weights=w).sample_means_and_95CIs['p'])
        d025, _ = self._call(weighted_sample_quantile, x, 0.025, w)
        d975, _ = self._call(weighted_sample_quantile, x, 0.975, w)
        return dict(runs=runs, index=[int(i) for i in np.argsort(x)],
                    ci=None if ci is None else [fl(ci[1]), fl(ci[2])], ci_direct=[fl(d025) if d025 is not None else None,
                                                                                  fl(d975) if d975 is not None else None])

    def impl_stat(self, case):
        from elfi.methods.utils import normalize_weights, compute_ess, weighted_var
        x = np.array(case['xs'], dtype=float)
        w = None if case['ws'] is None else np.array(case['ws'], dtype=float)
        out = dict(norm=None, ess=None)
        if w is not None:
            nw, e = self._call(normalize_weights, w)
            out['norm'] = None if e else [float(v) for v in nw]
            out['norm_err'] = e
            es, e = self._call(compute_ess, w)
            out['ess'] = None if e else fl(es)
            out['ess_err'] = e
        with np.errstate(all='ignore'):
            v, e = self._call(weighted_var, x, w)
            out['var'] = None if e else fl(v)
            out['var_err'] = e
            # the same column inside a 2-D array (observations in rows)
            x2 = np.column_stack([x, np.array(case['extra_col'], dtype=float)]) if len(x) else None
            if x2 is not None:
                v2, e2 = self._call(weighted_var, x2, w)
                out['var_2d'] = None if e2 else [fl(v2[0]), fl(v2[1])]
                v1, e1 = self._call(weighted_var, x2[:, 1], w)
                out['var_col1'] = None if e1 else fl(v1)
        return out

    @staticmethod
    def _shape_args(case):
        d = case['d']
        means = np.array(case['means'], dtype=float)
        pts = np.array(case['pts'], dtype=float) if 'pts' in case else None
        if d == 1:
            means = means[:, 0]
            pts = None if pts is None else pts[:, 0]
        cov = case['cov'] if not isinstance(case['cov'], list) else np.array(case['cov'])
        w = None if case['ws'] is None else np.array(case['ws'], dtype=float)
        return means, pts, cov, w

    def impl_pdf(self, case):
        import scipy.stats as ss
        from elfi.methods.utils import GMDistribution
        means, pts, cov, w = self._shape_args(case)
        with np.errstate(all='ignore'):
            p, e = self._call(GMDistribution.pdf, pts, means, cov, w)
            lp, le = self._call(GMDistribution.logpdf, pts, means, cov, w)
        dens = [[float(ss.multivariate_normal.pdf(x, mean=m, cov=cov)) for m in means] for x in pts]
        out = dict(pdf=None if e else [float(v) for v in np.atleast_1d(p)], err=e,
                   logpdf=None if le else [float(v) for v in np.atleast_1d(lp)], dens=dens)
        if e is None:
            # single-point call conventions: a scalar / one row in, a scalar out
            p0 = GMDistribution.pdf(pts[0], means, cov, w)
            out['pdf_single'] = float(p0) if np.ndim(p0) == 0 else 'shape %s' % (np.shape(p0),)
        return out

    def impl_rvs(self, case):
        from elfi.methods.utils import GMDistribution
        means, _, cov, w = self._shape_args(case)
        d = case['d']
        box = case['box']
        bad = {'-inf': -np.inf, 'nan': np.nan, '+inf': np.inf}[case['outside']]
        batches = []

        def prior_logpdf(x):
            if len(batches) >= 400:
                raise Stop('too many trials')
            x = np.asarray(x)
            rows_ = x.reshape(len(x), -1)
            batches.append([[float(v) for v in row] for row in rows_])
            if box is None:
                return np.zeros(len(x))
            inside = np.all([(rows_[:, j] >= box[j][0]) & (rows_[:, j] <= box[j][1]) for j in range(d)], axis=0)
            return np.where(inside, -1.25, bad)

        try:
            o = GMDistribution.rvs(means, cov, w, size=case['size'], prior_logpdf=prior_logpdf,
                                   random_state=np.random.RandomState(case['seed']))
        except Stop:
            self.bump('rvs gave up after 400 trials (excluded: out of fuel)')
            return dict(out=None, batches=batches[:3], gave_up=True)
        except Exception as e:      # a crash on a valid request is a failure of the property, with a concrete replay
            return dict(out=None, batches=batches[:3], crashed='%s: %s' % (type(e).__name__, str(e)[:200]))
        o = np.asarray(o)
        out = dict(out=[[float(v) for v in np.atleast_1d(row)] for row in o], shape=list(o.shape), batches=batches)
        if box is None:
            o2 = GMDistribution.rvs(means, cov, w, size=case['size'], random_state=np.random.RandomState(case['seed']))
            out['same_without_constraint'] = bool(np.array_equal(np.asarray(o2), o))
        return out

    def impl_gm1(self, case):
        from elfi.methods.utils import GMDistribution
        means = np.array(case['means'], dtype=float)
        pts = np.array(case['pts'], dtype=float)
        out = {}
        for name, cov in (('matrix', np.array(case['cov_matrix'])), ('scalar', case['cov_scalar'])):
            try:
                p = GMDistribution.pdf(pts, means, cov)
                out['pdf_' + name] = [float(v) for v in np.atleast_1d(p)] if np.size(p) == len(pts) else 'shape %s' % (np.shape(p),)
            except Exception as e:
                out['pdf_' + name] = 'raised %s: %s' % (type(e).__name__, str(e)[:80])
            try:
                o = GMDistribution.rvs(means, cov, size=case['size'], random_state=np.random.RandomState(case['seed']))
                out['rvs_shape_' + name] = list(np.shape(o))
            except Exception as e:
                out['rvs_shape_' + name] = 'raised %s: %s' % (type(e).__name__, str(e)[:80])
        return out

    # ------------------------------------------------------------------------------------------
    # python-side clauses
    # ------------------------------------------------------------------------------------------
    def py_check(self, case, out):
        bad = []
        k = case['kind']
        if k == 'quant':
            for rn in out['runs']:
                if rn['raw_nonfinite']:
                    bad.append(('quant_finite', 'alpha=%r returned a non-finite value' % rn['alpha']))
                if (rn['q'], rn['err'] is None) != (rn['via_sample'], rn['via_sample_err'] is None):
                    bad.append(('sample_quantiles', 'Sample.sample_quantiles(alpha=%r)=%r but weighted_sample_quantile=%r'
                                % (rn['alpha'], rn['via_sample'], rn['q'])))
            if out['ci'] is not None and out['ci'] != out['ci_direct']:
                bad.append(('sample_95CI', 'sample_means_and_95CIs %r != direct quantiles %r' % (out['ci'], out['ci_direct'])))
        elif k == 'stat':
            if case['malformed'] is None and out.get('var_2d') is not None:
                if out['var_2d'][0] != out['var'] or out['var_2d'][1] != out['var_col1']:
                    a, b = np.array([out['var_2d'][0], out['var_2d'][1]], dtype=float), np.array([out['var'], out['var_col1']], dtype=float)
                    if not np.allclose(a, b, rtol=1e-9, atol=1e-12, equal_nan=True):
                        bad.append(('var_columnwise', '2-D result %r != per-column results %r' % (out['var_2d'], [out['var'], out['var_col1']])))
            if case['malformed'] is None and case['ws'] is not None and out['var'] is not None and len(case['xs']) > 1:
                w = np.array(case['ws'])
                if len(set(case['ws'])) == 1:
                    ref = float(np.var(np.array(case['xs']), ddof=1))
                    if not math.isclose(ref, out['var'], rel_tol=1e-9, abs_tol=1e-12):
                        bad.append(('var_equal_weights', 'equal weights: %r != np.var(ddof=1) = %r' % (out['var'], ref)))
        elif k == 'pdf':
            if out['pdf'] is not None:
                import scipy.stats as ss
                from scipy.special import logsumexp
                means, pts, cov, w = self._shape_args(case)
                wn = np.ones(len(means)) / len(means) if w is None else w / w.sum()
                for j, x in enumerate(pts):
                    ref = sum(wn[i] * ss.multivariate_normal.pdf(x, mean=means[i], cov=cov) for i in range(len(means)))
                    if not math.isclose(ref, out['pdf'][j], rel_tol=1e-10, abs_tol=1e-300):
                        bad.append(('pdf_scipy', 'pdf[%d]=%r, scipy mixture sum=%r' % (j, out['pdf'][j], ref)))
                    lref = logsumexp([np.log(wn[i]) + ss.multivariate_normal.logpdf(x, mean=means[i], cov=cov)
                                      for i in range(len(means)) if wn[i] > 0])
                    if out['logpdf'] is None or not math.isclose(lref, out['logpdf'][j], rel_tol=1e-9, abs_tol=1e-9):
                        bad.append(('logpdf_scipy', 'logpdf[%d]=%r, logsumexp reference=%r' % (j, out['logpdf'] and out['logpdf'][j], lref)))
                    if out['logpdf'] is not None and out['logpdf'][j] != float(np.log(out['pdf'][j])):
                        bad.append(('logpdf_is_log_pdf', 'logpdf[%d]=%r != log(pdf)=%r' % (j, out['logpdf'][j], float(np.log(out['pdf'][j])))))
                if out.get('pdf_single') != out['pdf'][0]:
                    if isinstance(out.get('pdf_single'), str) or not math.isclose(out['pdf_single'], out['pdf'][0], rel_tol=1e-12):
                        bad.append(('pdf_single_point', 'pdf(one point)=%r, first of batch=%r' % (out.get('pdf_single'), out['pdf'][0])))
        elif k == 'gm1':
            import scipy.stats as ss
            m = np.array(case['means'][0])
            for name, cov in (('matrix', np.array(case['cov_matrix'])), ('scalar', case['cov_scalar'])):
                ref = [float(ss.multivariate_normal.pdf(x, mean=m, cov=cov)) for x in case['pts']]
                got = out['pdf_' + name]
                if isinstance(got, str) or not np.allclose(got, ref, rtol=1e-10, atol=0):
                    bad.append(('gm_single_component', 'one component, d=%d, %s cov: pdf=%r, expected N(x; m, C)=%r'
                                % (case['d'], name, got, ref)))
                if out['rvs_shape_' + name] != [case['size'], case['d']]:
                    bad.append(('gm_single_component', 'one component, d=%d, %s cov: rvs(size=%d) shape %r, expected %r'
                                % (case['d'], name, case['size'], out['rvs_shape_' + name], [case['size'], case['d']])))
        elif k == 'rvs':
            if out.get('crashed'):
                bad.append(('rvs_completes', 'rvs(size=%d) raised %s' % (case['size'], out['crashed'])))
            if out['out'] is not None:
                want = [case['size']] + ([] if case['d'] == 1 else [case['d']])
                if out['shape'] != want:
                    bad.append(('rvs_shape', 'shape %r, expected %r' % (out['shape'], want)))
                if out.get('same_without_constraint') is False:
                    bad.append(('rvs_no_constraint', 'prior_logpdf=None differs from an always-finite prior_logpdf for the same seed'))
        return bad

    def nontrivial(self, case, out):
        k = case['kind']
        if case.get('malformed') or k == 'gm1':
            return None
        if k == 'quant':
            xs, ws = case['xs'], case['ws']
            if len(xs) < 2:
                return None
            tie = len(set(xs)) < len(xs)
            zero = ws is not None and any(v == 0 for v in ws)
            onb = False
            if case['exact']:
                w = ws if ws is not None else [1.0] * len(xs)
                s = sum(w)
                cum, c = set(), 0.0
                for i in out['index']:
                    c += w[i]
                    cum.add(c / s)
                onb = any(a in cum for a in case['alphas'] if 0 < a < 1)
            if not (tie or zero or onb):
                return None
        elif k == 'stat':
            if case['ws'] is not None and sum(1 for v in case['ws'] if v > 0) < 2:
                return None
            if len(case['xs']) < 2:
                return None
        elif k == 'pdf':
            if len(case['means']) < 2:
                return None
        elif k == 'rvs':
            if out['out'] is None or len(out['batches']) < 2:
                return None
        return json.dumps(case, sort_keys=True)

    def classify(self, case, out, clause):
        # known finding: _normalize_params squeezes a (1, d) means array into d one-dimensional components
        if case['kind'] == 'gm1' and len(case['means']) == 1 and case['d'] >= 2 and clause == 'gm_single_component':
            return 'gm-single-component-multidim'
        return None

    # ------------------------------------------------------------------------------------------
    # Coq terms
    # ------------------------------------------------------------------------------------------
    @staticmethod
    def _ql(l):
        return clist([cq(v) for v in l])

    def _qlo(self, l):
        return copt(l, self._ql)

    def to_coq(self, case, out):
        k = case['kind']
        if k == 'quant':
            tol = 0 if case['exact'] else TOL
            runs = clist(['{| r_alpha := %s; r_impl := %s; r_impl_scaled := %s |}'
                          % (cq(rn['alpha']), copt(rn['q'], cq), copt(rn['qs'], cq)) for rn in out['runs']])
            return 'CQuant %s %s %s %s %s %s' % (self._ql(case['xs']), self._qlo(case['ws']), cq(tol), cq(case['scale']),
                                                 clist([cnat(i) for i in out['index']]), runs)
        if k == 'stat':
            return 'CStat %s %s %s %s %s %s' % (self._ql(case['xs']), self._qlo(case['ws']), cq(TOL), self._qlo(out['norm']),
                                                copt(out['ess'], cq), copt(out['var'], cq))
        if k == 'pdf':
            return 'CPdf %s %s %s %s' % (clist([self._ql(d) for d in out['dens']]), self._qlo(case['ws']), cq(TOL),
                                         self._qlo(out['pdf']))
        if k == 'rvs':
            if out['out'] is None:
                return None
            mat = lambda m: clist([self._ql(row) for row in m])
            box = copt(case['box'], lambda b: clist(['(%s, %s)' % (cq(lo), cq(hi)) for lo, hi in b]))
            return 'CRvs %s %s %s (Some %s)' % (cnat(case['size']), box, clist([mat(b) for b in out['batches']]), mat(out['out']))
        return None


if __name__ == '__main__':
    sys.exit(run_check(C13))
