"""C03 — compiled execution equals the dataflow meaning: correspondence with coq/Graph/{Net,Denote}.v."""
from common import *
from graphgen import *


class C03(PropCheck):
    pid = 'C03'
    header = ('From Coq Require Import List String ZArith Bool.\n'
              'From Elfi Require Import Base.Harness Graph.Net Graph.Denote.\nImport ListNotations.\n')
    case_type = 'Denote.case'
    preds = (('Denote.agree', 'agree'), ('Denote.ok', 'ok'), ('Denote.ok_strict', 'ok'))
    chunk = 120
    rule = ('random DAGs (2-9 nodes; a quarter ABC-shaped prior->simulator->summary->discrepancy chains, some with a plain Operation spliced in, which must be rejected) built through elfi.Constant/Operation/Prior/Simulator/Summary/Discrepancy with recording '
            'operations, mixed positional and named edges, partial observations, uses_meta flags; random requested outputs '
            '(incl. None = all, twin names) and with_values subsets; malformed stream: cycles, both _output and _operation, twin '
            'name clash, observed data depending on a stochastic node; non-trivial = run succeeded with >= 2 operation calls or '
            'was rejected for a malformed graph; distinct by (spec, outputs, with_values)')
    trusted = ('networkx DiGraph as insertion-ordered adjacency lists (node/edge iteration order as introspected from the real source_net)',
               'recording operations/distributions of harness/graphgen.py stand for arbitrary user callables')

    def generate(self):
        n = 260 if self.tier == 'quick' else 4000
        r = self.rng
        for i in range(n):
            abc = r.random() < 0.25
            mal = None
            if abc:
                spec, spliced = gen_abc_spec(r)
                if spliced:
                    mal = 'spliced_op'
            else:
                spec = gen_spec(r)
            names = [s['name'] for s in spec]
            if not abc and r.random() < 0.18:
                mal = r.choice(['cycle', 'both', 'clash', 'stoch_obs', 'stoch_twin'])
            outs_mode = r.choice(['all', 'some', 'some', 'one', 'twin'])
            if outs_mode == 'all':
                outputs = None
            elif outs_mode == 'one':
                outputs = [r.choice(names)]
            elif outs_mode == 'twin':
                obsable = [s['name'] for s in spec if s['kind'] in ('sim', 'summary', 'disc')]
                outputs = ['_%s_observed' % r.choice(obsable)] if obsable else [r.choice(names)]
                if r.random() < 0.5:
                    outputs.append(r.choice(names))
            else:
                outputs = r.sample(names, r.randint(1, len(names)))
            wv = {}
            if r.random() < 0.45:
                cands = [s['name'] for s in spec if s['kind'] != 'const']
                for nm in r.sample(cands, min(len(cands), r.randint(1, 3))):
                    wv[nm] = 5000 + names.index(nm)
            self.bump('outputs=' + outs_mode)
            self.bump('shape=%s' % ('abc' if abc else 'random'))
            self.bump('malformed=%s' % mal)
            self.bump('with_values=%d' % len(wv))
            yield dict(spec=spec, outputs=outputs, with_values=wv, malformed=mal, seed=r.randrange(2 ** 31),
                       batch_size=r.choice([1, 3]))

    def _build(self, case, rec):
        import elfi
        spec = case['spec']
        m, refs = build_model(spec, rec)
        mal = case.get('malformed')
        names = [s['name'] for s in spec]
        if mal == 'cycle':
            # edge from the last node to an ancestor of it (or a self-dependency through two nodes)
            ops = [s for s in spec if s['kind'] != 'const' and s['parents']]
            if ops:
                s = ops[-1]
                m.add_edge(s['name'], s['parents'][0][0], 'kw_back')
        elif mal == 'both':
            ops = [s for s in spec if s['kind'] != 'const']
            if ops:
                m.source_net.nodes[ops[0]['name']]['attr_dict']['_output'] = 7
        elif mal == 'clash':
            obsable = [s['name'] for s in spec if s['kind'] in ('sim', 'summary', 'disc')]
            if obsable:
                elfi.Constant(3, name='_%s_observed' % obsable[0], model=m)
        elif mal == 'stoch_obs':
            pri = elfi.Prior(RecDist(rec, 'pp'), name='pp', model=m)
            sm = elfi.Summary(rec_op(rec, 'ss'), pri, name='ss', model=m)
            elfi.Discrepancy(rec_op(rec, 'dd'), sm, name='dd', model=m)
        elif mal == 'stoch_twin':
            sim = elfi.Simulator(rec_op(rec, 'uu'), name='uu', model=m)   # never observed
            sm = elfi.Summary(rec_op(rec, 'ss'), sim, name='ss', model=m)
            elfi.Discrepancy(rec_op(rec, 'dd'), sm, name='dd', model=m)
        return m

    def run_impl(self, case):
        rec = Recorder()
        m = self._build(case, rec)
        snet = snet_of_model(m)
        outputs = case['outputs']
        all_names = list(m.source_net.nodes())
        rec.reset()
        try:
            res = m.generate(case['batch_size'], outputs, with_values=dict(case['with_values']) or None, seed=case['seed'])
            outs = sorted(res.items())
            impl = dict(ok=True, outs=[[k, jvalue(v)] for k, v in outs], log=list(rec.log), bad=list(rec.bad))
            impl_coq = 'ImplOk %s %s' % (clist(['(%s, %s)' % (cstr(k), cvalue(v)) for k, v in outs]),
                                         clist([cstr(x) for x in rec.log]))
        except Exception as e:
            impl = dict(ok=False, error='%s: %s' % (type(e).__name__, str(e)[:200]))
            impl_coq = 'ImplErr'
        coq_outputs = clist([cstr(x) for x in (all_names if outputs is None else outputs)])
        return dict(impl=impl, snet=snet, impl_coq=impl_coq, coq_outputs=coq_outputs)

    def py_check(self, case, out):
        if out['impl'].get('bad'):
            return [('runtime_kwargs', 'a flagged keyword argument had the wrong value: %r' % out['impl']['bad'])]
        return []

    def nontrivial(self, case, out):
        if out['impl']['ok'] and len(out['impl']['log']) < 2:
            return None
        if not out['impl']['ok'] and not case.get('malformed'):
            return None
        return json.dumps([case['spec'], case['outputs'], case['with_values'], case['malformed']], sort_keys=True)

    def classify(self, case, out, clause):
        if clause == 'Denote.ok_strict':
            return 'unobserved-stochastic-observable-twin'
        return None

    def to_coq(self, case, out):
        wv = clist(['(%s, (VConst %s))' % (cstr(k), cz(v)) for k, v in case['with_values'].items()])
        return '{| k_src := %s; k_outputs := %s; k_with := %s; k_impl := %s |}' % (
            out['snet'], out['coq_outputs'], wv, out['impl_coq'])


if __name__ == '__main__':
    sys.exit(run_check(C03))
