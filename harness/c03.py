"""C03 — compiled execution equals the dataflow meaning: correspondence with coq/Graph/{Net,Denote}.v."""
from common import *
from graphgen import *


class C03(PropCheck):
    pid = 'C03'
    header = ('From Coq Require Import List String ZArith Bool.\n'
              'From Elfi Require Import Base.Harness Graph.Net Graph.Denote Graph.Declared.\nImport ListNotations.\n')
    case_type = 'Declared.dcase'
    preds = (('Declared.dagree', 'agree'), ('Declared.dok', 'ok'), ('Declared.dok_strict', 'ok'))
    build_targets = ('Graph/Declared.vo',)
    chunk = 120
    rule = ('random DAGs (2-9 nodes; a quarter ABC-shaped prior->simulator->summary->discrepancy chains, some with a plain Operation spliced in, which must be rejected) built through elfi.Constant/Operation/Prior/Simulator/Summary/Discrepancy with recording '
            'operations, mixed positional and named edges, partial observations, uses_meta flags; a third of the graphs attach (part of) '
            'their edges after the nodes exist through explicit model.add_edge(parent, child, param) calls in shuffled order: '
            'explicit positions (0 attached after higher ones, sparse positions, positions continuing after constructor parents), '
            'named parameters and the implicit next-free-position form, with children created before the parents attached to them '
            '(every child\'s declared positions distinct); the DECLARED (parent, child, param) list is recorded and the check is '
            'evaluated on the declared graph, which the introspected source net must carry exactly; random requested outputs '
            '(incl. None = all, twin names) and with_values subsets; malformed stream: cycles, both _output and _operation, twin '
            'name clash, observed data depending on a stochastic node; non-trivial = run succeeded with >= 2 operation calls or '
            'was rejected for a malformed graph; distinct by (spec, outputs, with_values)')
    trusted = ('networkx DiGraph as insertion-ordered adjacency lists (node/edge iteration order as introspected from the real source_net)',
               'recording operations/distributions of harness/graphgen.py stand for arbitrary user callables',
               'the declared (parent, child, param) list is the harness\'s own record of the constructor arguments and add_edge calls it issued')

    def generate(self):
        n = 340 if self.tier == 'quick' else 5200
        r = self.rng
        for i in range(n):
            abc = r.random() < 0.25
            mal = None
            attach = None
            if not abc and r.random() < 0.4:
                spec, attach = gen_explicit_spec(r)
            elif abc:
                spec, spliced = gen_abc_spec(r)
                if spliced:
                    mal = 'spliced_op'
            else:
                spec = gen_spec(r)
            names = [s['name'] for s in spec]
            if not abc and attach is None and r.random() < 0.18:
                mal = r.choice(['cycle', 'both', 'clash', 'stoch_obs', 'stoch_twin', 'dup_parent'])
            outs_mode = r.choice(['all', 'some', 'some', 'one', 'twin'])
            if outs_mode == 'all':
                outputs = None
            elif outs_mode == 'one':
                outputs = [r.choice(names)]
            elif outs_mode == 'twin':
                obsable = [s['name'] for s in spec if s['kind'] in ('sim', 'summary', 'disc')]
                outputs = ['_%s_observed' % r.choice(obsable)] if obsable else [r.choice(names)]
                if r.random() < 0.5:
                    outputs.append(r.choice(names))
            else:
                outputs = r.sample(names, r.randint(1, len(names)))
            wv = {}
            if r.random() < 0.45:
                cands = [s['name'] for s in spec if s['kind'] != 'const']
                for nm in r.sample(cands, min(len(cands), r.randint(1, 3))):
                    wv[nm] = 5000 + names.index(nm)
            self.bump('outputs=' + outs_mode)
            self.bump('shape=%s' % ('abc' if abc else 'random' if attach is None else 'explicit_add_edge'))
            if attach is not None:
                self._bump_attach(spec, attach)
            self.bump('malformed=%s' % mal)
            self.bump('with_values=%d' % len(wv))
            case = dict(spec=spec, outputs=outputs, with_values=wv, malformed=mal, seed=r.randrange(2 ** 31),
                        batch_size=r.choice([1, 3]))
            if attach is not None:
                case['attach'] = attach
            yield case

    def _bump_attach(self, spec, attach):
        """histogram of the explicit-attachment dimensions"""
        self.bump('attach_calls=%s' % (len(attach) if len(attach) < 4 else '4+'))
        created = [s['name'] for s in spec]
        seen = {}
        zero_last = sparse = late_parent = low_pos_younger = False
        for p, c, passed, decl in attach:
            if isinstance(decl, int):
                prev = seen.setdefault(c, [])
                if decl == 0 and prev:
                    zero_last = True
                if any(decl < q and created.index(p) > created.index(pp) for pp, q in prev):
                    low_pos_younger = True
                prev.append((p, decl))
            if created.index(p) > created.index(c):
                late_parent = True
        for s in spec:
            pos = sorted(k for _, k in s['parents'])
            if pos != list(range(len(pos))):
                sparse = True
        self.bump('attach_position0_after_higher=%s' % zero_last)
        self.bump('attach_lower_position_to_younger_parent=%s' % low_pos_younger)
        self.bump('attach_sparse_positions=%s' % sparse)
        self.bump('attach_parent_created_after_child=%s' % late_parent)
        self.bump('attach_implicit_next=%s' % any(a[2] is None for a in attach))
        self.bump('attach_named=%s' % any(isinstance(a[3], str) for a in attach))
        self.bump('attach_mixed_with_ctor_parents=%s' % any(s.get('ctor') and len(s['parents']) > s['ctor'] for s in spec))

    def _build(self, case, rec):
        import elfi
        spec = case['spec']
        attach = case.get('attach')
        if attach is not None:
            m, refs = build_model_explicit(spec, attach, rec)
        else:
            m, refs = build_model(spec, rec)
        mal = case.get('malformed')
        extra = []
        names = [s['name'] for s in spec]
        if mal == 'cycle':
            # edge from the last node to an ancestor of it (or a self-dependency through two nodes)
            ops = [s for s in spec if s['kind'] != 'const' and s['parents']]
            if ops:
                s = ops[-1]
                m.add_edge(s['name'], s['parents'][0][0], 'kw_back')
                extra.append((s['name'], s['parents'][0][0], 'kw_back'))
        elif mal == 'both':
            ops = [s for s in spec if s['kind'] != 'const']
            if ops:
                m.source_net.nodes[ops[0]['name']]['attr_dict']['_output'] = 7
        elif mal == 'clash':
            obsable = [s['name'] for s in spec if s['kind'] in ('sim', 'summary', 'disc')]
            if obsable:
                elfi.Constant(3, name='_%s_observed' % obsable[0], model=m)
        elif mal == 'stoch_obs':
            pri = elfi.Prior(RecDist(rec, 'pp'), name='pp', model=m)
            sm = elfi.Summary(rec_op(rec, 'ss'), pri, name='ss', model=m)
            elfi.Discrepancy(rec_op(rec, 'dd'), sm, name='dd', model=m)
            extra += [('pp', 'ss', 0), ('ss', 'dd', 0)]
        elif mal == 'stoch_twin':
            sim = elfi.Simulator(rec_op(rec, 'uu'), name='uu', model=m)   # never observed
            sm = elfi.Summary(rec_op(rec, 'ss'), sim, name='ss', model=m)
            elfi.Discrepancy(rec_op(rec, 'dd'), sm, name='dd', model=m)
            extra += [('uu', 'ss', 0), ('ss', 'dd', 0)]
        elif mal == 'dup_parent':
            # one node twice among the positional parents of an Operation: f(p, p, q) as declared
            p0, q0 = names[0], names[-1]
            elfi.Operation(rec_op(rec, 'dp'), refs[p0], refs[p0], refs[q0], name='dp', model=m)
            extra += [(p0, 'dp', 0), (p0, 'dp', 1), (q0, 'dp', 2)]
        # what was declared: constructor argument positions, explicit add_edge parameters, named parameters
        self._declared = declared_edges(spec, attach or (), extra)
        return m

    def run_impl(self, case):
        rec = Recorder()
        m = self._build(case, rec)
        snet = snet_of_model(m)
        outputs = case['outputs']
        all_names = list(m.source_net.nodes())
        declared = decl_in_net_order(self._declared, all_names)
        net_edges = [(u, v, d['param']) for u, v, d in m.source_net.edges(data=True)]
        rec.reset()
        try:
            res = m.generate(case['batch_size'], outputs, with_values=dict(case['with_values']) or None, seed=case['seed'])
            outs = sorted(res.items())
            impl = dict(ok=True, outs=[[k, jvalue(v)] for k, v in outs], log=list(rec.log), bad=list(rec.bad))
            impl_coq = 'ImplOk %s %s' % (clist(['(%s, %s)' % (cstr(k), cvalue(v)) for k, v in outs]),
                                         clist([cstr(x) for x in rec.log]))
        except Exception as e:
            impl = dict(ok=False, error='%s: %s' % (type(e).__name__, str(e)[:200]))
            impl_coq = 'ImplErr'
        coq_outputs = clist([cstr(x) for x in (all_names if outputs is None else outputs)])
        hist = []
        if impl.get('ok') and not case.get('malformed'):
            try:
                hist = self._history(case, m, rec, all_names if outputs is None else outputs)
            except Exception as e:          # the single run above finished, so must every batch of the history
                hist = ['history raised %s: %s' % (type(e).__name__, str(e)[:160])]
        return dict(hist=hist, impl=impl, snet=snet, impl_coq=impl_coq, coq_outputs=coq_outputs, declared=[list(e) for e in declared],
                    net_edges=[list(e) for e in net_edges])

    def _history(self, case, m, rec, outputs):
        """wave 4: several batches on ONE BatchHandler / ComputationContext (as every sampler runs them), each with its own
        set of supplied (overridden) nodes: what a batch returns and which operations it invokes must be those of the same
        batch (same index, same supplied values) on a fresh context -- the meaning of a batch is a function of the graph and the
        supplied values, not of the batches computed before it (the per-context execution-order cache must not leak)."""
        import random
        from elfi.client import BatchHandler
        from elfi.model.elfi_model import ComputationContext
        r = random.Random(case['seed'])
        bh = BatchHandler(m, ComputationContext(case['batch_size'], seed=case['seed']), output_names=list(outputs))
        cands = sorted(k for k in bh.compiled_net.nodes if 'operation' in bh.compiled_net.nodes[k] and not k.startswith('_'))
        if not cands:
            return []
        sets = [{}]
        for _ in range(r.randint(2, 4)):
            sets.append({k: 7000 + i for i, k in enumerate(cands) if r.random() < 0.4})
        sets.append({})
        self.bump('history batches=%d' % len(sets))
        self.bump('history distinct supplied sets=%d' % len(set(frozenset(s) for s in sets)))
        fails = []
        for i, sup in enumerate(sets):
            rec.reset()
            bh.submit(batch=dict(sup))
            got, idx = bh.wait_next()
            got_log = list(rec.log)
            fresh = BatchHandler(m, ComputationContext(case['batch_size'], seed=case['seed']), output_names=list(outputs))
            fresh._next_batch_index = i
            rec.reset()
            fresh.submit(batch=dict(sup))
            ref, idx2 = fresh.wait_next()
            ref_log = list(rec.log)
            g = sorted((k, json.dumps(jvalue(v), sort_keys=True, default=str)) for k, v in got.items())
            f = sorted((k, json.dumps(jvalue(v), sort_keys=True, default=str)) for k, v in ref.items())
            if idx != idx2 or g != f:
                fails.append('batch %d of the history (supplied %s after %s): outputs differ from the same batch on a fresh context'
                             % (i, sorted(sup), [sorted(x) for x in sets[:i]]))
            elif got_log != ref_log:
                fails.append('batch %d of the history (supplied %s after %s): operations invoked %s, on a fresh context %s'
                             % (i, sorted(sup), [sorted(x) for x in sets[:i]], got_log, ref_log))
        rec.reset()
        return fails

    def py_check(self, case, out):
        if out.get('hist'):
            return [('history_independent', out['hist'][0])]
        if out['impl'].get('bad'):
            return [('runtime_kwargs', 'a flagged keyword argument had the wrong value: %r' % out['impl']['bad'])]
        return []

    def nontrivial(self, case, out):
        if out['impl']['ok'] and len(out['impl']['log']) < 2:
            return None
        if not out['impl']['ok'] and not case.get('malformed'):
            return None
        return json.dumps([case['spec'], case.get('attach'), case['outputs'], case['with_values'], case['malformed']], sort_keys=True)

    def classify(self, case, out, clause):
        # a node listed twice among the positional parents of one constructor call, and the source net does not carry
        # the declared edges: the recorded finding (any other failure of such a case is reported)
        decl = [tuple(e) for e in out.get('declared', [])]
        twice = any(sum(1 for e in decl if e[0] == d[0] and e[1] == d[1]) > 1 for d in decl)
        if twice and clause in ('Declared.dok', 'Declared.dok_strict') and \
                sorted(map(repr, map(tuple, out.get('net_edges', [])))) != sorted(map(repr, decl)):
            return 'repeated-positional-parent'
        if clause == 'Declared.dok_strict':
            return 'unobserved-stochastic-observable-twin'
        return None

    def to_coq(self, case, out):
        wv = clist(['(%s, (VConst %s))' % (cstr(k), cz(v)) for k, v in case['with_values'].items()])
        return '{| d_case := {| k_src := %s; k_outputs := %s; k_with := %s; k_impl := %s |}; d_decl := %s |}' % (
            out['snet'], out['coq_outputs'], wv, out['impl_coq'], cedges(out['declared']))


if __name__ == '__main__':
    sys.exit(run_check(C03))
