"""C18 — vectorize / external_operation: correspondence with coq/Num/Vectorize.v."""
import fractions
import subprocess

import numpy as np
from common import *

HDR = ('From Coq Require Import List ZArith NArith Bool String.\n'
       'From Elfi Require Import Base.Harness Num.Seed Num.Vectorize.\nImport ListNotations.\n')


# ---------------------------------------------------------------------------------------------
# value specs (json) <-> python objects <-> Coq [value] terms
# ---------------------------------------------------------------------------------------------

def build(sp):
    k, v = sp[0], sp[1]
    if k == 'i':
        return int(v)
    if k == 'ni':
        return np.int64(v)
    if k == 'f':
        return float(fractions.Fraction(v[0], v[1]))
    if k == 's':
        return str(v)
    if k == 'none':
        return None
    if k == 'arr':       # numpy array from nested python lists of ints / floats / strs
        return np.array(v[0], dtype=v[1]) if v[1] else np.array(v[0])
    if k == 'a0':
        return np.array(build(v))
    if k == 'list':
        return [build(x) for x in v]
    if k == 'tuple':
        return tuple(build(x) for x in v)
    raise ValueError(sp)


def canon(o):
    """python object -> canonical json spec of the model's [value]."""
    if isinstance(o, np.ndarray):
        if o.ndim > 0:
            return ['A', [canon(x) for x in o]]
        return ['Q', [['S', '0d'], canon(o.item())]]
    if isinstance(o, (bool, np.bool_)):
        return ['Q', [['S', 'bool'], ['N', [int(o), 1]]]]
    if isinstance(o, (int, np.integer)):
        return ['N', [int(o), 1]]
    if isinstance(o, (float, np.floating)):
        if o != o or o in (float('inf'), float('-inf')):
            return ['Q', [['S', 'float'], ['S', repr(float(o))]]]
        fr = fractions.Fraction(float(o))
        return ['Q', [['S', 'float'], ['N', [fr.numerator, fr.denominator]]]]
    if isinstance(o, str):
        return ['S', str(o)]
    if o is None:
        return ['0', 0]
    if isinstance(o, list):
        return ['Q', [['S', 'list']] + [canon(x) for x in o]]
    if isinstance(o, tuple):
        return ['Q', [['S', 'tuple']] + [canon(x) for x in o]]
    if isinstance(o, dict):
        return ['Q', [['S', 'dict']] + [['Q', [['S', str(k)], canon(v)]] for k, v in o.items()]]
    if isinstance(o, np.random.RandomState):
        return ['Q', [['S', 'RandomState'], ['N', [int(o.get_state()[1][0]), 1]]]]
    return ['Q', [['S', 'object'], ['S', type(o).__name__]]]


def cval(c):
    k, v = c[0], c[1]
    if k == 'N':
        return '(VNum %s %d%%positive)' % (cz(v[0]), v[1])
    if k == 'S':
        return '(VStr %s)' % cstr(v)
    if k == '0':
        return 'VNone'
    if k == 'A':
        return '(VArr %s)' % clist([cval(x) for x in v])
    if k == 'Q':
        return '(VSeq %s)' % clist([cval(x) for x in v])
    raise ValueError(c)


def cdict(items):
    return clist(['(%s, %s)' % (cstr(k), cval(v)) for k, v in items])


def ccall(c):
    return '(mkcall %s %s %s)' % (clist([cval(a) for a in c['args']]), cdict(c['kw']), copt(c['meta'], cdict))


def cstr2(s):
    """Coq string term for text that may contain tabs / newlines (cstr takes printable ASCII only)"""
    if all(32 <= ord(c) < 127 for c in s):
        return cstr(s)
    parts, cur = [], ''
    for ch in s:
        if ch in '\t\n':
            if cur:
                parts.append(cstr(cur))
                cur = ''
            parts.append('TAB' if ch == '\t' else 'NL')
        else:
            cur += ch
    if cur:
        parts.append(cstr(cur))
    return '(cat %s)' % clist(parts)


def echo_expect(cmd):
    """what /bin/sh prints for "echo w1 w2 .." (unquoted words) or "echo '...'" (one single-quoted argument)"""
    rest = cmd.strip()
    if not rest.startswith('echo'):
        return None
    rest = rest[4:].strip()
    if "'" in rest:
        if len(rest) >= 2 and rest[0] == "'" and rest[-1] == "'" and "'" not in rest[1:-1]:
            return rest[1:-1] + '\n'
        return None
    return ' '.join(rest.split()) + '\n'


# the handler under test in the second run of an external case: label -> what is passed as process_result
#   none            default handler, no dtype               str:<d>  dtype given as a string (canonical name or alias)
#   np:<d>          dtype given as numpy.dtype              callable user handler on the raw stdout (stdout=True), sep argument ignored
WIDE_PARSE = ['none', 'none', 'none', 'str:int32', 'str:int64', 'str:float64', 'str:uint32', 'str:uint64', 'str:i8', 'str:int', 'str:float',
              'str:i4', 'str:<f8', 'np:int32', 'np:int64', 'np:float64', 'np:uint64', 'callable', 'callable']
MEDIUM_PARSE = ['str:float32', 'np:float32', 'str:<f4', 'str:f']                       # exact up to 2**24: no seeds
SMALL_PARSE = ['str:int8', 'str:uint8', 'str:int16', 'np:int16', 'np:uint8', 'str:uint16', 'str:float16', 'np:int8']   # values 0..99 only
SEPS = [' ', ' ', ' ', ',', ',', ',', ';', ';', '\t', ', ', '::', ' ; ', '|', '  ']
DECOY_SEP = '#'


def parse_request(label):
    """(object passed as process_result or None for none/callable, canonical dtype name or None)"""
    if label in (None, 'none', 'callable'):
        return None, None
    how, spec = label.split(':', 1)
    name = np.dtype(spec).name
    return (np.dtype(spec) if how == 'np' else spec), name


def ctok(t):
    if t[0] == 'L':
        return '(Lit %s)' % cstr2(t[1])
    if t[0] == 'P':
        return '(Pos %s)' % cnat(t[1])
    return '(Key %s)' % cstr(t[1])


def render_template(toks, auto=False):
    out = []
    for t in toks:
        if t[0] == 'L':
            out.append(t[1].replace('{', '{{').replace('}', '}}'))
        elif t[0] == 'P':
            out.append('{}' if auto else '{%d}' % t[1])
        else:
            out.append('{%s}' % t[1])
    return ''.join(out)


def split_kwargs(kwargs):
    """(kw items other than meta, canonicalised; meta items or None)"""
    kw = [[k, canon(v)] for k, v in kwargs.items() if k != 'meta']
    meta = None
    if 'meta' in kwargs:
        meta = [[str(k), canon(v)] for k, v in kwargs['meta'].items()]
    return kw, meta


# ---------------------------------------------------------------------------------------------
# typed outputs: the operation's output KIND depends on the row (wave 3)
# ---------------------------------------------------------------------------------------------
# row type codes: b python bool, i python int, f python float, sN text of N characters,
#                 vb/vi/vf lists of bools/ints/floats, vm list mixing ints and floats, vsN list of texts of N characters
TYPED_FAMILIES = {
    'intfloat': ['i', 'f'], 'boolint': ['b', 'i'], 'boolfloat': ['b', 'f'], 'num': ['b', 'i', 'f'],
    'str': ['s1', 's2', 's3', 's5', 's8'],
    'vecnum': ['vb', 'vi', 'vf', 'vm'], 'vecintfloat': ['vi', 'vf'], 'vecstr': ['vs1', 'vs2', 'vs4'],
}
TYPED_UNIFORM = ['b', 'i', 'f', 's3', 'vi', 'vf', 'vm', 'vs2']
# dtype arguments that make sense for a family (text into a numeric dtype raises, numbers into <U render as decimals: not modelled)
TYPED_DTYPES_NUM = ['none'] * 5 + ['false', 'int64', 'float64', 'float32', 'bool']
TYPED_DTYPES_STR = ['none'] * 4 + ['false', 'U3']


def typed_value(t, k, w):
    """the output of call number k of an operation whose output type for that row is t (w = length of list outputs)"""
    if t == 'b':
        return k % 2 == 0
    if t == 'i':
        return 7 * k - 5
    if t == 'f':
        return (k + 1) * 0.75 - 2
    if t[0] == 's':
        return ('r%d' % k + 'qwertyuiop')[:int(t[1:])]
    if t == 'vb':
        return [(k + j) % 2 == 0 for j in range(w)]
    if t == 'vi':
        return [3 * k + j - 4 for j in range(w)]
    if t == 'vf':
        return [(k + 1) * 0.75 - 2 + 0.5 * j for j in range(w)]
    if t == 'vm':
        return [(k - 2 + j) if j % 2 == 0 else k + j + 0.25 for j in range(w)]
    if t[:2] == 'vs':
        return [('c%d%d' % (k, j) + 'abcdefgh')[:int(t[2:])] for j in range(w)]
    raise ValueError(t)


def enc_scal(x):
    if isinstance(x, (bool, np.bool_)):
        return ['b', int(bool(x))]
    if isinstance(x, (int, np.integer)):
        return ['i', int(x)]
    if isinstance(x, (float, np.floating)):
        x = float(x)
        if x != x or x in (float('inf'), float('-inf')):
            return None
        fr = fractions.Fraction(x)
        return ['f', [fr.numerator, fr.denominator]]
    if isinstance(x, str):
        return ['s', str(x)] if all(32 <= ord(c) < 127 for c in x) else None
    return None


def enc_out(o):
    """typed value of one output of the operation / one entry of the returned array: scalar or flat list; None = not encodable"""
    if isinstance(o, np.ndarray) and o.ndim == 0:
        o = o.item()
    if isinstance(o, (list, tuple, np.ndarray)):
        if isinstance(o, np.ndarray) and o.ndim != 1:
            return None
        es = [enc_scal(x) for x in o]
        return None if any(e is None for e in es) else ['vec', es]
    e = enc_scal(o)
    return None if e is None else ['sc', e]


def enc_ret(ret, obj):
    """(dtype name, rows) of the returned array"""
    if obj:
        rows = [enc_out(x) for x in ret]
        return ['object', rows] if all(r is not None for r in rows) else None
    if ret.dtype.kind not in 'biufU' or ret.ndim not in (1, 2):
        return ['dtype=%s ndim=%d' % (ret.dtype.str.replace('<', 'le').replace('|', ''), ret.ndim), []]
    name = ret.dtype.str if ret.dtype.kind == 'U' else ret.dtype.name
    rows = [enc_out(ret[i]) for i in range(len(ret))]
    return [name, rows] if all(r is not None for r in rows) else None


def cscal(e):
    k, v = e
    if k == 'b':
        return '(SBool %s)' % cbool(v)
    if k == 'i':
        return '(SInt %s)' % cz(v)
    if k == 'f':
        return '(SFloat %s %d%%positive)' % (cz(v[0]), v[1])
    return '(SStr %s)' % cstr(v)


def coval(o):
    return '(OSc %s)' % cscal(o[1]) if o[0] == 'sc' else '(OVec %s)' % clist([cscal(x) for x in o[1]])


DREQ = {'none': 'DNone', 'false': 'DFalse', 'int64': '(DGiven KI "int64"%string)', 'float64': '(DGiven KF "float64"%string)',
        'float32': '(DGiven KF "float32"%string)', 'bool': '(DGiven KB "bool"%string)', 'U3': '(DGiven (KS 3) "<U3"%string)'}


class Recorder:
    """the uninterpreted operation: records exactly what it is called with"""

    def __init__(self, out_kind, pattern=None, width=2):
        self.log = []
        self.outs = []
        self.out_kind = out_kind
        self.pattern = pattern
        self.width = width

    def __call__(self, *args, **kwargs):
        k = len(self.log)
        kw, meta = split_kwargs(kwargs)
        self.log.append(dict(args=[canon(a) for a in args], kw=kw, meta=meta,
                             arg_ids=[id(a) for a in args],
                             kw_ids={kk: id(v) for kk, v in kwargs.items()}))
        ok = self.out_kind
        if ok == 'typed':
            # the TYPE of the output depends on the row: call k returns a value of type pattern[k mod len]
            o = typed_value(self.pattern[k % len(self.pattern)], k, self.width)
        elif ok == 'int':
            o = k
        elif ok == 'float':
            o = k + 0.5
        elif ok == 'vec':
            o = np.array([k, 2 * k + 1])
        elif ok == 'tuple':
            o = ('call', k)
        elif ok == 'str':
            o = 'call%d' % k
        else:  # ragged
            o = list(range(k))
        self.outs.append(o)
        return o

    def __getstate__(self):
        return {}


def which_call(rec, entry, obj):
    """index of the call whose output is [entry] of the returned array"""
    if obj:
        for k, o in enumerate(rec.outs):
            if o is entry:
                return k
        return None
    e = np.asarray(entry)
    try:
        return int(np.floor(float(e.reshape(-1)[0])))
    except Exception:
        return None


DTYPES = {'none': None, 'false': False, 'int64': 'int64', 'float64': 'float64', 'float32': np.float32, 'bool': 'bool', 'U3': 'U3'}


class C18(PropCheck):
    pid = 'C18'
    header = HDR
    case_type = 'Vectorize.history'     # a list of calls on one vectorised callable; single-call cases are singleton histories
    preds = (('Vectorize.agree_history', 'agree'), ('Vectorize.ok_history', 'ok'))
    chunk = 120
    rule = ('(a) a recording operation through elfi.tools.vectorize, called directly and as Simulator/Operation node of an ElfiModel '
            'generate(batch_size, seed) with probe node; arity 0-5, explicit constants masks (incl. masks naming arrays and out-of-range '
            'indices) or auto-detection, inputs = 1-d/2-d arrays, python/numpy scalars, 0-d arrays, lists, strings; batch_size given/omitted/0/1; '
            'dtype None/False/int64/float64/float32 with scalar, vector, tuple, str, ragged outputs; keyword arguments and meta dict; '
            '(a2) multi-call histories on ONE vectorised callable (created once, constants given as list / tuple / None): 2-4 direct calls '
            'with scalar-then-array, array-then-scalar, alternating kinds at an unmasked position, different batch sizes and arities, and '
            'the same callable as node of an ElfiModel generated for 2-4 batches of different size interleaved with direct calls; every call '
            'checked against the per-row specification of ITS OWN inputs and the caller\'s constants object compared with its initial contents '
            'after every call; '
            '(a3) in half of all vectorize cases (direct, model, histories) the operation\'s output TYPE depends on the row: a pattern of 2-6 '
            'row types in random order from one family (python bool/int, int/float, bool/float, bool/int/float, texts of 1-8 characters, '
            'lists of 1-3 bools/ints/floats/mixed, lists of texts; or one type throughout) under dtype None / False / int64 / float64 / '
            'float32 / bool / U3; for EVERY vectorize call the typed outputs of the operation and the dtype and entries of the returned array '
            'go to Coq: dtype=None -> element type = numpy promotion over ALL rows and every entry holds its own row\'s value unchanged, '
            'dtype=False -> the entries are the outputs themselves, explicit dtype -> every entry is its own row cast to it; '
            '(b) external_operation with echo templates over positional/keyword/meta/seed inputs, direct, vectorized and inside a model with '
            'uses_meta on/off; (b2) the stdout handler explored jointly over process_result in {None, dtype as str (canonical name or alias '
            'i4/i8/int/float/f/<f4/<f8), numpy.dtype, a user callable on the raw stdout with a decoy sep} x element types int8..int64, '
            'uint8..uint64, float16/32/64 x sep in {" " (given or left at its default), ",", ";", tab, ", ", "::", " ; ", "|", two blanks} '
            'x 1-5 fields per row (integers, negative, leading zero, dyadic decimals for float types, digits glued to a substituted value) '
            'x joiner = the separator, its non-white core, or the core padded with blanks x quoted/unquoted echo argument x single / '
            'vectorized / model run; malformed stream: fields joined by ANOTHER separator or a field that is no literal of the requested '
            'type (ValueError expected); every returned row compared in Coq with parse_stdout(requested type, sep, THAT row\'s observed '
            'stdout) and its dtype with the request. Non-trivial = at least 2 rows and at least one non-constant and one '
            'constant input (vectorize), or at least one placeholder and (a seed in at least 2 rows or a parsed row of at least 2 fields) '
            '(external), or (history) at least 2 '
            'completed calls one of which has at least 2 rows and either an unmasked position that is a non-array in one call and an array in '
            'another or two different batch lengths; distinct by full input')
    trusted = ('subprocess (/bin/sh echo) and numpy.fromstring text parsing are runtime behaviour: sampled by the correspondence only '
               '(model: echo_stdout, parse_stdout; outputs with empty fields / trailing separators / nothing printed, separators made '
               'of characters that can occur in a number, values outside the range of the requested integer type and non-native byte '
               'orders are not generated: numpy returns filler / wrapped / byte-swapped values there instead of raising)',
               'numpy RandomState(seed).randint(2**31, size=K, dtype=uint32) as the stream fed to the C15 seed model',
               'external-command inputs restricted to ints and shell-safe strings (str() rendering modelled for those only)',
               'numpy.array(list of row outputs, dtype) is runtime behaviour modelled by Vectorize.collect (promotion bool < int64 < float64, '
               'texts: longest length; C casts for an explicit dtype) and sampled by the correspondence; not generated / outside the model: '
               'numbers and texts in one batch, integers beyond 2**53 next to floats, rows of different shapes under dtype != False, nan/inf, '
               'numpy scalar types other than the python ones')

    # -- generation ---------------------------------------------------------------------------
    def gen_value(self, n, allow_array=True, kinds=None):
        r = self.rng
        kind = r.choice(kinds or ['arr1', 'arr1', 'arr1f', 'arr2', 'arrs', 'int', 'nint', 'float', 'str', 'list', 'a0', 'tuple', 'none',
                                  'arr1bad', 'arr1'])
        if not allow_array and kind.startswith('arr'):
            kind = 'int'
        self.bump('input=' + kind)
        if kind == 'arr1':
            return ['arr', [[r.randint(-50, 99) for _ in range(n)], 'int64']]
        if kind == 'arr1bad':
            m = max(0, n + r.choice([-1, 1, 2]))
            return ['arr', [[r.randint(0, 99) for _ in range(m)], 'int64']]
        if kind == 'arr1f':
            return ['arr', [[r.randint(-64, 64) / 8.0 for _ in range(n)], 'float64']]
        if kind == 'arr2':
            w = r.randint(1, 3)
            return ['arr', [[[r.randint(0, 9) for _ in range(w)] for _ in range(n)], 'int64']] if n else ['arr', [[], 'int64']]
        if kind == 'arrs':
            return ['arr', [['w%d' % r.randint(0, 99) for _ in range(n)], None]]
        if kind == 'int':
            return ['i', r.randint(-5, 500)]
        if kind == 'nint':
            return ['ni', r.randint(0, 500)]
        if kind == 'float':
            return ['f', [r.randint(-40, 40), 8]]
        if kind == 'str':
            return ['s', 'c%d' % r.randint(0, 99)]
        if kind == 'list':
            return ['list', [['i', r.randint(0, 9)] for _ in range(r.choice([n, 2]))]]
        if kind == 'tuple':
            return ['tuple', [['i', r.randint(0, 9)] for _ in range(r.choice([n, 1]))]]
        if kind == 'a0':
            return ['a0', ['i', r.randint(0, 9)]]
        return ['none', 0]

    def gen_typed(self, dt, out_kind, dts_num=TYPED_DTYPES_NUM, dts_str=TYPED_DTYPES_STR, p=0.5):
        """with probability p replace (dtype, output kind) by an operation whose output TYPE depends on the row: a pattern of row
        types drawn from one family (int literal in some rows and float in others, bool/int, short and long texts, lists of ints /
        floats), in random order, under dtype None / False / explicit.  Returns (dtype, out_kind, pattern, width)"""
        r = self.rng
        if r.random() >= p:
            self.bump('typed:family=-')
            return dt, out_kind, None, 0
        fam = r.choice(sorted(TYPED_FAMILIES) * 3 + ['uniform'])
        types = [r.choice(TYPED_UNIFORM)] if fam == 'uniform' else TYPED_FAMILIES[fam]
        L = r.randint(2, 6)
        pattern = [r.choice(types) for _ in range(L)]
        text = pattern[0][0] == 's' or pattern[0][:2] == 'vs'
        dt = r.choice(dts_str if text else dts_num)
        self.bump('typed:family=' + fam)
        self.bump('typed:dtype=' + dt)
        return dt, 'typed', pattern, r.choice([1, 2, 2, 3])

    def gen_vec_direct(self):
        r = self.rng
        n = r.choice([0, 1, 1, 2, 3, 3, 4, 6])
        arity = r.choice([0, 1, 2, 2, 3, 3, 4, 5])
        inputs = [self.gen_value(n) for _ in range(arity)]
        cm = r.choice(['none', 'none', 'mask', 'mask', 'empty', 'oob'])
        if cm == 'none':
            constants = None
        elif cm == 'empty':
            constants = []
        elif cm == 'mask':
            constants = sorted(r.sample(range(arity), r.randint(0, arity))) if arity else []
            if r.random() < 0.3:
                r.shuffle(constants)
        else:
            constants = [r.randint(0, arity + 2) for _ in range(r.randint(1, 3))]
        bsm = r.choice(['omit', 'omit', 'match', 'match', 'other'])
        batch_size = None if bsm == 'omit' else (n if bsm == 'match' else r.choice([0, 1, 2, 5]))
        dt = r.choice(['none', 'none', 'false', 'false', 'int64', 'float64', 'float32'])
        out_kind = r.choice(['tuple', 'str', 'ragged', 'int', 'vec']) if dt == 'false' else r.choice(['int', 'float', 'vec'])
        dt, out_kind, pattern, width = self.gen_typed(dt, out_kind)
        kw = []
        if r.random() < 0.5:
            kw.append(['foo', ['i', r.randint(0, 9)]])
        if r.random() < 0.3:
            kw.append(['bar', self.gen_value(n, kinds=['arr1', 'str', 'list'])])
        rs = r.choice([None, r.randrange(2 ** 32)])
        meta = None
        if r.random() < 0.5:
            meta = [['batch_index', r.randint(0, 5)], ['model_name', 'mm']]
            if r.random() < 0.3:
                meta.insert(r.randint(0, 2), ['index_in_batch', 77])
        self.bump('vec:consts=' + cm)
        self.bump('vec:batch_size=' + bsm)
        self.bump('vec:dtype=' + dt)
        self.bump('vec:n=%d' % n)
        self.bump('vec:arity=%d' % arity)
        return dict(kind='vec', mode='direct', inputs=inputs, constants=constants, batch_size=batch_size, dtype=dt,
                    out_kind=out_kind, pattern=pattern, width=width, kw=kw, rs=rs, meta=meta, ctuple=r.random() < 0.5)

    def gen_model_nodes(self, n, for_ext=False):
        """parents of the node under test inside an ElfiModel: priors (arrays of length batch_size), constants"""
        r = self.rng
        arity = r.choice([1, 2, 2, 3, 4])
        parents = []
        for _ in range(arity):
            k = r.choice(['prior', 'prior', 'randint', 'const', 'const_arr', 'const_str'] if not for_ext
                         else ['randint', 'randint', 'const', 'const_str'])
            self.bump('parent=' + k)
            if k == 'const':
                parents.append(['const', ['i', r.randint(0, 99)]])
            elif k == 'const_arr':
                m = r.choice([n, n, n + 1, 2])
                parents.append(['const', ['arr', [[r.randint(0, 9) for _ in range(m)], 'int64']]])
            elif k == 'const_str':
                parents.append(['const', ['s', 'k%d' % r.randint(0, 9)]])
            else:
                parents.append([k, 0])
        return parents

    def gen_vec_model(self):
        r = self.rng
        n = r.choice([1, 2, 3, 3, 4, 5])
        parents = self.gen_model_nodes(n)
        arity = len(parents)
        cm = r.choice(['none', 'none', 'mask', 'constarrs'])
        if cm == 'none':
            constants = None
        elif cm == 'mask':
            constants = sorted(r.sample(range(arity), r.randint(0, arity)))
        else:
            constants = [i for i, p in enumerate(parents) if p[0] == 'const']
        dt = r.choice(['none', 'false', 'float64'])
        out_kind = r.choice(['tuple', 'str', 'int']) if dt == 'false' else r.choice(['int', 'float', 'vec'])
        dt, out_kind, pattern, width = self.gen_typed(dt, out_kind)
        node = r.choice(['Simulator', 'Simulator', 'Operation', 'Summary'])
        self.bump('vecmodel:node=' + node)
        self.bump('vecmodel:consts=' + cm)
        self.bump('vecmodel:n=%d' % n)
        return dict(kind='vec', mode='model', parents=parents, constants=constants, n=n, dtype=dt, out_kind=out_kind,
                    pattern=pattern, width=width, node=node, uses_meta=r.random() < 0.5, seed=r.randrange(2 ** 31))

    # -- histories: ONE vectorised callable, several calls ------------------------------------------------
    SCALAR_KINDS = ['int', 'int', 'nint', 'float', 'str', 'list', 'a0', 'tuple', 'none']
    ARRAY_KINDS = ['arr1', 'arr1', 'arr1f', 'arr2', 'arrs']
    HIST_PATTERNS = ['scalar_then_array', 'array_then_scalar', 'alternate', 'sizes', 'mixed']

    def gen_hist_constants(self, arity, leave_free=True):
        """(constants as json list or None, kind of the object the caller passes: none / list / tuple)"""
        r = self.rng
        ck = r.choice(['none', 'list', 'list', 'list', 'tuple', 'empty_list', 'empty_tuple', 'oob_list'])
        if ck == 'none':
            return None, 'none'
        if ck.startswith('empty'):
            return [], ck.split('_')[1]
        if ck == 'oob_list':
            return [arity + r.randint(0, 2)], 'list'
        hi = max(0, arity - 1) if leave_free else arity
        cs = sorted(r.sample(range(arity), r.randint(0, hi))) if arity else []
        if r.random() < 0.25:
            r.shuffle(cs)
        return cs, ck

    def gen_call_extras(self, n):
        """keyword arguments / generator / meta dict / batch_size of one direct call"""
        r = self.rng
        kw = []
        if r.random() < 0.4:
            kw.append(['foo', ['i', r.randint(0, 9)]])
        if r.random() < 0.15:
            kw.append(['bar', self.gen_value(n, kinds=['arr1', 'str', 'list'])])
        rs = r.choice([None, None, r.randrange(2 ** 32)])
        meta = None
        if r.random() < 0.4:
            meta = [['batch_index', r.randint(0, 5)], ['model_name', 'mm']]
        bsm = r.choice(['omit', 'omit', 'omit', 'match', 'other'])
        batch_size = None if bsm == 'omit' else (n if bsm == 'match' else r.choice([0, 1, 2, 5]))
        return dict(kw=kw, rs=rs, meta=meta, batch_size=batch_size)

    def gen_vec_hist(self, pattern):
        """2-4 direct calls of one vectorised callable"""
        r = self.rng
        ncalls = r.choice([2, 2, 3, 3, 4])
        arity = r.choice([1, 2, 2, 3, 3, 4])
        constants, ckind = self.gen_hist_constants(arity)
        free = [i for i in range(arity) if i not in (constants or [])]
        pivot = r.choice(free) if free else None
        if pattern == 'sizes':
            sizes = r.sample([1, 2, 3, 4, 6], ncalls)
        else:
            sizes = [r.choice([1, 2, 2, 3, 4, 6]) for _ in range(ncalls)]
        # array-ness of the pivot position per call
        if pattern == 'scalar_then_array':
            s = r.randint(1, ncalls - 1)
            piv = ['S'] * s + ['A'] * (ncalls - s)
        elif pattern == 'array_then_scalar':
            s = r.randint(1, ncalls - 1)
            piv = ['A'] * s + ['S'] * (ncalls - s)
        elif pattern == 'alternate':
            b = r.randint(0, 1)
            piv = ['SA'[(k + b) % 2] for k in range(ncalls)]
        elif pattern == 'sizes':
            piv = ['A'] * ncalls
        else:
            piv = [None] * ncalls
        calls = []
        for k in range(ncalls):
            n = sizes[k]
            a = arity
            if pattern == 'mixed' and r.random() < 0.25:
                a = max(0, arity + r.choice([-1, 1]))
            inputs = []
            for j in range(a):
                if j == pivot and piv[k] == 'S':
                    inputs.append(self.gen_value(n, kinds=self.SCALAR_KINDS))
                elif j == pivot and piv[k] == 'A':
                    inputs.append(self.gen_value(n, kinds=self.ARRAY_KINDS))
                elif pattern == 'mixed':
                    inputs.append(self.gen_value(n))
                else:
                    # mostly well-formed companions so that the call completes
                    inputs.append(self.gen_value(n, kinds=self.ARRAY_KINDS * 2 + self.SCALAR_KINDS + ['arr1bad']))
            c = dict(inputs=inputs)
            c.update(self.gen_call_extras(n))
            calls.append(c)
        dt = r.choice(['none', 'none', 'false', 'false', 'int64', 'float64'])
        out_kind = r.choice(['tuple', 'str', 'ragged', 'int', 'vec']) if dt == 'false' else r.choice(['int', 'float', 'vec'])
        dt, out_kind, opattern, width = self.gen_typed(dt, out_kind)
        self.bump('hist:pattern=' + pattern)
        self.bump('hist:ncalls=%d' % ncalls)
        self.bump('hist:consts=' + ckind + ('' if constants is None else ':%d' % len(constants)))
        self.bump('hist:dtype=' + dt)
        return dict(kind='vec', mode='hist', constants=constants, ckind=ckind, dtype=dt, out_kind=out_kind, pattern=opattern,
                    width=width, calls=calls,
                    positional=r.random() < 0.3)

    def gen_vec_histmodel(self):
        """one vectorised callable as node of an ElfiModel generated for several batches, interleaved with direct calls"""
        r = self.rng
        nb = r.choice([2, 2, 3, 4])
        sizes = r.sample([1, 2, 3, 4, 5], nb)
        if r.random() < 0.3:
            sizes[-1] = sizes[0]
        parents = self.gen_model_nodes(sizes[0])
        arity = len(parents)
        cm = r.choice(['none', 'none', 'mask', 'mask', 'constarrs', 'empty'])
        if cm == 'none':
            constants, ckind = None, 'none'
        elif cm == 'empty':
            constants, ckind = [], r.choice(['list', 'tuple'])
        elif cm == 'mask':
            constants, ckind = sorted(r.sample(range(arity), r.randint(0, arity - 1))), r.choice(['list', 'list', 'tuple'])
        else:
            constants, ckind = [i for i, p in enumerate(parents) if p[0] == 'const'], r.choice(['list', 'list', 'tuple'])
        steps = [dict(t='batch', n=n, seed=r.randrange(2 ** 31)) for n in sizes]
        # direct calls of the same callable with the kinds flipped w.r.t. what the model passes at the position
        nd = r.choice([0, 1, 1, 2])
        for _ in range(nd):
            n = r.choice([1, 2, 3])
            inputs = []
            for (k, v) in parents:
                arr_in_model = k in ('prior', 'randint') or (k == 'const' and v[0] == 'arr')
                flip = r.random() < 0.7
                inputs.append(self.gen_value(n, kinds=(self.SCALAR_KINDS if arr_in_model == flip else self.ARRAY_KINDS)))
            c = dict(t='direct', inputs=inputs)
            c.update(self.gen_call_extras(n))
            steps.insert(r.randint(0, len(steps) - 1), c)     # never last: a model batch always follows a direct call
        dt = r.choice(['none', 'false', 'float64'])
        out_kind = r.choice(['tuple', 'str', 'int']) if dt == 'false' else r.choice(['int', 'float', 'vec'])
        dt, out_kind, pattern, width = self.gen_typed(dt, out_kind)
        node = r.choice(['Simulator', 'Simulator', 'Operation', 'Summary'])
        self.bump('histmodel:node=' + node)
        self.bump('histmodel:consts=' + ckind)
        self.bump('histmodel:batches=%d' % nb)
        self.bump('histmodel:direct_calls=%d' % nd)
        return dict(kind='vec', mode='histmodel', parents=parents, constants=constants, ckind=ckind, dtype=dt, out_kind=out_kind,
                    pattern=pattern, width=width, node=node, uses_meta=r.random() < 0.5, steps=steps)

    def gen_template(self, arity, keys, numeric):
        r = self.rng
        toks = [['L', 'echo ']]
        m = r.randint(0, 6)
        for j in range(m):
            c = r.random()
            if c < 0.3:
                toks.append(['L', str(r.randint(0, 999)) if numeric or r.random() < 0.5 else r.choice(['ab', 'x{y}z', '{', '}}', 'q.r', '{0}', 'A_b'])])
            elif c < 0.65:
                toks.append(['P', r.randint(0, arity - 1) if arity and r.random() < 0.93 else arity + r.randint(0, 1)])
            else:
                toks.append(['K', r.choice(keys) if keys and r.random() < 0.93 else r.choice(['zz', 'seed', 'index_in_batch'])])
            if r.random() < 0.85 or numeric:
                toks.append(['L', r.choice([' ', ' ', '  '])])
        if numeric and m == 0:
            toks.append(['L', str(r.randint(0, 99))])
        return toks

    def gen_sep_template(self, arity, keys, sep, parse, small=False, big_ok=True):
        """echo of 1-5 numeric fields joined by the separator; returns (tokens, shape of the output: wellformed / mismatch / badfield).
        [keys] = keyword inputs with integer values.  Malformed stream: fields joined by ANOTHER separator, or a field that is not a
        literal of the requested type (word, decimal for an integer dtype, negative for an unsigned one): a clean ValueError is expected"""
        r = self.rng
        core = sep.strip()
        _, name = parse_request(parse)
        floaty = name is None or name.startswith('float')
        unsigned = name is not None and name.startswith('uint')
        nf = r.choice([1, 2, 2, 2, 3, 3, 4, 5])
        shape = 'wellformed'
        c = r.random()
        if c < 0.08 and nf >= 2:
            shape = 'mismatch'
        elif c < 0.16:
            shape = 'badfield'
        bad_at = r.randrange(nf) if shape == 'badfield' else None
        hi = 99 if small else 999
        fields = []
        for j in range(nf):
            if j == bad_at:
                opts = ['word']
                if not floaty:
                    opts += ['decimal', 'decimal']
                if unsigned:
                    opts += ['negative', 'negative']
                o = r.choice(opts)
                self.bump('ext:badfield=' + o)
                fields.append([['L', {'word': r.choice(['abc', 'x7', '7x', '1_0']), 'decimal': '%d.5' % r.randint(0, 9),
                                      'negative': '-%d' % r.randint(1, 99)}[o]]])
                continue
            c = r.random()
            if arity == 0 and 0.3 <= c < 0.65 and r.random() < 0.9:
                c = 0.1 if not keys else 0.8                     # no positional input to refer to
            if c < 0.3 or (arity == 0 and not keys and c < 0.9):
                lit = str(r.randint(0, hi))
                c2 = r.random()
                if c2 < 0.25 and not unsigned:
                    lit = '-' + str(r.randint(1, hi))
                elif c2 < 0.5 and floaty:
                    lit = r.choice(['', '-']) + '%d.%s' % (r.randint(0, 63), r.choice(['5', '25', '75', '125', '0', '50', '375']))
                elif c2 < 0.55:
                    lit = '0' + lit
                f = [['L', lit]]
            elif c < 0.65:
                f = [['P', r.randint(0, arity - 1) if arity and r.random() < 0.95 else arity + r.randint(0, 1)]]
            else:
                f = [['K', r.choice(keys) if keys and r.random() < 0.95 else r.choice(['zz', 'seed', 'index_in_batch'] if big_ok else ['zz'])]]
            if (f[0][0] == 'P' or (f[0][0] == 'K' and f[0][1] not in ('seed', 'master_seed'))) and r.random() < 0.12 and not small:
                f.insert(0, ['L', str(r.randint(1, 9))])          # digits glued to a substituted value: still one field
            fields.append(f)
        # what stands between two fields
        if shape == 'mismatch':
            others = [x for x in [',', ';', '|', '::', ' ', ':'] if x.strip() != core and not (x == ':' and core != '::')]
            joiner = r.choice(others)
        elif core == '':
            joiner = r.choice([sep, ' ', '  ', '\t', ' \t'])
        else:
            joiner = r.choice([sep, core, core, core, core + ' ', ' ' + core, ' ' + core + '  '])
        toks = []
        for j, f in enumerate(fields):
            if j:
                toks.append(['L', joiner])
            toks.extend(f)
        pad = r.random() < 0.15
        if pad:
            toks = [['L', ' ']] + toks + [['L', ' ']]            # white space around the whole line
        quoted = any(ch in joiner for ch in ';|\t') or r.random() < 0.35
        if quoted:
            toks = [['L', "echo '"]] + toks + [['L', "'"]]
        else:
            toks = [['L', 'echo ']] + toks
        # merge adjacent literals (the template is the same string; keeps the Coq term small)
        out = []
        for t in toks:
            if out and t[0] == 'L' and out[-1][0] == 'L':
                out[-1] = ['L', out[-1][1] + t[1]]
            else:
                out.append(list(t))
        self.bump('ext:sep=%r' % sep)
        self.bump('ext:fields=%d' % nf)
        self.bump('ext:output=' + shape)
        self.bump('ext:quoted=%s' % quoted)
        self.bump('ext:joiner=' + ('sep' if joiner == sep else 'core' if joiner == core else 'mismatch' if shape == 'mismatch' else 'padded'))
        return out, shape

    def gen_parse(self, allow_medium, allow_small):
        r = self.rng
        c = r.random()
        if allow_small and c < 0.2:
            return r.choice(SMALL_PARSE), True
        if allow_medium and c < 0.4:
            return r.choice(MEDIUM_PARSE), False
        return r.choice(WIDE_PARSE), False

    def gen_ext_direct(self):
        r = self.rng
        vectorized = r.random() < 0.6
        n = r.choice([1, 2, 3, 4, 6]) if vectorized else 1
        arity = r.choice([0, 1, 2, 3])
        numeric = r.random() < 0.7
        inputs = []
        for _ in range(arity):
            kinds = ['int', 'nint'] + (['arr1'] * 3 if vectorized else []) + ([] if numeric else ['str', 'arrs' if vectorized else 'str'])
            v = self.gen_value(n, kinds=kinds)
            if v[0] == 'arr' and v[1][1] == 'int64':
                v = ['arr', [[abs(x) for x in v[1][0]], 'int64']]
            if v[0] == 'i':
                v = ['i', abs(v[1])]
            inputs.append(v)
        if vectorized and r.random() < 0.1 and arity:
            inputs[r.randrange(arity)] = ['arr', [[1] * (n + 1), 'int64']]
        kw = []
        if r.random() < 0.6:
            kw.append(['k1', ['i', r.randint(0, 999)]])
        if r.random() < 0.15:
            kw.append(['index_in_batch', ['i', r.randint(0, 3)]])
        if r.random() < 0.1:
            kw.append(['seed', ['i', 5]])
        rs = r.randrange(2 ** 32) if r.random() < 0.8 else None
        meta = None
        if r.random() < 0.65:
            meta = [['batch_index', r.randint(0, 5)], ['submission_index', r.randint(0, 3)], ['master_seed', r.randint(0, 999)]]
            if not numeric:
                meta.append(['model_name', 'mod_%d' % r.randint(0, 9)])
            if r.random() < 0.2:
                meta.append(['k1', 7])
            if not vectorized and r.random() < 0.6:
                meta.append(['index_in_batch', r.choice([0, 1, 2, 5] if numeric else [0, 1, 2, 5, None])])
        keys = [k for k, _ in kw] + [k for k, _ in (meta or [])] + (['seed'] if rs is not None else []) \
            + (['index_in_batch'] if vectorized and meta is not None else [])
        pr, sep, shape = None, ' ', None
        if numeric:
            pr, small = self.gen_parse(True, True)
            sep = r.choice(SEPS)
            if small:
                # 8/16-bit element types: every printed value stays in 0..99 (numpy's C cast wraps silently otherwise)
                def clamp(v):
                    if v[0] == 'arr':
                        return ['arr', [[x % 100 for x in v[1][0]], v[1][1]]]
                    return [v[0], v[1] % 100]
                inputs = [clamp(v) for v in inputs]
                kw = [[k, clamp(v)] for k, v in kw]
                ikeys = [k for k, _ in kw if k != 'seed']
                big_ok = False
            else:
                ikeys = list(keys)
                big_ok = parse_request(pr)[1] != 'float32'
                if not big_ok:
                    ikeys = [k for k in ikeys if k != 'seed']           # seeds exceed 2**24
            if r.random() < 0.25 and sep == ' ' and not small and parse_request(pr)[1] != 'float32':
                toks, shape = self.gen_template(arity, keys, True), 'wellformed'      # the wave-1 family: unquoted, runs of blanks
                self.bump('ext:sep=%r' % sep)
                self.bump('ext:output=legacy')
            else:
                toks, shape = self.gen_sep_template(arity, ikeys, sep, pr, small, big_ok)
        else:
            toks = self.gen_template(arity, keys, numeric)
        consts = None
        if vectorized and r.random() < 0.3 and arity:
            consts = sorted(r.sample(range(arity), r.randint(0, arity)))
            # a marked array would be formatted with numpy's repr: keep marked inputs scalar
            consts = [i for i in consts if inputs[i][0] != 'arr']
        self.bump('ext:direct:' + ('vectorized' if vectorized else 'single'))
        self.bump('ext:parse=%s' % pr)
        self.bump('ext:meta=%s' % (meta is not None))
        return dict(kind='ext', mode='direct', vectorized=vectorized, toks=toks, inputs=inputs, constants=consts,
                    batch_size=r.choice([None, n]) if vectorized else None, kw=kw, rs=rs, meta=meta, parse=pr, sep=sep, shape=shape,
                    sep_arg=not (sep == ' ' and r.random() < 0.5), auto=r.random() < 0.3)

    def gen_ext_model(self):
        r = self.rng
        n = r.choice([2, 3, 3, 4, 5])
        parents = self.gen_model_nodes(n, for_ext=True)
        uses_meta = r.random() < 0.7
        numeric = not any(p[0] == 'const' and p[1][0] == 's' for p in parents) and r.random() < 0.7
        keys = ['seed'] + (['batch_index', 'submission_index', 'master_seed', 'index_in_batch'] if uses_meta else [])
        if uses_meta and not numeric:
            keys.append('model_name')
        pr, sep, shape = None, ' ', None
        if numeric:
            pr, _ = self.gen_parse(False, False)            # seeds and randint priors: wide element types only
            sep = r.choice(SEPS)
            ikeys = [k for k in keys if k != 'model_name']
            if r.random() < 0.25 and sep == ' ':
                toks, shape = self.gen_template(len(parents), keys, True), 'wellformed'
            else:
                toks, shape = self.gen_sep_template(len(parents), ikeys, sep, pr)
            self.bump('ext:model:parse=%s' % pr)
        else:
            toks = self.gen_template(len(parents), keys, numeric)
        self.bump('ext:model:uses_meta=%s' % uses_meta)
        return dict(kind='ext', mode='model', vectorized=True, toks=toks, parents=parents, n=n, uses_meta=uses_meta,
                    seed=r.randrange(2 ** 31), parse=pr, sep=sep, shape=shape, sep_arg=not (sep == ' ' and r.random() < 0.5), auto=False,
                    constants=None)

    def generate(self):
        q = self.tier == 'quick'
        plan = [(self.gen_vec_direct, 420 if q else 6000), (self.gen_vec_model, 60 if q else 700),
                (self.gen_ext_direct, 300 if q else 4000), (self.gen_ext_model, 40 if q else 500)]
        for g, k in plan:
            for _ in range(k):
                yield g()
        # multi-call histories on one vectorised callable: every pattern on every run
        for i in range(150 if q else 2500):
            yield self.gen_vec_hist(self.HIST_PATTERNS[i % len(self.HIST_PATTERNS)])
        for _ in range(30 if q else 400):
            yield self.gen_vec_histmodel()

    # -- implementation drivers ------------------------------------------------------------------
    def build_model(self, case, make_node):
        import elfi
        m = elfi.ElfiModel()
        names = []
        for j, (k, v) in enumerate(case['parents']):
            nm = 'p%d' % j
            if k == 'prior':
                elfi.Prior('uniform', 0, 4, model=m, name=nm)
            elif k == 'randint':
                elfi.Prior('randint', 0, 1000, model=m, name=nm)
            else:
                elfi.Constant(build(v), model=m, name=nm)
            names.append(nm)
        return m, names

    # one vectorised callable -----------------------------------------------------------------------------
    @staticmethod
    def consts_object(constants, ckind):
        """the object the caller passes as [constants]"""
        if constants is None:
            return None
        return tuple(constants) if ckind == 'tuple' else list(constants)

    @staticmethod
    def consts_state(vop, obj):
        """what can be seen of the caller's constants object (and of the one held by the partial) right now"""
        st = dict(type=type(obj).__name__, contents=None if obj is None else [int(x) for x in obj])
        kws = getattr(vop, 'keywords', None)
        if isinstance(kws, dict) and 'constants' in kws:
            h = kws['constants']
            st['held_type'] = type(h).__name__
            st['held'] = None if h is None else [int(x) for x in h]
        return st

    def observe(self, rec, start, ret, dtype, res):
        """fill [res] with the observation of ONE finished call of the vectorised callable: the recorder's log from [start] on
        belongs to it; [ret] is None when the call raised ValueError"""
        log = rec.log[start:]
        outs = rec.outs[start:]
        res['n_logged'] = len(log)
        if ret is None:
            res.update(calls=None, obj=False)
            return res
        ret = np.asarray(ret) if not isinstance(ret, np.ndarray) else ret
        obj = bool(ret.dtype == object and ret.ndim == 1)
        order = []
        if ret.ndim > 0 and rec.out_kind == 'typed':
            # typed outputs do not encode the call number (bools, equal texts): entries are matched to calls by position and the
            # VALUES of the entries are compared with the outputs in the typed clause (Coq typed_ok / typed_agree)
            order = list(range(len(ret))) if len(ret) == len(log) else [None] * len(ret)
        elif ret.ndim > 0:
            for i in range(len(ret)):
                k = which_call(rec, ret[i], obj)
                order.append(None if k is None else k - start)
        else:
            order = ['scalar']
        calls = []
        for k in order:
            if k is None or k == 'scalar' or not (0 <= k < len(log)):
                calls.append(dict(args=[['S', 'unmatched-output']], kw=[], meta=None))
            else:
                c = log[k]
                calls.append(dict(args=c['args'], kw=c['kw'], meta=c['meta']))
        res.update(calls=calls, obj=obj, order=order, ret_dtype=str(ret.dtype), ret_shape=list(ret.shape),
                   log_ids=[dict(arg_ids=c['arg_ids'], kw_ids=c['kw_ids']) for c in log])
        # typed view: what the operation returned per call, and the returned array's dtype and entries
        eouts = [enc_out(o) for o in outs]
        eret = enc_ret(ret, obj) if ret.ndim > 0 else None
        res['typed'] = dict(outs=eouts, ret=eret) if eret is not None and all(e is not None for e in eouts) else None
        try:
            res['row0_narrower'] = bool(len(outs) > 1 and np.array(outs[:1]).dtype != np.array(outs).dtype)
        except Exception:
            res['row0_narrower'] = None
        # numpy's own conversion of the raw outputs, for the dtype clause
        if dtype is not False:
            try:
                exp = np.array(outs, dtype=dtype)
                res['conv_equal'] = bool(exp.dtype == ret.dtype and exp.shape == ret.shape and np.array_equal(exp, ret))
            except Exception as e:
                res['conv_equal'] = 'numpy raised %r' % e
        return res

    def direct_call(self, vop, rec, dtype, spec, consts_obj):
        """one direct call of the vectorised callable with the inputs of [spec]; returns its observation"""
        res = dict(error=None, how='direct', specs=spec['inputs'])
        inputs = [build(s) for s in spec['inputs']]
        kwargs = {k: build(v) for k, v in spec['kw']}
        if spec['rs'] is not None:
            kwargs['random_state'] = np.random.RandomState(spec['rs'])
        if spec['meta'] is not None:
            kwargs['meta'] = {k: v for k, v in spec['meta']}
        given_kw, given_meta = split_kwargs(kwargs)
        given_ids = {k: id(v) for k, v in kwargs.items()}
        if spec['batch_size'] is not None:
            kwargs['batch_size'] = spec['batch_size']
        start = len(rec.log)
        res['consts_before'] = self.consts_state(vop, consts_obj)
        try:
            ret = vop(*inputs, **kwargs)
        except ValueError:
            ret = None
            res['error'] = 'ValueError'
        res['consts_after'] = self.consts_state(vop, consts_obj)
        res.update(inputs=[canon(x) for x in inputs], input_ids=[id(x) for x in inputs], kw=given_kw, meta=given_meta,
                   given_ids=given_ids, batch_size=spec['batch_size'])
        self.observe(rec, start, ret, dtype, res)
        res['_keep'] = (inputs, kwargs)     # keeps the objects alive so that ids stay unique within the history
        return res

    def model_call(self, m, names, vop, rec, dtype, n, seed, consts_obj):
        """one batch of the model whose node 'node' is the vectorised callable; given inputs/kwargs from the probe node"""
        res = dict(error=None, how='model')
        plog = self._plog
        pout = m.generate(n, outputs=names + ['probe'], seed=seed)
        pa, pk = plog[-1]
        inputs = list(pa)
        start = len(rec.log)
        res['consts_before'] = self.consts_state(vop, consts_obj)
        try:
            out = m.generate(n, outputs=names + ['node', 'probe'], seed=seed)
            ret = out['node']
            same = all(np.array_equal(np.asarray(out[nm]), np.asarray(pout[nm])) for nm in names)
        except ValueError:
            ret = None
            same = True
            res['error'] = 'ValueError'
        res['consts_after'] = self.consts_state(vop, consts_obj)
        pk = dict(pk)
        bs = pk.pop('batch_size', None)
        if 'meta' in pk:
            pk['meta'] = {k: v for k, v in pk['meta'].items() if k != 'index_in_batch'}
        given_kw, given_meta = split_kwargs(pk)
        res.update(inputs=[canon(x) for x in inputs], input_ids=None, kw=given_kw, meta=given_meta, given_ids=None,
                   batch_size=bs, parents_reproducible=same)
        self.observe(rec, start, ret, dtype, res)
        return res

    def make_model(self, case, vop):
        import elfi
        m, names = self.build_model(case, None)
        cls = getattr(elfi, case['node'])
        node = cls(vop, *[m[nm] for nm in names], model=m, name='node')
        self._plog = plog = []

        def probe(*a, **k):
            plog.append((a, dict(k)))
            return np.zeros(k.get('batch_size', 1))
        pnode = cls(probe, *[m[nm] for nm in names], model=m, name='probe')
        if case['uses_meta']:
            node.uses_meta = True
            pnode.uses_meta = True
        return m, names

    def run_vec(self, case):
        import elfi
        rec = Recorder(case['out_kind'], case.get('pattern'), case.get('width') or 2)
        dtype = DTYPES[case['dtype']]
        mode = case['mode']
        ckind = case.get('ckind') or ('tuple' if case.get('ctuple') else 'list')
        consts_obj = self.consts_object(case['constants'], ckind)
        positional = case['positional'] if 'positional' in case else (mode == 'direct' and self.rng.random() >= 0.7)
        vop = elfi.tools.vectorize(rec, consts_obj, dtype) if positional else elfi.tools.vectorize(rec, constants=consts_obj, dtype=dtype)
        if mode == 'direct':
            calls = [self.direct_call(vop, rec, dtype, case, consts_obj)]
        elif mode == 'model':
            m, names = self.make_model(case, vop)
            calls = [self.model_call(m, names, vop, rec, dtype, case['n'], case['seed'], consts_obj)]
        elif mode == 'hist':
            calls = [self.direct_call(vop, rec, dtype, spec, consts_obj) for spec in case['calls']]
        else:   # histmodel
            m, names = self.make_model(case, vop)
            calls = []
            for st in case['steps']:
                if st['t'] == 'batch':
                    calls.append(self.model_call(m, names, vop, rec, dtype, st['n'], st['seed'], consts_obj))
                else:
                    calls.append(self.direct_call(vop, rec, dtype, st, consts_obj))
        for c in calls:
            c.pop('_keep', None)
        self._plog = None
        res = dict(hist=calls, error=calls[0]['error'] if len(calls) == 1 else None)
        if mode in ('hist', 'histmodel'):
            cs = set(case['constants'] or [])
            arrs = [[(x[0] == 'A') for x in c['inputs']] for c in calls]
            # an unmasked position that one call auto-detects as constant and another call receives as a batch array
            res['kind_switch'] = any(j not in cs and j < len(b) and a[j] != b[j]
                                     for ia, a in enumerate(arrs) for b in arrs[ia + 1:] for j in range(len(a)))
            res['scalar_then_array'] = any(j not in cs and j < len(b) and (not a[j]) and b[j]
                                           for ia, a in enumerate(arrs) for b in arrs[ia + 1:] for j in range(len(a)))
        return res

    def run_ext(self, case):
        import elfi
        template = render_template(case['toks'], auto=False)
        auto_ok = case.get('auto') and [t[1] for t in case['toks'] if t[0] == 'P'] == list(range(sum(1 for t in case['toks'] if t[0] == 'P')))
        if auto_ok:
            template = render_template(case['toks'], auto=True)
        log = []

        def inspect(cp, *inputs, **kwinputs):
            rs = kwinputs.get('random_state')
            log.append(dict(cmd=cp.args, stdout=cp.stdout.decode(), seed=(int(kwinputs['seed']) if 'seed' in kwinputs and rs is not None else None),
                            word0=int(rs.get_state()[1][0]) if rs is not None else None,
                            meta=[[k, canon(v)] for k, v in kwinputs['meta'].items()] if 'meta' in kwinputs else None,
                            inputs=[canon(x) for x in inputs], keys=sorted(kwinputs)))
            return np.array([len(log) - 1])

        sep = case.get('sep', ' ')
        hlog = []

        def handler(out, *inputs, **kwinputs):
            """a user's own result handler on the raw standard output (stdout=True): it splits on ITS separator"""
            hlog.append([type(out).__name__, out.decode() if isinstance(out, bytes) else repr(out), [canon(x) for x in inputs], sorted(kwinputs)])
            return np.fromstring(out, sep=sep)

        def mk(parse):
            if parse == 'inspect':
                return elfi.tools.external_operation(template, process_result=inspect, stdout=False,
                                                     subprocess_kwargs=dict(stdout=subprocess.PIPE))
            if parse == 'callable':
                # "If you specify your own callable to process_result this value [sep] has no effect"
                return elfi.tools.external_operation(template, process_result=handler, sep=DECOY_SEP)
            pr, _ = parse_request(parse)
            if not case.get('sep_arg'):
                return elfi.tools.external_operation(template, process_result=pr)          # sep left at its default (' ')
            return elfi.tools.external_operation(template, process_result=pr, sep=sep)

        res = dict(template=template, error=None)

        def call(op):
            """returns (outcome, value): outcome in ok/ValueError/IndexError/KeyError"""
            try:
                if case['mode'] == 'direct':
                    inputs = [build(s) for s in case['inputs']]
                    kwargs = {k: build(v) for k, v in case['kw']}
                    if case['rs'] is not None:
                        kwargs['random_state'] = np.random.RandomState(case['rs'])
                    if case['meta'] is not None:
                        kwargs['meta'] = {k: v for k, v in case['meta']}
                    if case['vectorized']:
                        if case['batch_size'] is not None:
                            kwargs['batch_size'] = case['batch_size']
                        op = elfi.tools.vectorize(op, constants=case['constants'])
                    res['inputs'] = [canon(x) for x in inputs]
                    return 'ok', op(*inputs, **kwargs)
                m, names = self.build_model(case, None)
                node = elfi.Simulator(elfi.tools.vectorize(op), *[m[nm] for nm in names], model=m, name='node')
                if case['uses_meta']:
                    node.uses_meta = True
                pout = m.generate(case['n'], outputs=names, seed=case['seed'])
                res['inputs'] = [canon(pout[nm]) for nm in names]
                res['model_name'] = m.name
                out = m.generate(case['n'], outputs=names + ['node'], seed=case['seed'])
                return 'ok', out['node']
            except ValueError as e:
                return 'ValueError', str(e)
            except IndexError as e:
                return 'IndexError', str(e)
            except KeyError as e:
                return 'KeyError', str(e)

        oc, val = call(mk('inspect'))
        res['outcome'] = oc
        res['rows'] = log
        if oc == 'KeyError':
            mm = re.search(r"requested keyword [\\']*(\w+)", val)
            res['key'] = mm.group(1) if mm else '?'
        if oc == 'ok':
            val = np.asarray(val)
            res['order'] = [int(x) for x in val.reshape(-1)]
        res['parsed'] = None
        if oc == 'ok' and case.get('parse'):
            log2 = list(log)
            oc2, val2 = call(mk(case['parse']))
            del log[len(log2):]
            res['handler_log'] = list(hlog) if case['parse'] == 'callable' else None
            if oc2 == 'ValueError':
                res['parsed'] = 'ValueError'
                res['parse_error'] = str(val2)
            elif oc2 != 'ok':
                res['parsed'] = 'second run: %s %s' % (oc2, val2)
            else:
                val2 = np.asarray(val2)
                res['parsed_dtype'] = val2.dtype.name
                res['parsed_native'] = bool(val2.dtype.isnative)
                rows = val2 if case['vectorized'] else (val2[None, :] if val2.ndim == 1 else val2)
                if rows.ndim == 2 and rows.dtype.kind in 'iuf' and np.all(np.isfinite(rows)):
                    res['parsed'] = [[[fr.numerator, fr.denominator] for fr in (fractions.Fraction(x) for x in row.tolist())] for row in rows]
                else:
                    res['parsed'] = 'second run returned dtype %s shape %s: %r' % (val2.dtype, val2.shape, val2.tolist())
        # inputs of the model side that only the run knows (model mode)
        if case['mode'] == 'model':
            if log:
                res['word0'] = log[0]['word0']
                res['meta'] = [kv for kv in (log[0]['meta'] or []) if kv[0] != 'index_in_batch'] if log[0]['meta'] is not None else None
            else:
                res['word0'] = None
                res['meta'] = None
        return res

    def run_impl(self, case):
        if case['kind'] == 'vec':
            out = self.run_vec(case)
            for c in out['hist']:
                self.bump('outcome:vec:%s:%s' % (case['mode'], c['error'] or 'ok'))
                if c['calls'] is not None:
                    self.bump('typed:observed=%s' % (c.get('typed') is not None))
                    if case['out_kind'] == 'typed' and len(c['calls']) > 1:
                        self.bump('typed:dtype=%s:row0_narrower_than_all_rows=%s' % (case['dtype'], c.get('row0_narrower')))
            if len(out['hist']) > 1:
                self.bump('history:calls', len(out['hist']))
                self.bump('history:kind_switch_at_unmasked_position=%s' % out['kind_switch'])
                self.bump('history:scalar_then_array_at_unmasked_position=%s' % out['scalar_then_array'])
                done = [c for c in out['hist'] if c['calls'] is not None]
                self.bump('history:completed_calls=%d' % len(done))
                self.bump('history:distinct_batch_lengths=%d' % len({len(c['calls']) for c in done}))
        else:
            out = self.run_ext(case)
            self.bump('outcome:ext:%s:%s' % (case['mode'], out['outcome']))
            if case.get('parse'):
                pk = 'not-run' if out['parsed'] is None else 'rows' if isinstance(out['parsed'], list) else \
                    'ValueError' if out['parsed'] == 'ValueError' else 'other'
                self.bump('ext:parse_run=' + pk)
                if pk == 'rows':
                    self.bump('ext:parsed_fields_per_row=%d' % max(len(p) for p in out['parsed']))
                    self.bump('ext:parsed:sep=%r:%s' % (case.get('sep'), 'default' if case['parse'] == 'none' else
                                                        'callable' if case['parse'] == 'callable' else 'typed'))
        return out

    # -- python-side clauses ---------------------------------------------------------------------
    def py_vec_call(self, case, out, tag):
        """clauses on ONE call of the vectorised callable ([out] = its observation)"""
        bad = []
        # the constants object the caller passed (and the partial holds) has the same type and contents as before the call and as at
        # creation: auto-detected constants of this call must not be written into it
        ckind = case.get('ckind') or ('tuple' if case.get('ctuple') else 'list')
        want = dict(type='NoneType' if case['constants'] is None else ckind, contents=case['constants'])
        for when in ('consts_before', 'consts_after'):
            st = out[when]
            if st['type'] != want['type'] or st['contents'] != want['contents'] or \
                    ('held' in st and (st['held'] != want['contents'] or st['held_type'] != want['type'])):
                # generic text (one replay per kind of history); the contents before/after every call are in impl_output.hist[k]
                bad.append(('constants_unchanged', 'the constants object the caller passed to elfi.tools.vectorize (held by the vectorised '
                            'callable) does not have its original contents any more %s' %
                            ('after a call of a multi-call history: auto-detected constants of one call leak into the next'
                             if tag else 'after the call')))
                break
        if out['calls'] is None:
            if out['n_logged']:
                bad.append(('rejected_but_called', '%sValueError raised after %d operation calls' % (tag, out['n_logged'])))
            return bad
        dt = case['dtype']
        if dt == 'false':
            if not out['obj']:
                bad.append(('dtype_false', '%sdtype=False did not give a 1-d object array: dtype=%s shape=%s' % (tag, out['ret_dtype'], out['ret_shape'])))
        else:
            if out.get('conv_equal') is not True:
                bad.append(('dtype_conv', '%sreturned array is not numpy.array(outputs, dtype=%s): %s' % (tag, dt, out.get('conv_equal'))))
        if out['order'] != list(range(out['n_logged'])):
            bad.append(('entry_order', '%sentry i of the result is not the output of the i-th call: %s (calls made: %d)' % (tag, out['order'], out['n_logged'])))
        if out['how'] == 'direct':
            # "unchanged": constants and keyword arguments are the very objects that were passed
            cs = set(case['constants'] or [])
            for c in out['log_ids']:
                for j, (sp, a_id, i_id) in enumerate(zip(out['specs'], c['arg_ids'], out['input_ids'])):
                    is_arr = sp[0] == 'arr'
                    if (j in cs or not is_arr) and a_id != i_id:
                        bad.append(('constant_identity', '%sconstant input %d was not passed as the same object' % (tag, j)))
                for k, i_id in out['given_ids'].items():
                    if c['kw_ids'].get(k) != i_id:
                        bad.append(('kwarg_identity', '%skeyword %s was not passed as the same object' % (tag, k)))
                if 'batch_size' in c['kw_ids']:
                    bad.append(('batch_size_forwarded', '%sbatch_size reached the operation' % tag))
        else:
            if not out['parents_reproducible']:
                bad.append(('harness_parents', '%sparent outputs differ between two generate calls with one seed' % tag))
        return bad

    def py_check(self, case, out):
        bad = []
        if case['kind'] == 'vec':
            many = len(out['hist']) > 1
            for k, c in enumerate(out['hist']):
                bad.extend(self.py_vec_call(case, c, 'call %d of %d on one vectorised callable: ' % (k, len(out['hist'])) if many else ''))
            # one line per clause
            seen, res = set(), []
            for cl, msg in bad:
                if cl not in seen:
                    seen.add(cl)
                    res.append((cl, msg))
            return res[:3]
        # ext
        if out['outcome'] == 'ok':
            for row in out['rows']:
                exp = echo_expect(row['cmd'])
                if row['stdout'] != exp:
                    bad.append(('echo_runtime', 'stdout %r is not the echo of %r' % (row['stdout'], row['cmd'])))
            if isinstance(out['parsed'], str) and out['parsed'] != 'ValueError':
                bad.append(('parse_run', out['parsed']))           # neither an array of numbers nor a ValueError
            elif isinstance(out['parsed'], list):
                want = parse_request(case['parse'])[1] or 'float64'
                if out['parsed_dtype'] != want or not out['parsed_native']:
                    bad.append(('parse_dtype', 'parsed stdout has dtype %s, requested %s' % (out['parsed_dtype'], want)))
                if len(out['parsed']) != len(out['order']):
                    bad.append(('parse_rows', 'the run with the stdout handler returned %d rows, the inspected run %d'
                                % (len(out['parsed']), len(out['order']))))
            if out.get('handler_log') is not None and out['parsed'] is not None:
                # a user handler (stdout=True) is given the raw standard output of each row's command, in row order
                seen = [h[1:] for h in out['handler_log']]
                want = [[out['rows'][k]['stdout'], out['rows'][k]['inputs'], out['rows'][k]['keys']] for k in out['order'] if 0 <= k < len(out['rows'])]
                if any(h[0] != 'bytes' for h in out['handler_log']) or (isinstance(out['parsed'], list) and seen != want):
                    bad.append(('handler_stdout', 'the user handler (stdout=True) was called with (type, stdout, inputs, keywords) %r; the commands '
                                'printed / were given %r' % (out['handler_log'], want)))
        return bad[:3]

    def nontrivial(self, case, out):
        if case['kind'] == 'vec':
            cs = set(case['constants'] or [])
            done = [c for c in out['hist'] if c['calls'] is not None]
            if len(out['hist']) > 1:
                # history: two completed calls, one with >= 2 rows, and a kind switch at an unmasked position or two batch lengths
                if len(done) < 2 or max(len(c['calls']) for c in done) < 2:
                    return None
                if not (out.get('kind_switch') or len({len(c['calls']) for c in done}) > 1):
                    return None
            else:
                c = out['hist'][0]
                if not c['calls'] or len(c['calls']) < 2:
                    return None
                isarr = [x[0] == 'A' for x in c['inputs']]
                nonconst = any(a and j not in cs for j, a in enumerate(isarr))
                const = any((not a) or j in cs for j, a in enumerate(isarr))
                if not (nonconst and const):
                    return None
        else:
            seeds = [r['seed'] for r in out['rows'] if r['seed'] is not None]
            if not any(t[0] != 'L' for t in case['toks']):
                return None
            # a seed in two rows, or a parsed standard output of at least two fields
            two_fields = isinstance(out.get('parsed'), list) and any(len(p) >= 2 for p in out['parsed'])
            if len(seeds) < 2 and not two_fields:
                return None
        return json.dumps(case, sort_keys=True)

    def classify(self, case, out, clause):
        return None

    # -- Coq terms -----------------------------------------------------------------------------------
    def stream(self, word0, need):
        K = need + 8
        return [int(x) for x in np.random.RandomState(word0).randint(2 ** 31, size=K, dtype='uint32')]

    def to_coq(self, case, out):
        cconst = copt(case['constants'], lambda c: clist([cnat(i) for i in c]))
        if case['kind'] == 'vec':
            # a history = the list of its calls; every call is judged against ITS OWN inputs and the constants the CALLER passed at creation
            terms = []
            for c in out['hist']:
                impl = copt(c['calls'], lambda cs: clist([ccall(x) for x in cs]))
                typed = None
                if c['calls'] is not None and c.get('typed') is not None:
                    t = c['typed']
                    typed = '{| t_dtype := %s; t_outs := %s; t_ret := (%s, %s) |}' % (
                        DREQ[case['dtype']], clist([coval(o) for o in t['outs']]), cstr(t['ret'][0]), clist([coval(o) for o in t['ret'][1]]))
                terms.append('(CVec {| v_inputs := %s; v_constants := %s; v_batch_size := %s; v_kw := %s; v_meta := %s; '
                             'v_dtype_false := %s; v_impl := %s; v_impl_obj := %s; v_typed := %s |})'
                             % (clist([cval(x) for x in c['inputs']]), cconst, copt(c['batch_size'], cnat), cdict(c['kw']),
                                copt(c['meta'], cdict), cbool(case['dtype'] == 'false'), impl, cbool(c['obj']),
                                copt(typed, lambda x: x)))
            return clist(terms)
        # ext
        oc = out['outcome']
        if case['mode'] == 'direct':
            kw = [[k, canon(build(v))] for k, v in case['kw']]
            meta = [[k, canon(v)] for k, v in case['meta']] if case['meta'] is not None else None
            word0 = case['rs']
            bs = case['batch_size']
        else:
            kw = []
            meta = out['meta']
            word0 = out['word0']
            bs = case['n']
            if oc != 'ok' and not out['rows']:
                # nothing observed about the run's generator/meta: the failing placeholder is checked python-side only
                word0 = 0
                meta = ([['batch_index', ['N', [0, 1]]], ['submission_index', ['N', [0, 1]]], ['master_seed', ['N', [case['seed'], 1]]],
                         ['model_name', ['S', out.get('model_name', 'm')]]] if case['uses_meta'] else None)
        n_rows = max(len(out['rows']), case.get('n', 1), 8)
        idxs = [v[1][0] for k, v in kw if k == 'index_in_batch' and v[0] == 'N'] + \
               [v[1][0] for k, v in (meta or []) if k == 'index_in_batch' and v[0] == 'N']
        rs = copt(word0, lambda w: clist([cn(x) for x in self.stream(w, max([n_rows] + idxs) + 1)]))
        if oc == 'ok':
            parsed = out['parsed']
            obs = []
            for j, k in enumerate(out['order']):
                row = out['rows'][k] if 0 <= k < len(out['rows']) else dict(cmd='unmatched', seed=None, stdout='')
                p = None
                if isinstance(parsed, list) and j < len(parsed):
                    p = '(mkpout %s (Some (%s, %s)))' % (cstr2(row['stdout']), cstr(out['parsed_dtype']),
                                                         clist(['(%s, %d%%positive)' % (cz(a), b) for a, b in parsed[j]]))
                elif parsed == 'ValueError':
                    p = '(mkpout %s None)' % cstr2(row['stdout'])
                obs.append('(OCmd %s %s %s)' % (cstr2(row['cmd']), copt(row['seed'], cn), copt(p, lambda x: x)))
            impl = '(Some %s)' % clist(obs)
        elif oc == 'ValueError':
            impl = 'None'
        elif oc == 'IndexError':
            impl = '(Some %s)' % clist(['OIndexError'])
        else:
            impl = '(Some %s)' % clist(['(OKeyError %s)' % cstr(out.get('key', '?'))])
        if oc in ('IndexError', 'KeyError') and case['vectorized']:
            # the exception aborts the whole batch at its first row: compare that row only
            first_only = True
        else:
            first_only = False
        inputs = out.get('inputs')
        if inputs is None:
            return None
        return ('[CExt {| e_toks := %s; e_inputs := %s; e_constants := %s; e_batch_size := %s; e_vectorized := %s; e_kw := %s; '
                'e_meta := %s; e_rs := %s; e_sep := %s; e_req := %s; e_first_only := %s; e_impl := %s |}]'
                % (clist([ctok(t) for t in case['toks']]), clist([cval(x) for x in inputs]), cconst, copt(bs, cnat),
                   cbool(case['vectorized']), cdict(kw), copt(meta, cdict), rs, cstr2(case.get('sep') or ' '),
                   copt(parse_request(case.get('parse'))[1], cstr), cbool(first_only), impl))


if __name__ == '__main__':
    sys.exit(run_check(C18))
