"""C17 — regression adjustment and model comparison: correspondence with coq/Num/Adjust.v.

adjust cases : real `adjust_posterior` (real `Sample`, real `ElfiModel` with observed Summary nodes, a
               `LinearAdjustment` instance so that coef_/intercept_ can be read back) vs the model
               fed with the numpy.linalg.lstsq slope (oracle) -> `agree`; the implementation's own
               coefficients must satisfy the normal equations and its output the formula -> `ok`;
               python side: affine re-expression of the summaries gives the same adjusted values
               (full-rank designs only, as in the theorem), 'linear' string spec = instance.
               A dedicated stream has >= 2 parameters that are non-finite at DIFFERENT rows (both directions);
               python side `adjusted_rows`: per parameter exactly the rows whose summaries and that parameter
               are finite (length-safe: a wrong length is a reported failure, never an exception).
compare cases: real `compare_models` on real `Sample` objects vs the model with the argsort order as a
               validated oracle; python side: permuting the models permutes the result when no tie
               straddles the cut; result = the property's formula and sums to one.  Non-finite discrepancies
               (inf / nan in a Sample that is not the last one) are simply the largest values (numpy sort
               order -inf < finite < inf < nan); for Coq they are embedded order-isomorphically into Q.
storage / listing (wave 2): the model is a function of the NUMERIC values.  Every adjust case may carry further runs
               of the real code on the same numbers with the summaries LISTED in another order and the arrays of the
               Sample / the observed summaries STORED otherwise (float64, float32, int64, int32, bool - only dtypes that
               hold the values exactly; C-contiguous, strided, reversed, column-of-2-d, read-only).  Coq: each run agrees
               with the model's single result (`agree`), satisfies the property in its own listing on the numeric
               regressors (`ok` via `run_case`), and its tags are validated (`run_wf`: permutation, storable).
               compare cases may store discrepancies / n_sim / prior weights in integer or float32 dtypes and other
               containers; a dedicated stream has an exact-zero prior weight at every position.  Python side:
               `inputs_unmutated` (the arrays handed in are bit-identical afterwards).
configuration (wave 3): the further runs may build the adjustment object with keyword arguments (handed to scikit-learn's
               LinearRegression: fit_intercept, copy_X, positive, n_jobs).  Coq: `fit_ok cfg` = the run's own (intercept_, coef_)
               solve the regression problem of ITS configuration (normal equations of [1 X] / of [X] with intercept_ = 0 / KKT
               conditions of the non-negative problem), the output is theta - (s - s_obs).coef_ on the exact regressors, a run whose
               configuration poses the default problem (any copy_X / n_jobs) agrees with the same model result as the reference
               run, and the object's X attribute read back after adjust() is summaries - observed (`x_attr_ok`).  Python side:
               `regressors_unmutated` (X attribute value-identical to summaries - observed computed before the fit, also after a
               second adjust()), `adjust_repeatable` (a second adjust() on the fitted object returns the same arrays).
histories (wave 3b): ONE adjustment object used on 2-3 different samples in a row (other rows / parameters / masks / number of
               parameters), through adjust_posterior or fit() + adjust(); one case per position of the history, so every call is
               held against the model's result for ITS sample (the model has no memory across fits: `refit`, `run_history`,
               C17_history_fresh); Coq clause: len(regression_models) = number of parameters of the last fit.
"""
import math
import numpy as np
from common import *

NONFIN = {'nan': float('nan'), 'inf': float('inf'), '-inf': float('-inf')}


def dec(x):
    """json value -> float ('nan' / 'inf' / '-inf' strings for non-finite)"""
    return NONFIN[x] if isinstance(x, str) else float(x)


def enc(x):
    x = float(x)
    if math.isnan(x):
        return 'nan'
    if math.isinf(x):
        return 'inf' if x > 0 else '-inf'
    return x


def cfv(x):
    x = dec(x)
    return 'None' if not math.isfinite(x) else '(Some %s)' % cq(x)


def cql(l):
    return clist([cq(x) for x in l])


def dkey(x):
    """reference order of discrepancies = numpy's sort order: -inf < finite < +inf < nan (all nan equal)"""
    x = dec(x)
    return (1, 0.0) if math.isnan(x) else (0, x)


def surrogate(samples):
    """order-isomorphic embedding of the discrepancies into Q for the Coq side (which has `list Q`):
    -inf -> (min finite) - 1, +inf -> (max finite) + 1, nan -> (max finite) + 2.  compare_models reads the
    values only through argsort, so only the order (and which values tie) matters."""
    fin = [dec(x) for d, _ in samples for x in d if math.isfinite(dec(x))]
    lo, hi = (min(fin), max(fin)) if fin else (0.0, 0.0)

    def f(x):
        x = dec(x)
        if math.isnan(x):
            return hi + 2
        if math.isinf(x):
            return hi + 1 if x > 0 else lo - 1
        return x
    return [[[f(x) for x in d], ns] for d, ns in samples]


def cross_rows(summ, params):
    """pairs (A, B) of parameters such that A is non-finite at a row where B and all summaries are finite"""
    res = set()
    for i, row in enumerate(summ):
        if not all(math.isfinite(dec(x)) for x in row):
            continue
        fin = [math.isfinite(dec(col[i])) for col in params]
        for a in range(len(params)):
            for b in range(len(params)):
                if not fin[a] and fin[b]:
                    res.add((a, b))
    return res


NPDT = {'f8': np.float64, 'f4': np.float32, 'i8': np.int64, 'i4': np.int32, 'b1': np.bool_}
COQDT = {'f8': 'F64', 'f4': 'F32', 'i8': 'I64', 'i4': 'I32', 'b1': 'B8'}
LAYOUTS = ['c', 'c', 'strided', 'rev', 'col', 'ro']


def f32(x):
    """nearest binary32 as a python float (so that the case value IS what a float32 array holds)"""
    return float(np.float32(x))


def store(vals, dt='f8', lay='c'):
    """the numeric values `vals` (python floats) as a 1-d numpy array of dtype `dt` in memory layout `lay`.
    Only exact storage is allowed (the stored array converted back to float64 is `vals`), so whatever differs
    between two runs of one case is never the harness's own conversion.
    layouts: c = fresh C-contiguous; strided = every 2nd element of a longer buffer; rev = negative stride;
    col = column of a 2-d C-ordered array; ro = contiguous, WRITEABLE flag cleared."""
    base = np.array([dec(x) for x in vals], dtype=np.float64)
    with np.errstate(all='ignore'):
        arr = base.astype(NPDT[dt])
    if not np.array_equal(arr.astype(np.float64), base, equal_nan=True):
        raise AssertionError('harness: values %r are not exactly storable as %s' % (vals, dt))
    n = len(arr)
    junk = np.array([1], dtype=np.float64).astype(NPDT[dt])[0]
    if lay == 'strided':
        buf = np.full(2 * n + 1, junk, dtype=NPDT[dt])
        buf[1::2] = arr
        v = buf[1::2]
    elif lay == 'rev':
        buf = arr[::-1].copy()
        v = buf[::-1]
    elif lay == 'col':
        buf = np.full((n, 3), junk, dtype=NPDT[dt])
        buf[:, 1] = arr
        v = buf[:, 1]
    elif lay == 'ro':
        v = arr.copy()
        v.setflags(write=False)
    else:
        v = arr.copy()
    assert v.shape == (n,) and v.dtype == NPDT[dt]
    return v


def x_dtype(sdt, odt):
    """dtype of `np.stack(summaries) - np.stack(observed)` for the given storage dtypes"""
    return np.result_type(*([NPDT[d] for d in sdt] + [NPDT[d] for d in odt]))


CFG_KEYS = ('fit_intercept', 'copy_X', 'positive', 'n_jobs')
CFG_DEFAULT = dict(fit_intercept=True, copy_X=True, positive=False, n_jobs=None)


def cfg_full(cfg):
    """the keyword arguments of a run (only the keys that are passed explicitly) completed with scikit-learn's defaults"""
    d = dict(CFG_DEFAULT)
    d.update(cfg or {})
    return d


def default_problem(cfg):
    """fit_intercept=True, positive=False: the least-squares problem on [1 X] (copy_X / n_jobs are not part of the problem)"""
    c = cfg_full(cfg)
    return bool(c['fit_intercept']) and not c['positive']


def ccfg(cfg):
    c = cfg_full(cfg)
    nj = c['n_jobs']
    return ('{| cf_fit_intercept := %s; cf_copy_X := %s; cf_positive := %s; cf_n_jobs := %s |}'
            % (cbool(bool(c['fit_intercept'])), cbool(bool(c['copy_X'])), cbool(bool(c['positive'])),
               'None' if nj is None else '(Some (%d)%%Z)' % int(nj)))


def cfmat(X):
    """a matrix of floats ('nan'/'inf' strings allowed) as list (list fval)"""
    return clist([clist([cfv(x) for x in row]) for row in X])


class C17(PropCheck):
    pid = 'C17'
    header = ('From Coq Require Import List ZArith QArith Bool.\nFrom Elfi Require Import Base.Harness Num.Adjust.\n'
              'Import ListNotations.\nLocal Open Scope Q_scope.\n')
    case_type = 'Adjust.case'
    preds = (('Adjust.agree', 'agree'), ('Adjust.ok', 'ok'))
    chunk = 60
    rule = ('adjust: samples of 2-14 rows, 1-3 summaries, 1-3 parameters, grid or full-mantissa values, injected nan/inf/-inf in '
            'summaries and parameters, rows equal to the observed summaries; non-trivial = at least one row dropped by the finite '
            'mask, masks differing between parameters or a row with s_i = s_obs, and a full-column-rank design for some parameter; '
            'a dedicated stream (every run) has 2-3 parameters where parameter A is nan/inf at a row at which parameter B and all '
            'summaries are finite and B is nan/inf at another such row (expected rows are computed per parameter). '
            'compare: 1-4 models, 0-6 samples each, integer discrepancies (ties), differing n_sim, prior weights or None; a dedicated '
            'stream (every run) puts inf/nan (rarely -inf) discrepancies into a Sample that is not the last one while a later model owns '
            'the smallest discrepancy; non-trivial = >=2 models with a tie straddling the cut, differing n_sim/weights or non-finite '
            'discrepancies in a non-last sample. Distinct by full input. '
            'Storage/listing: about 30% of the adjust cases carry one further run of the same numeric sample with the summaries listed in a random '
            'order and float64 arrays that are strided / reversed / a column of a 2-d array / read-only; a dedicated stream (every run) has columns '
            'that are natively counts (integers), flags (0/1), binary32 or binary64 reals, integer-valued parameters, integer or non-integer observed '
            'values for count columns, and 2-3 further runs each: run 0 lists a non-float64 column first in its native dtype, run 1 is never the canonical '
            'listing, every array is stored in a dtype that holds its values exactly (float64/float32/int64/int32/bool, mixed within one run; 30% of the runs '
            'all-native so that X itself is integer), observed summaries in float64/float32/int64/int32/bool through the Summary function. Excluded (unchanged code, see design note): '
            'runs where every summary and observed array is float32/bool (X float32 or bool). '
            'compare: 40% of the cases (and the whole zero-prior stream) store discrepancies as float64/float32/int64/int32 arrays in the five layouts, n_sim as '
            'int/np.int64/np.int32, prior weights as list/tuple/int list/float64/float32/int64/int32 array; a dedicated stream (every run) has 2-4 models with an exact-zero prior weight at a '
            'random position (first/middle/last all visited), further zeros with 12% each, weights in eighths or un-normalised integers. '
            'Configuration (wave 3): the further runs may build the adjustment object with keyword arguments (documented as handed to the regression model, scikit-learn '
            'LinearRegression): any subset of fit_intercept / copy_X / positive / n_jobs in {None,1,2,-1}, each passed explicitly or left out; a dedicated stream (every run) has '
            'float64 samples of k+2..14 rows, half of them without any non-finite entry, with 2-3 configured runs each (run 0 always copy_X=False; half of the cases all-float64 '
            'with run 0 in the canonical listing), and 50% / 30% of the re-listed / re-stored runs of the other adjust streams are configured too; positive=True only when [1 X] of '
            'every fitted parameter has full column rank (unique non-negative slope). Every run (reference run included) reads back the X attribute after adjust() and calls '
            'adjust() a second time. '
            'Object-reuse histories (every run, 40 quick / 500 thorough histories): 2-3 samples for one model that differ in the number of rows, the number of parameters, every value and the '
            'non-finite entries; one case per position t >= 2 whose 1-2 runs each use ONE adjustment object (default or, 50%, configured) that was fitted / adjusted on samples 1..t-1 before, '
            'every call through adjust_posterior or through fit() + adjust() by hand (both visited for earlier and last calls); the last call is checked like any run, plus len(regression_models) '
            '= number of parameters of the last fit.')
    trusted = ('scikit-learn LinearRegression is an oracle: only "its (intercept_, coef_) solve the normal equations within 1e-9" is checked per case',
               'numpy.linalg.lstsq (centred data) as the oracle slope for the model side; numpy.argsort order is validated inside Coq (permutation + ascending)',
               'binary64 arithmetic is modelled exactly over Q: summaries - observed and the dot product are compared with tolerances (1e-12 formula, 1e-9 normal equations, 1e-8 oracle slope); generator keeps |values| <= 4 so nothing overflows',
               'the list/Q model (Num/Adjust.v) and the matrix model (Num/AdjustMx.v) describe the same formula theta - X.b; their identification is by inspection',
               'non-finite discrepancies: the reference semantics is that of the code as written (numpy.argsort: -inf < finite < +inf < nan, nans tie), i.e. inf/nan are simply the largest values; '
               'for the Coq side (discrepancies are Q) the harness embeds them order-isomorphically (-inf -> min-1, +inf -> max+1, nan -> max+2), which is sound because compare_models reads the values only through argsort; '
               'the python-side formula clause uses the extended order directly',
               'storage: harness.store() builds every array and asserts that converting it back to float64 gives the case values (Coq re-validates the tags: run_wf/storable); '
               'that numpy hands those dtypes / strides to the code unchanged is trusted; runs whose regressor matrix would be float32 or bool (all arrays float32/bool) are not generated',
               'configuration: which regression problem a configuration poses (fit_intercept -> intercept column or intercept_ = 0; positive -> non-negative least squares, checked through its '
               'Karush-Kuhn-Tucker conditions; copy_X / n_jobs -> nothing) is the model of scikit-learn LinearRegression, read from its documentation; the oracle slope for the non-default problems '
               '(numpy lstsq on un-centred data; enumeration of the supports for positive=True) is harness code; the expected regressor matrix of the python clause regressors_unmutated is '
               'np.stack(summaries) - np.stack(observed) evaluated by the harness before the fit (the Coq clause x_attr_ok compares the attribute with the exact differences instead)')

    # ------------------------------------------------------------------------------------------
    def _val(self, mode):
        r = self.rng
        if mode == 'grid':
            return r.randint(-16, 16) / 4.0
        return r.uniform(-4, 4)

    SOPTS = {'real': ['f8'], 'real32': ['f4', 'f4', 'f8'], 'count': ['i8', 'i8', 'i4', 'f8', 'f4'],
             'flag': ['b1', 'b1', 'i8', 'i4', 'f8', 'f4']}

    def _kval(self, kind, mode):
        """a value of a column of the given kind: real (any binary64), real32 (a binary32), count (an integer),
        flag (0 or 1)"""
        r = self.rng
        if kind == 'count':
            return float(r.randint(-3, 9))
        if kind == 'flag':
            return float(r.randint(0, 1))
        v = self._val(mode)
        return f32(v) if kind == 'real32' else v

    def _make_runs(self, skind, pkind, obs, nruns, native_first=True):
        """further runs of one numeric sample: listing order of the summaries, storage dtype of every array (only
        dtypes that hold the column's values exactly) and memory layout.  Run 0 lists a column that is natively not
        float64 (a count / flag / float32 column) FIRST and stores it in its native dtype; run 1 is never the
        canonical listing when there are >= 2 summaries."""
        r = self.rng
        k, runs = len(skind), []
        for t in range(nruns):
            perm = list(range(k))
            r.shuffle(perm)
            native = [j for j in range(k) if skind[j] != 'real']
            if t == 0 and native_first and native:
                first = r.choice(native)
                perm.remove(first)
                perm.insert(0, first)
            elif t == 1 and k >= 2 and perm == list(range(k)):
                perm = perm[1:] + perm[:1]
            native_all = native_first and r.random() < 0.3     # every array in its native dtype (all-integer X possible)
            sdt = []
            for pos, j in enumerate(perm):
                opts = self.SOPTS[skind[j]]
                if (t == 0 and pos == 0 and native_first) or native_all:
                    opts = [o for o in opts if o != 'f8'] or opts
                if native_all and skind[j] in ('count', 'flag'):
                    opts = [o for o in opts if o != 'f4']
                sdt.append(r.choice(opts))
            odt = []
            for j in perm:
                o = dec(obs[j])
                opts = ['f8', 'f8', 'f4'] if f32(o) == o else ['f8']
                if float(o).is_integer():
                    opts = ['i8', 'i8', 'i4'] if (native_all and skind[j] in ('count', 'flag')) else opts + ['i8', 'i8', 'i4']
                if o in (0.0, 1.0):
                    opts = opts + ['b1']
                odt.append(r.choice(opts))
            pdt = [r.choice(self.SOPTS[kd]) for kd in pkind]
            # LinearAdjustment computes X = stack(summaries) - stack(observed) in the common dtype of all those arrays.
            # Outside this check (see design note, Wave 2): a float32 X (all arrays float32/bool: the regression itself
            # then runs in binary32, errors ~1e-7) and a bool X (all arrays bool: numpy refuses bool - bool).
            guard = 0
            while x_dtype(sdt, odt) not in (np.float64, np.int64, np.int32):
                guard += 1
                if k >= 2 and r.random() < 0.5 and guard < 20:
                    pos = r.randrange(1, k)
                    sdt[pos] = 'f8'
                else:
                    odt[r.randrange(k)] = 'f8'
            runs.append(dict(perm=perm, sdt=sdt, odt=odt, pdt=pdt, slay=[r.choice(LAYOUTS) for _ in range(k)],
                             play=[r.choice(LAYOUTS) for _ in pkind]))
        for run in runs:
            self.bump('adj:run_listing=' + ('canonical' if run['perm'] == sorted(run['perm']) else 'permuted'))
            self.bump('adj:run_first_summary_dtype=' + run['sdt'][0])
            self.bump('adj:run_X_dtype=%s' % x_dtype(run['sdt'], run['odt']))
            for d in set(run['sdt']):
                self.bump('adj:run_summary_dtype=' + d)
            for d in set(run['odt']):
                self.bump('adj:run_observed_dtype=' + d)
            for d in set(run['pdt']):
                self.bump('adj:run_param_dtype=' + d)
            for l in set(run['slay'] + run['play']):
                self.bump('adj:run_layout=' + l)
            if len(set(run['sdt'])) > 1:
                self.bump('adj:run_mixed_summary_dtypes')
        return runs

    def gen_adjust_store(self):
        """samples whose columns are natively counts (integers), flags (0/1), binary32 or binary64 reals, run in the
        reference storage (float64) and in 2-3 further listings / storages / layouts of the same numbers."""
        r = self.rng
        k = r.choice([1, 2, 2, 2, 3, 3])
        p = r.randint(1, 3)
        n = r.randint(k + 3, 14)
        mode = r.choice(['grid', 'float', 'float'])
        skind = [r.choice(['real', 'count', 'count', 'flag', 'real32']) for _ in range(k)]
        if all(x == 'real' for x in skind):
            skind[r.randrange(k)] = r.choice(['count', 'count', 'flag', 'real32'])
        pkind = [r.choice(['real', 'real', 'count', 'real32']) for _ in range(p)]
        obs = []
        for kd in skind:
            if kd == 'count':      # usually an integer observed count, sometimes not (e.g. an averaged count)
                obs.append(float(r.randint(-2, 8)) if r.random() < 0.75 else r.randint(-8, 32) / 4.0)
            elif kd == 'flag':
                obs.append(float(r.randint(0, 1)) if r.random() < 0.75 else r.choice([0.25, 0.5, -1.0, 2.0]))
            else:
                obs.append(self._val('grid'))
        summ = [[self._kval(skind[j], mode) for j in range(k)] for _ in range(n)]
        params = [[self._kval(pkind[q], mode) for _ in range(n)] for q in range(p)]
        pn = r.choice([0.0, 0.0, 0.05, 0.12])
        nf = 0
        for i in range(n):          # non-finite values only where the column is a float column in every run
            for j in range(k):
                if skind[j] in ('real', 'real32') and r.random() < pn:
                    summ[i][j] = r.choice(['nan', 'inf', '-inf'])
                    nf += 1
        for q in range(p):
            for i in range(n):
                if pkind[q] in ('real', 'real32') and r.random() < pn:
                    params[q][i] = r.choice(['nan', 'inf', '-inf'])
                    nf += 1
        eq = 0
        compat = all((kd != 'count' or float(o).is_integer()) and (kd != 'flag' or o in (0.0, 1.0)) for kd, o in zip(skind, obs))
        if compat and r.random() < 0.4:
            for _ in range(r.randint(1, 2)):
                summ[r.randrange(n)] = list(obs)
                eq += 1
        runs = self._make_runs(skind, pkind, obs, r.choice([2, 2, 3]))
        self.bump('adj:store_stream')
        self.bump('adj:k=%d' % k)
        self.bump('adj:p=%d' % p)
        self.bump('adj:n=%s' % ('2-4' if n <= 4 else '5-9' if n <= 9 else '10-14'))
        self.bump('adj:nonfinite=%s' % ('0' if nf == 0 else '1-3' if nf <= 3 else '4+'))
        self.bump('adj:mode=' + mode)
        for kd in set(skind):
            self.bump('adj:summary_kind=' + kd)
        for kd in set(pkind):
            self.bump('adj:param_kind=' + kd)
        if any(kd in ('count', 'flag') and not float(o).is_integer() for kd, o in zip(skind, obs)):
            self.bump('adj:integer_summary_noninteger_observed')
        if eq:
            self.bump('adj:row_equals_observed')
        A = None
        while A is None:
            M = [[r.randint(-4, 4) / 2.0 for _ in range(k)] for _ in range(k)]
            if abs(np.linalg.det(np.array(M))) >= 0.5:
                A = M
        c = [r.randint(-8, 8) / 2.0 for _ in range(k)]
        case = dict(kind='adj', summ=summ, obs=obs, params=params, use_names=r.random() < 0.7, A=A, c=c, runs=runs)
        self._attach_cfgs(case, prob=0.3)
        return case

    def _gen_cfg(self, first=False):
        """keyword arguments for the adjustment object: any subset of scikit-learn's LinearRegression parameters, each
        either at its default (passed explicitly) or not; `first`: copy_X=False for sure (the one switch that allows the
        regression model to overwrite the matrix it is given)"""
        r = self.rng
        cfg = {}
        if first or r.random() < 0.5:
            cfg['copy_X'] = False if first else r.choice([False, False, True])
        if r.random() < 0.35:
            cfg['fit_intercept'] = r.choice([False, False, True])
        if r.random() < 0.3:
            cfg['positive'] = r.choice([True, True, False])
        if r.random() < 0.3:
            cfg['n_jobs'] = r.choice([None, 1, 2, -1])
        if not cfg:
            cfg[r.choice(['copy_X', 'fit_intercept'])] = False
        return cfg

    def _attach_cfgs(self, case, prob=1.0, first=False):
        """give the further runs of a case a configuration.  positive=True (non-negative least squares) only when the design
        [1 X] of every fitted parameter has full column rank (as for the affine clause: otherwise the slope is not unique and
        the oracle and scipy's NNLS may legitimately pick different ones)."""
        r = self.rng
        orc = self._oracle(case['summ'], case['obs'], case['params'])
        full = all(o['full'] for o in orc if o['nf'] > 0)
        n = len(case['summ'])
        allfin = all(o['nf'] == n for o in orc)
        for t, run in enumerate(case.get('runs', [])):
            if r.random() >= prob:
                self.bump('adj:cfg=none(default object)')
                continue
            cfg = self._gen_cfg(first=(first and t == 0))
            if cfg.get('positive') and not full:
                del cfg['positive']
                if not cfg:
                    cfg['copy_X'] = False
            run['cfg'] = cfg
            c = cfg_full(cfg)
            self.bump('adj:cfg_keys_passed=%d' % len(cfg))
            for key in CFG_KEYS:
                self.bump('adj:cfg_%s=%s%s' % (key, c[key], '' if key in cfg else '(default, not passed)'))
            self.bump('adj:cfg_problem=%s' % ('default' if default_problem(cfg) else
                                              ('no_intercept' if not c['fit_intercept'] else 'intercept') + ('+positive' if c['positive'] else '')))
            xdt = str(x_dtype(run['sdt'], run['odt']))
            self.bump('adj:cfg_copy_X=%s&%s&X_%s' % (c['copy_X'], 'all_rows_finite' if allfin else 'some_rows_nonfinite', xdt))

    def gen_adjust_cfg(self):
        """the configuration stream: a float64 sample, half of them without any non-finite entry, and 2-3 further runs
        each built with keyword arguments (run 0 always copy_X=False), listed / laid out at random"""
        r = self.rng
        case = self.gen_adjust(cfgstream=True)
        k, p = len(case['obs']), len(case['params'])
        case['runs'] = self._make_runs(['real'] * k, ['real'] * p, case['obs'], r.choice([2, 2, 2, 3]), native_first=False)
        if r.random() < 0.5:          # everything float64 (also the observed summaries), canonical listing for run 0
            for run in case['runs']:
                run['odt'] = ['f8'] * k
            case['runs'][0]['perm'] = list(range(k))
        self._attach_cfgs(case, first=True)
        self.bump('adj:cfg_stream')
        return case

    def gen_adjust_hist(self):
        """object-reuse histories: 2-3 samples for ONE model (same summaries / observed values) that differ in the number of
        rows, the number of parameters, every value and the non-finite entries.  One case per position t >= 2 of the history:
        its sample is sample t, and each of its 1-2 runs uses ONE adjustment object (default or configured) that has been
        fitted / adjusted on samples 1..t-1 before, every call through adjust_posterior or through fit() + adjust() by
        hand, so that every call of the history is compared with the model's result for ITS sample."""
        r = self.rng
        base = self.gen_adjust(cfgstream=True)
        k, obs = len(base['obs']), base['obs']
        hist = [base]
        for _ in range(r.choice([1, 1, 2])):
            other = self.gen_adjust(cfgstream=True)
            while len(other['obs']) != k:
                other = self.gen_adjust(cfgstream=True)
            other['obs'] = obs
            hist.append(other)
        cases = []
        for t in range(1, len(hist)):
            case = dict(hist[t])
            p = len(case['params'])
            case['runs'] = self._make_runs(['real'] * k, ['real'] * p, obs, r.choice([1, 2]), native_first=False)
            self._attach_cfgs(case, prob=0.5)
            for run in case['runs']:
                run['how'] = r.choice(['ap', 'fit'])
                run['pre'] = [dict(summ=h['summ'], params=h['params'], use_names=h['use_names'], how=r.choice(['ap', 'fit']))
                              for h in hist[:t]]
                self.bump('adj:hist_earlier_fits=%d' % t)
                self.bump('adj:hist_last_call=' + run['how'])
                for pre in run['pre']:
                    self.bump('adj:hist_earlier_call=' + pre['how'])
                pp = len(run['pre'][-1]['params'])
                self.bump('adj:hist_params_vs_previous=' + ('more' if p > pp else 'fewer' if p < pp else 'same'))
                self.bump('adj:hist_rows_vs_previous=' + ('same' if len(case['summ']) == len(run['pre'][-1]['summ']) else 'different'))
                self.bump('adj:hist_object=' + ('configured' if run.get('cfg') else 'default'))
            self.bump('adj:hist_stream')
            cases.append(case)
        return cases

    def gen_adjust(self, malformed=False, cross=False, cfgstream=False):
        r = self.rng
        k = r.randint(1, 3)
        p = r.randint(2, 3) if cross else r.randint(1, 3)
        n = r.randint(k + 4, 14) if cross else r.randint(k + 2, 14) if cfgstream else r.randint(2, 14)
        mode = r.choice(['grid', 'grid', 'float'])
        obs = [self._val('grid') for _ in range(k)]
        summ = [[self._val(mode) for _ in range(k)] for _ in range(n)]
        params = [[self._val(mode) for _ in range(n)] for _ in range(p)]
        pn = r.choice([0.0, 0.05, 0.12, 0.25])
        if cfgstream:
            pn = r.choice([0.0, 0.0, 0.0, 0.05, 0.12, 0.25])
        nf = 0
        for i in range(n):
            for j in range(k):
                if r.random() < pn:
                    summ[i][j] = r.choice(['nan', 'inf', '-inf'])
                    nf += 1
        for q in range(p):
            for i in range(n):
                if r.random() < pn:
                    params[q][i] = r.choice(['nan', 'inf', '-inf'])
                    nf += 1
        eq = 0
        if r.random() < 0.4:
            for _ in range(r.randint(1, 2)):
                i = r.randrange(n)
                summ[i] = list(obs)
                eq += 1
        if cross:
            # parameter A non-finite at row i, parameter B at row j != i; at both rows every summary and every
            # other parameter is finite: the row sets of A and B differ in both directions
            i, j = r.sample(range(n), 2)
            A, B = r.sample(range(p), 2)
            for row in (i, j):
                summ[row] = [x if not isinstance(x, str) else self._val(mode) for x in summ[row]]
                for q in range(p):
                    if isinstance(params[q][row], str):
                        params[q][row] = self._val(mode)
            params[A][i] = r.choice(['nan', 'inf', '-inf'])
            params[B][j] = r.choice(['nan', 'inf', '-inf'])
            # keep at least two further fully finite rows so that every parameter is adjusted
            rest = [x for x in range(n) if x not in (i, j)]
            for row in r.sample(rest, 2):
                summ[row] = [x if not isinstance(x, str) else self._val(mode) for x in summ[row]]
                for q in range(p):
                    if isinstance(params[q][row], str):
                        params[q][row] = self._val(mode)
            cr = cross_rows(summ, params)
            assert (A, B) in cr and (B, A) in cr
            self.bump('adj:cross_forced')
        if malformed:
            # one parameter (or every row) entirely non-finite: the regression has no sample
            if r.random() < 0.5:
                params[r.randrange(p)] = [r.choice(['nan', 'inf']) for _ in range(n)]
            else:
                for i in range(n):
                    summ[i][r.randrange(k)] = 'nan'
        self.bump('adj:k=%d' % k)
        self.bump('adj:p=%d' % p)
        self.bump('adj:n=%s' % ('2-4' if n <= 4 else '5-9' if n <= 9 else '10-14'))
        self.bump('adj:nonfinite=%s' % ('0' if nf == 0 else '1-3' if nf <= 3 else '4+'))
        self.bump('adj:mode=' + mode)
        if eq:
            self.bump('adj:row_equals_observed')
        if malformed:
            self.bump('adj:malformed')
        cr = cross_rows(summ, params)
        if any((b, a) in cr for a, b in cr):
            self.bump('adj:params_nonfinite_at_different_rows(both directions)')
        elif cr:
            self.bump('adj:params_nonfinite_at_different_rows(one direction)')
        A = None
        while A is None:
            M = [[r.randint(-4, 4) / 2.0 for _ in range(k)] for _ in range(k)]
            if abs(np.linalg.det(np.array(M))) >= 0.5:
                A = M
        c = [r.randint(-8, 8) / 2.0 for _ in range(k)]
        case = dict(kind='adj', summ=summ, obs=obs, params=params, use_names=r.random() < 0.7, A=A, c=c)
        if cfgstream:
            return case
        if r.random() < 0.3:
            # the same sample listed in another order / held in non-contiguous or read-only float64 arrays
            case['runs'] = self._make_runs(['real'] * k, ['real'] * p, obs, 1, native_first=False)
            self._attach_cfgs(case, prob=0.5)
        return case

    def _cmp_store(self, samples, pri):
        """storage of the inputs of compare_models: dtype / layout of every discrepancy array (integer dtypes only for
        integer-valued finite discrepancies, float32 only for binary32 values), type of n_sim, container / dtype of
        model_priors (integer containers only for integer weights)."""
        r = self.rng
        ddt = []
        for d, _ in samples:
            vals = [dec(x) for x in d]
            opts = ['f8', 'f8']
            if all(math.isfinite(v) and float(v).is_integer() for v in vals):
                opts += ['i8', 'i8', 'i4', 'i4']
            if all((not math.isfinite(v)) or f32(v) == v for v in vals):
                opts += ['f4']
            ddt.append(r.choice(opts))
        pst = None
        if pri is not None:
            opts = ['list', 'tuple', 'f8']
            if all(f32(w) == w for w in pri):
                opts += ['f4']
            pst = r.choice(opts)
            if all(float(w).is_integer() for w in pri) and r.random() < 0.7:
                pst = r.choice(['ilist', 'i8', 'i4'])
        st = dict(ddt=ddt, dlay=[r.choice(LAYOUTS) for _ in samples], nst=[r.choice(['int', 'int', 'i8', 'i4']) for _ in samples], pst=pst)
        for d in set(ddt):
            self.bump('cmp:disc_dtype=' + d)
        for l in set(st['dlay']):
            self.bump('cmp:disc_layout=' + l)
        for t in set(st['nst']):
            self.bump('cmp:n_sim_type=' + t)
        if pst is not None:
            self.bump('cmp:priors_container=' + pst)
        return st

    def gen_compare(self, malformed=False, nonfinite=False, zero=False):
        r = self.rng
        nm = r.randint(2, 4) if (nonfinite or zero) else r.randint(1, 4)
        style = r.choice(['ties', 'distinct', 'distinct', 'wide']) if nonfinite else r.choice(['ties', 'ties', 'distinct', 'wide'])
        samples = []
        pool = list(range(0, 60))
        r.shuffle(pool)
        for i in range(nm):
            ns = r.choice([0, 1, 2, 3, 3, 4, 5, 6]) if r.random() < 0.15 and not nonfinite else r.randint(1, 6)
            if style == 'ties':
                d = [r.randint(0, 4) for _ in range(ns)]
            elif style == 'distinct':
                d = [pool.pop() for _ in range(ns)]
            else:
                d = [r.randint(0, 12) / 2.0 for _ in range(ns)]
            if r.random() < 0.5:
                d = sorted(d)
            samples.append([d, r.choice([1, 2, 5, 10, 10, 20, 50, r.randint(1, 1000)])])
        if nonfinite:
            # a Sample that is NOT the last one holds inf / nan discrepancies (anywhere in its vector), and a LATER
            # model owns the strictly smallest discrepancy of all, hence one of the n_min smallest
            a = r.randrange(nm - 1)
            b = r.randint(a + 1, nm - 1)
            da = samples[a][0]
            for pos in r.sample(range(len(da)), r.randint(1, len(da))):
                da[pos] = r.choice(['inf', 'inf', 'nan', 'nan', '-inf'] if r.random() < 0.15 else ['inf', 'nan'])
            if not any(x in ('inf', 'nan') for x in da):
                da[r.randrange(len(da))] = r.choice(['inf', 'nan'])
            samples[b][0][r.randrange(len(samples[b][0]))] = -1.0
            for i in range(nm):   # sometimes further non-finite values elsewhere (also in the last sample)
                if i != a and r.random() < 0.25:
                    di = samples[i][0]
                    pos = r.randrange(len(di))
                    if di[pos] != -1.0:
                        di[pos] = r.choice(['inf', 'nan'])
            self.bump('cmp:nonfinite_in_nonlast_sample')
            kinds = {x for d, _ in samples for x in d if isinstance(x, str)}
            for kd in sorted(kinds):
                self.bump('cmp:nonfinite=' + kd)
        pri = None
        if r.random() < 0.6:
            pri = [r.choice([0, 1, 1, 2, 3, 4, 8]) / 8.0 for _ in range(nm)]
            if r.random() < 0.3:
                pri = pri + [0.5]
        if zero:
            # prior weights with an exact zero at a chosen position (every position is visited), the other weights
            # positive (sometimes further zeros); weights are eighths or plain integers (un-normalised weights)
            scale = r.choice([8.0, 8.0, 1.0])
            pri = [r.choice([1, 1, 2, 3, 4, 8]) / scale for _ in range(nm)]
            z = r.randrange(nm)
            pri[z] = 0.0
            for i in range(nm):
                if i != z and r.random() < 0.12:
                    pri[i] = 0.0
            self.bump('cmp:zero_prior_at=' + ('first' if z == 0 else 'last' if z == nm - 1 else 'middle'))
            self.bump('cmp:zero_priors=%d_of_%d' % (sum(1 for w in pri if w == 0), nm))
            self.bump('cmp:weights=' + ('integers' if scale == 1.0 else 'eighths'))
        if malformed:
            what = r.choice(['short_priors', 'no_samples'])
            if what == 'short_priors':
                pri = [0.5] * (nm - 1)
            else:
                samples, pri = [], None
            self.bump('cmp:malformed=' + what)
        self.bump('cmp:models=%d' % len(samples))
        self.bump('cmp:style=' + style)
        self.bump('cmp:priors=' + ('none' if pri is None else 'given'))
        perm = list(range(len(samples)))
        r.shuffle(perm)
        case = dict(kind='cmp', samples=samples, priors=pri, perm=perm)
        if zero or r.random() < 0.4:
            case['cst'] = self._cmp_store(samples, pri)
        return case

    def generate(self):
        na, nc, nma, nmc = (150, 220, 12, 16) if self.tier == 'quick' else (2200, 3000, 120, 160)
        nx, nnf = (60, 90) if self.tier == 'quick' else (800, 1200)
        nst, nz = (100, 100) if self.tier == 'quick' else (700, 1000)
        ncf = 60 if self.tier == 'quick' else 800
        nh = 40 if self.tier == 'quick' else 500
        for _ in range(na):
            yield self.gen_adjust()
        for _ in range(nx):
            yield self.gen_adjust(cross=True)
        for _ in range(nst):
            yield self.gen_adjust_store()
        for _ in range(ncf):
            yield self.gen_adjust_cfg()
        for _ in range(nh):
            for case in self.gen_adjust_hist():
                yield case
        for _ in range(nma):
            yield self.gen_adjust(malformed=True)
        for _ in range(nc):
            yield self.gen_compare()
        for _ in range(nnf):
            yield self.gen_compare(nonfinite=True)
        for _ in range(nz):
            yield self.gen_compare(zero=True)
        for _ in range(nmc):
            yield self.gen_compare(malformed=True)

    # ------------------------------------------------------------------------------------------
    def _run_adjust(self, summ, obs, params, use_names, spec='instance', run=None):
        """adjust_posterior on a real Sample and a real ElfiModel; returns dict(out, coef, icpt) or dict(error).
        `run` (default: canonical listing, float64 C-contiguous arrays) = dict(perm, sdt, odt, pdt, slay, play): the
        order in which the summaries are listed in `summary_names`, the storage dtype of every array of the Sample and
        of every observed summary, the memory layout of every array of the Sample.  coef is in the run's listing order."""
        import elfi
        from elfi.methods.post_processing import LinearAdjustment, adjust_posterior
        from elfi.methods.results import Sample
        n, k, npar = len(summ), len(obs), len(params)
        if run is None:
            run = dict(perm=list(range(k)), sdt=['f8'] * k, odt=['f8'] * k, pdt=['f8'] * npar, slay=['c'] * k, play=['c'] * npar)
        perm = [int(j) for j in run['perm']]
        assert sorted(perm) == list(range(k)), 'harness: listing is not a permutation'
        snames = ['S%d' % j for j in range(k)]
        pnames = ['t%d' % q for q in range(npar)]
        odt_of = {perm[pos]: run['odt'][pos] for pos in range(k)}
        m = elfi.ElfiModel()
        pr = elfi.Prior('uniform', 0, 1, model=m, name='pr')
        sim = elfi.Simulator(lambda t, batch_size=1, random_state=None: np.zeros((batch_size, k)), pr,
                             observed=np.array([[dec(x) for x in obs]], dtype=float), model=m, name='sim')
        for j in range(k):
            if odt_of[j] == 'f8':
                elfi.Summary((lambda y, j=j: y[:, j]), sim, model=m, name=snames[j])
            else:   # a summary function that returns another dtype (a count, a flag, single precision)
                elfi.Summary((lambda y, j=j, dt=NPDT[odt_of[j]]: y[:, j].astype(dt)), sim, model=m, name=snames[j])
        for j in range(k):
            ob = m[snames[j]].observed
            assert ob.dtype == NPDT[odt_of[j]] and ob.shape == (1,) and float(ob[0]) == dec(obs[j]), \
                'harness: observed summary %d is %r, wanted %r as %s' % (j, ob, obs[j], odt_of[j])
        outputs = {}
        for q, name in enumerate(pnames):
            outputs[name] = store(params[q], run['pdt'][q], run['play'][q])
        for pos, j in enumerate(perm):
            outputs[snames[j]] = store([row[j] for row in summ], run['sdt'][pos], run['slay'][pos])
        before = {name: (a.dtype.str, a.shape, a.tobytes()) for name, a in outputs.items()}
        obs_before = {nm: (m[nm].observed.dtype.str, m[nm].observed.tobytes()) for nm in snames}
        sample = Sample(method_name='Rejection', outputs=outputs, parameter_names=pnames)
        # keyword arguments of the adjustment object (documented as handed to the regression model): only the keys
        # the run names are passed, the others keep scikit-learn's defaults
        kw = {key: run['cfg'][key] for key in CFG_KEYS if key in (run.get('cfg') or {})}
        adj = LinearAdjustment(**kw) if spec == 'instance' else 'linear'
        # the regressors the object must hold: summaries - observed of the arrays handed in, computed here BEFORE the fit
        with np.errstate(all='ignore'):
            X0 = np.stack([outputs[snames[j]] for j in perm], axis=1) - np.stack([m[snames[j]].observed for j in perm], axis=1)
        d = {}
        # history (wave 3b): the SAME adjustment object is first fitted / adjusted on the earlier samples of the run (other
        # summaries, other thetas, other finite masks, possibly another number of rows and of parameters), each through
        # adjust_posterior or through fit() + adjust() by hand; then comes the case's own sample
        if spec == 'instance':
            for pre in run.get('pre', []):
                pn = ['t%d' % q for q in range(len(pre['params']))]
                po = {name: store(pre['params'][q]) for q, name in enumerate(pn)}
                po.update({snames[j]: store([row[j] for row in pre['summ']]) for j in range(k)})
                ps = Sample(method_name='Rejection', outputs=po, parameter_names=pn)
                try:
                    if pre.get('how') == 'fit':
                        adj.fit(ps, m, [snames[j] for j in perm], pn if pre.get('use_names') else None)
                        adj.adjust()
                    else:
                        adjust_posterior(ps, m, [snames[j] for j in perm], pn if pre.get('use_names') else None, adj)
                except Exception:
                    pass        # an earlier sample without usable rows: the object is simply used again
        try:
            if spec == 'instance' and run.get('how') == 'fit':
                adj.fit(sample, m, [snames[j] for j in perm], pnames if use_names else None)
                res = adj.adjust()
            else:
                res = adjust_posterior(sample, m, [snames[j] for j in perm], pnames if use_names else None, adj)
        except Exception as e:
            d['error'] = '%s: %s' % (type(e).__name__, str(e)[:200])
            res = None
        # the caller's arrays (the Sample that was passed in, the model's observed data) are not written to
        changed = [name for name, a in outputs.items() if (a.dtype.str, a.shape, a.tobytes()) != before[name]]
        changed += [name for name, a in sample.outputs.items() if name in outputs and a is not outputs[name]
                    and (a.dtype.str, a.shape, a.tobytes()) != before[name]]
        changed += ['observed ' + nm for nm in snames if (m[nm].observed.dtype.str, m[nm].observed.tobytes()) != obs_before[nm]]
        if changed:
            d['mutated'] = sorted(set(changed))
        if res is None:
            return d
        d['out'] = [[float(x) for x in np.asarray(res.outputs[name]).ravel()] for name in pnames]
        d['out_shape'] = [list(np.shape(res.outputs[name])) for name in pnames]
        if spec == 'instance':
            d['coef'] = [[float(x) for x in np.atleast_1d(rm.coef_).ravel()] for rm in adj.regression_models]
            d['icpt'] = [float(np.asarray(rm.intercept_).ravel()[0]) for rm in adj.regression_models]
            d['nmodels'] = len(adj.regression_models)
            # the object's own stored regressors (public attribute X) after fit + adjust ...
            Xa = np.asarray(adj.X)
            d['X'] = [[enc(v) for v in row] for row in Xa] if Xa.ndim == 2 else None
            d['x_changed'] = self._x_diff(X0, Xa)
            # ... a second adjust() on the same fitted object returns the same arrays and leaves X alone
            try:
                res2 = adj.adjust()
                diff = [name for name in pnames
                        if np.shape(res2.outputs[name]) != np.shape(res.outputs[name])
                        or not np.array_equal(np.asarray(res2.outputs[name], dtype=float), np.asarray(res.outputs[name], dtype=float), equal_nan=True)]
                if diff:
                    d['readjust'] = 'second adjust() differs for %s' % diff
            except Exception as e:
                d['readjust'] = 'second adjust() raised %s: %s' % (type(e).__name__, str(e)[:120])
            d['x_changed'] = d['x_changed'] or self._x_diff(X0, np.asarray(adj.X))
            # and still nothing handed in was written to
            late = [name for name, a in outputs.items() if (a.dtype.str, a.shape, a.tobytes()) != before[name]]
            if late:
                d['mutated'] = sorted(set(d.get('mutated', []) + late))
        return d

    @staticmethod
    def _x_diff(X0, Xa):
        """None when the object's X attribute is (value for value, nan = nan) the matrix summaries - observed computed
        before the fit, in the same dtype and shape; otherwise a description"""
        if Xa.shape != X0.shape or Xa.dtype != X0.dtype:
            return 'X attribute is %s %s, summaries - observed is %s %s' % (Xa.dtype, Xa.shape, X0.dtype, X0.shape)
        if not np.array_equal(Xa, X0, equal_nan=True):
            with np.errstate(all='ignore'):
                dv = np.abs(np.asarray(Xa, dtype=float) - np.asarray(X0, dtype=float))
            dv = dv[np.isfinite(dv)]
            return 'X attribute differs from summaries - observed (max abs difference %r)' % (float(dv.max()) if len(dv) else None)
        return None

    def _oracle_cfg(self, summ, obs, params, cfg):
        """oracle slope per parameter (canonical listing) for the regression problem of a configuration:
        fit_intercept=False -> least squares on the un-centred regressors (min-norm lstsq); positive=True -> the
        non-negative least-squares slope, found by enumerating the supports (k <= 3): the optimum is the least-squares
        solution on its support, so it is the feasible support solution with the smallest residual."""
        import itertools
        c = cfg_full(cfg)
        S = np.array([[dec(x) for x in row] for row in summ], dtype=float)
        o = np.array([dec(x) for x in obs], dtype=float)
        with np.errstate(all='ignore'):
            X = S - o
        k = X.shape[1]
        res = []
        for col in params:
            y = np.array([dec(x) for x in col], dtype=float)
            mask = np.isfinite(X).all(axis=1) & np.isfinite(y)
            A, t = X[mask], y[mask]
            if len(t) == 0:
                res.append([0.0] * k)
                continue
            if c['fit_intercept']:
                A, t = A - A.mean(axis=0), t - t.mean()
            if not c['positive']:
                b = np.linalg.lstsq(A, t, rcond=None)[0]
            else:
                best, b = None, np.zeros(k)
                for size in range(k + 1):
                    for P in itertools.combinations(range(k), size):
                        cand = np.zeros(k)
                        if P:
                            cand[list(P)] = np.linalg.lstsq(A[:, list(P)], t, rcond=None)[0]
                        if (cand < -1e-13).any():
                            continue
                        cand = np.maximum(cand, 0.0)
                        rss = float(np.sum((t - A.dot(cand)) ** 2))
                        if best is None or rss < best:
                            best, b = rss, cand
            res.append([float(x) for x in b])
        return res

    @staticmethod
    def _own_slopes(orc, dr, perm, ob):
        """Designs [1 X] without full numerical column rank have no unique least-squares slope: which exact solution LAPACK's
        gelsd returns depends on whether the computed noise singular value (a few ulp of the largest) falls below its cut-off,
        i.e. on rounding in the centring.  For such a parameter the model is fed with the run's OWN coefficients (canonical
        listing; they are validated by the `ok` clause fit_ok / normal_eq_ok) instead of numpy's pick.  None = nothing replaced."""
        if 'coef' not in dr or len(dr['coef']) != len(orc):
            return None
        res, rep = [], False
        for q, o in enumerate(orc):
            cf = dr['coef'][q]
            if o['nf'] > 0 and not o['full'] and len(cf) == len(perm) and all(math.isfinite(x) for x in cf):
                b = [0.0] * len(perm)
                for pos, j in enumerate(perm):
                    b[j] = cf[pos]
                res.append(b)
                rep = True
            else:
                res.append(list(ob[q]))
        return res if rep else None

    def _oracle(self, summ, obs, params):
        """independent recomputation: finite rows, centred lstsq slope, rank of [1 X]."""
        S = np.array([[dec(x) for x in row] for row in summ], dtype=float)
        o = np.array([dec(x) for x in obs], dtype=float)
        X = S - o
        res = []
        for col in params:
            y = np.array([dec(x) for x in col], dtype=float)
            mask = np.isfinite(X).all(axis=1) & np.isfinite(y)
            Xf, yf = X[mask], y[mask]
            if len(yf) == 0:
                res.append(dict(b=[0.0] * X.shape[1], full=False, nf=0, mask=mask.tolist()))
                continue
            Xc, yc = Xf - Xf.mean(axis=0), yf - yf.mean()
            b = np.linalg.lstsq(Xc, yc, rcond=None)[0]
            D = np.hstack([np.ones((len(yf), 1)), Xf])
            full = np.linalg.matrix_rank(D) == D.shape[1] and np.linalg.cond(D) < 1e6
            res.append(dict(b=[float(x) for x in b], full=bool(full), nf=int(mask.sum()), mask=mask.tolist()))
        return res

    @staticmethod
    def _cmp_arrays(samples, st=None):
        """the discrepancy arrays as they are handed to compare_models"""
        if st is None:
            return [np.array([dec(x) for x in d], dtype=float) for d, _ in samples]
        return [store(d, st['ddt'][i], st['dlay'][i]) for i, (d, _) in enumerate(samples)]

    def _run_compare(self, samples, priors, st=None):
        from elfi.methods.model_selection import compare_models
        from elfi.methods.results import Sample
        objs = []
        arrs = self._cmp_arrays(samples, st)
        before = [(a.dtype.str, a.tobytes()) for a in arrs]
        for i, (d, ns) in enumerate(samples):
            if st is not None and st['nst'][i] != 'int':
                ns = NPDT[st['nst'][i]](ns)
            objs.append(Sample(method_name='Rejection', outputs={'t': np.zeros(len(d)), 'd': arrs[i]},
                               parameter_names=['t'], discrepancy_name='d', n_sim=ns))
        pri = None if priors is None else list(priors)
        if st is not None and priors is not None:
            kind = st['pst']
            if kind == 'tuple':
                pri = tuple(priors)
            elif kind == 'ilist':
                pri = [int(w) for w in priors]
            elif kind in NPDT:
                pri = np.array(priors, dtype=np.float64).astype(NPDT[kind])
                pri.setflags(write=False)
            assert [float(w) for w in pri] == [float(w) for w in priors], 'harness: prior weights not exactly storable'
        pri_before = None if not isinstance(pri, np.ndarray) else pri.tobytes()
        try:
            p = compare_models(objs, pri)
        except Exception as e:
            return dict(p=None, error='%s: %s' % (type(e).__name__, str(e)[:200]))
        res = {}
        if [(a.dtype.str, a.tobytes()) for a in arrs] != before or (pri_before is not None and pri.tobytes() != pri_before):
            res['mutated'] = True
        p = [float(x) for x in np.asarray(p, dtype=float).ravel()]
        if any(not math.isfinite(x) for x in p):
            res.update(p=None, nan=True)
            return res
        res['p'] = p
        return res

    @staticmethod
    def _py_compare(samples, priors, order):
        from fractions import Fraction as Fr
        nmin = min(len(d) for d, _ in samples)
        top = order[:nmin]
        sc, up = [], 0
        for i, (d, ns) in enumerate(samples):
            cnt = sum(1 for j in top if up <= j < up + len(d))
            up += len(d)
            sc.append(Fr(cnt) / Fr(ns) * (Fr(priors[i]) if priors is not None else 1))
        tot = sum(sc)
        return None if tot == 0 else [s / tot for s in sc]

    @staticmethod
    def _reference(samples, priors):
        """the property's formula, position-free (valid when no tie straddles the cut): with t the n_min-th smallest
        of all discrepancies in the order -inf < finite < inf < nan, model i gets
        #(own discrepancies <= t) / n_sim_i * w_i, normalised.  Returns floats, or None when every score is 0."""
        from fractions import Fraction as Fr
        keys = sorted(dkey(x) for d, _ in samples for x in d)
        nmin = min(len(d) for d, _ in samples)
        sc = []
        for i, (d, ns) in enumerate(samples):
            cnt = 0 if nmin == 0 else sum(1 for x in d if dkey(x) <= keys[nmin - 1])
            sc.append(Fr(cnt) / Fr(ns) * (Fr(priors[i]) if priors is not None else 1))
        tot = sum(sc)
        return None if tot == 0 else [float(x / tot) for x in sc]

    def run_impl(self, case):
        if case['kind'] == 'adj':
            d = self._run_adjust(case['summ'], case['obs'], case['params'], case['use_names'])
            d['oracle'] = self._oracle(case['summ'], case['obs'], case['params'])
            own = self._own_slopes(d['oracle'], d, list(range(len(case['obs']))), [o['b'] for o in d['oracle']])
            if own is not None:
                for o, b in zip(d['oracle'], own):
                    o['b'] = b
            # second entry point: string specification
            d2 = self._run_adjust(case['summ'], case['obs'], case['params'], case['use_names'], spec='linear')
            # the same numeric sample, listed / stored otherwise
            d['runs'] = []
            for run in case.get('runs', []):
                dr = self._run_adjust(case['summ'], case['obs'], case['params'], case['use_names'], run=run)
                dflt = default_problem(run.get('cfg'))
                ob = [list(o['b']) for o in d['oracle']] if dflt else \
                    self._oracle_cfg(case['summ'], case['obs'], case['params'], run.get('cfg'))
                own = self._own_slopes(d['oracle'], dr, run['perm'], ob)
                dr['oracle_b'] = own if own is not None else ob
                dr['oracle_own'] = (own is not None) or not dflt      # printed as r_oracle; otherwise [] = the reference run's slope
                if default_problem(run.get('cfg')) and 'out' in dr and 'out' in d and len(dr['out']) == len(d['out']) and \
                        all(len(a) == len(b) for a, b in zip(dr['out'], d['out'])):
                    with np.errstate(all='ignore'):
                        dr['max_abs_diff_to_reference_run'] = max(
                            [float(np.max(np.abs(np.array(a) - np.array(b)))) for a, b in zip(dr['out'], d['out']) if len(a)] or [0.0])
                d['runs'].append(dr)
            d['same_by_string'] = (d2.get('out') == d.get('out')) or (
                'out' in d and 'out' in d2 and all(np.array_equal(a, b, equal_nan=True) for a, b in zip(d['out'], d2['out'])))
            # affine re-expression of simulated and observed summaries
            if 'out' in d:
                A = np.array(case['A'], dtype=float)
                c = np.array(case['c'], dtype=float)
                S = np.array([[dec(x) for x in row] for row in case['summ']], dtype=float)
                o = np.array([dec(x) for x in case['obs']], dtype=float)
                with np.errstate(all='ignore'):
                    S2 = S.dot(A) + c
                    # keep exactly the rows that were non-finite non-finite (inf*0, inf-inf give nan: still non-finite)
                    S2[~np.isfinite(S).all(axis=1)] = np.nan
                o2 = o.dot(A) + c
                d3 = self._run_adjust([[enc(x) for x in row] for row in S2], [enc(x) for x in o2], case['params'],
                                      case['use_names'])
                d['affine'] = d3.get('out', d3.get('error'))
            return d
        else:
            samples, priors = case['samples'], case['priors']
            cst = case.get('cst')
            d = self._run_compare(samples, priors, cst)
            allv = [dec(x) for dd, _ in samples for x in dd]
            # the concatenated array exactly as compare_models builds it (dtype decides numpy's sort kernel and with it
            # the order of ties; the order that is used is validated inside Coq anyway)
            conc = np.concatenate(self._cmp_arrays(samples, cst)) if samples else np.array([], dtype=float)
            order = [int(j) for j in np.argsort(conc)] if allv else []
            cands = [order]
            if allv:
                st = [int(j) for j in np.argsort(conc, kind='stable')]
                rv = sorted(range(len(allv)), key=lambda j: (dkey(allv[j]), -j))
                cands += [st, rv]
            well = len(samples) > 0 and (priors is None or len(priors) >= len(samples))
            if d['p'] is not None and well:
                for cand in cands:
                    q = self._py_compare(samples, priors, cand)
                    if q is not None and all(abs(float(a) - b) <= 1e-12 for a, b in zip(q, d['p'])):
                        order = cand
                        break
            d['order'] = order
            # permuted models
            if well and samples:
                perm = case['perm']
                ps = [samples[i] for i in perm]
                pp = None if priors is None else [priors[i] for i in perm] + list(priors[len(samples):])
                pst = None if cst is None else dict(ddt=[cst['ddt'][i] for i in perm], dlay=[cst['dlay'][i] for i in perm],
                                                    nst=[cst['nst'][i] for i in perm], pst=cst['pst'])
                d['perm_p'] = self._run_compare(ps, pp, pst)['p']
                s = sorted(dkey(x) for x in allv)
                nmin = min(len(dd) for dd, _ in samples)
                d['clean_cut'] = bool(nmin == len(s) or nmin == 0 or s[nmin - 1] < s[nmin])
                d['reference'] = self._reference(samples, priors) if d['clean_cut'] else None
            return d

    # ------------------------------------------------------------------------------------------
    PY_CAP = 3     # reported failures per python clause and run (each one writes a replay; a broken tree fails hundreds)

    def py_check(self, case, out):
        res = []
        for clause, msg in self._py_check(case, out):
            self._py_seen = getattr(self, '_py_seen', {})
            self._py_seen[clause] = self._py_seen.get(clause, 0) + 1
            if self._py_seen[clause] <= self.PY_CAP:
                res.append((clause, msg))
        return res

    def _py_check(self, case, out):
        fails = []
        if case['kind'] == 'adj':
            for tag, dr in [('reference run', out)] + [('run %d %s' % (t, json.dumps(case['runs'][t], sort_keys=True)), dr)
                                                       for t, dr in enumerate(out.get('runs', []))]:
                if dr.get('mutated'):
                    fails.append(('inputs_unmutated', '%s: adjust_posterior wrote to the arrays it was given: %s' % (tag, dr['mutated'])))
                if dr.get('x_changed'):
                    fails.append(('regressors_unmutated', "%s: the adjustment object's stored regressors are not the differences to the "
                                  'observed summaries after fit/adjust: %s' % (tag, dr['x_changed'])))
                if dr.get('readjust'):
                    fails.append(('adjust_repeatable', '%s: %s' % (tag, dr['readjust'])))
                for q, shp in enumerate(dr.get('out_shape', [])):
                    if len(shp) != 1:
                        fails.append(('adjusted_rows', '%s: adjusted parameter %d has shape %s, a 1-d array of the usable rows expected'
                                      % (tag, q, shp)))
            if not out.get('same_by_string', True):
                fails.append(('string_spec', "adjust_posterior(..., 'linear') differs from LinearAdjustment() instance"))
            if 'out' in out:
                # (a) per parameter: exactly the rows whose summaries and THIS parameter are finite, original order,
                #     value theta_i - (s_i - s_obs).coef_ -- every comparison below is guarded by a length test
                rows_ok = self._rows_check(case, out, fails)
                aff = out.get('affine')
                for q, orc in enumerate(out['oracle']):
                    if not orc['full'] or not rows_ok[q]:
                        continue
                    if not isinstance(aff, list) or len(aff) <= q:
                        fails.append(('affine_invariance', 'affine re-expressed run failed: %s' % (aff,)))
                        break
                    a, b = np.array(out['out'][q], dtype=float).ravel(), np.array(aff[q], dtype=float).ravel()
                    th = np.array([dec(x) for x, mk in zip(case['params'][q], orc['mask']) if mk], dtype=float)
                    if not (len(a) == len(b) == len(th)):
                        fails.append(('affine_invariance', 'parameter %d: %d values, %d after affine re-expression, %d rows expected'
                                      % (q, len(a), len(b), len(th))))
                        continue
                    scale = 1 + np.abs(a) + np.abs(th)
                    if len(a) and np.max(np.abs(a - b) / scale) > 1e-8:
                        fails.append(('affine_invariance', 'parameter %d: adjusted values change under invertible affine map of summaries, max rel diff %.3g'
                                      % (q, float(np.max(np.abs(a - b) / scale)))))
        else:
            nm = len(case['samples'])
            p = out.get('p')
            if out.get('mutated'):
                fails.append(('inputs_unmutated', 'compare_models wrote to the discrepancy / prior arrays it was given'))
            if p is not None and 'perm_p' in out:
                if len(p) != nm:
                    fails.append(('compare_length', 'compare_models returned %d probabilities for %d models' % (len(p), nm)))
                    return fails
                if abs(sum(p) - 1.0) > 1e-12:
                    fails.append(('sum_to_one', 'compare_models result %s sums to %r' % (p, sum(p))))
            if 'perm_p' in out and out.get('clean_cut'):
                # no tie straddles the cut: the result is determined by the values alone.  Non-finite discrepancies
                # are simply the largest values (numpy sort order: finite < inf < nan); `reference` is the
                # property's formula under that order
                ref = out.get('reference')
                if (ref is None) != (p is None):
                    fails.append(('compare_formula', 'compare_models = %s, the formula (share of the n_min jointly smallest '
                                  'discrepancies / n_sim x prior weight, normalised; inf/nan = largest values) gives %s' % (p, ref)))
                elif ref is not None and p is not None and any(abs(a - b) > 1e-12 for a, b in zip(ref, p)):
                    fails.append(('compare_formula', 'compare_models = %s, the formula (share of the n_min jointly smallest '
                                  'discrepancies / n_sim x prior weight, normalised; inf/nan = largest values) gives %s' % (p, ref)))
                if p is not None:
                    pp = out['perm_p']
                    want = [p[i] for i in case['perm']]
                    if pp is None or len(pp) != len(want) or any(abs(a - b) > 1e-12 for a, b in zip(pp, want)):
                        fails.append(('permutation', 'compare_models of permuted models %s = %s, expected %s' % (case['perm'], pp, want)))
        return fails

    def _rows_check(self, case, out, fails):
        """length-safe comparison of the adjusted arrays with the per-parameter expectation; returns per parameter
        whether the row count is the expected one (so that later element-wise comparisons are legal)."""
        S = np.array([[dec(x) for x in row] for row in case['summ']], dtype=float)
        o = np.array([dec(x) for x in case['obs']], dtype=float)
        with np.errstate(all='ignore'):
            X = S - o
        fin_s = np.isfinite(X).all(axis=1)
        npar = len(case['params'])
        res = [False] * npar
        outs = out.get('out')
        if not isinstance(outs, list) or len(outs) != npar:
            fails.append(('adjusted_rows', 'adjusted sample has %s parameter arrays, %d expected'
                          % (len(outs) if isinstance(outs, list) else outs, npar)))
            return res
        coefs = out.get('coef') or []
        for q in range(npar):
            th = np.array([dec(x) for x in case['params'][q]], dtype=float)
            mask = fin_s & np.isfinite(th)          # THIS parameter only, not the other parameters
            k = int(mask.sum())
            got = np.asarray(outs[q], dtype=float).ravel()
            if len(got) != k:
                other = [int((fin_s & np.isfinite(np.array([dec(x) for x in col], dtype=float))).sum()) for col in case['params']]
                fails.append(('adjusted_rows', 'parameter %d: expected the %d rows whose summaries and THIS parameter are finite, got %d rows '
                              '(finite-row counts per parameter: %s; rows with finite summaries: %d)'
                              % (q, k, len(got), other, int(fin_s.sum()))))
                continue
            res[q] = True
            if q < len(coefs) and len(coefs[q]) == X.shape[1] and all(math.isfinite(c) for c in coefs[q]):
                b = np.array(coefs[q], dtype=float)
                want = th[mask] - X[mask].dot(b)
                scale = 1 + np.abs(th[mask]) + np.abs(X[mask]).dot(np.abs(b))
                bad = np.nonzero(~(np.abs(got - want) <= 1e-12 * scale))[0]
                if len(bad):
                    r0 = int(np.nonzero(mask)[0][bad[0]])
                    fails.append(('adjusted_rows', 'parameter %d: value %d of the output is %r, but the %d-th usable row is row %d with '
                                  'theta - (s - s_obs).coef_ = %r' % (q, int(bad[0]), float(got[bad[0]]), int(bad[0]), r0, float(want[bad[0]]))))
        return res

    def nontrivial(self, case, out):
        if case['kind'] == 'adj':
            if 'out' not in out:
                return None
            orc = out['oracle']
            n = len(case['summ'])
            dropped = any(o['nf'] < n for o in orc)
            masks_differ = len({tuple(o['mask']) for o in orc}) > 1
            eqrow = any(all(dec(a) == dec(b) for a, b in zip(row, case['obs'])) for row in case['summ'])
            if not (any(o['full'] for o in orc) and (dropped or masks_differ or eqrow)):
                return None
        else:
            if out.get('p') is None or len(case['samples']) < 2:
                return None
            nonfin_early = any(isinstance(x, str) for d, _ in case['samples'][:-1] for x in d)
            if out.get('clean_cut') and len({ns for _, ns in case['samples']}) < 2 and case['priors'] is None and not nonfin_early:
                return None
        return json.dumps(case, sort_keys=True)

    def classify(self, case, out, clause):
        return None

    def to_coq(self, case, out):
        if case['kind'] == 'adj':
            rows = clist([clist([cfv(x) for x in row]) for row in case['summ']])
            obs = clist([cfv(x) for x in case['obs']])
            pars = clist([clist([cfv(x) for x in col]) for col in case['params']])
            orc = clist([cql(o['b']) for o in out['oracle']])

            def impl_terms(o):
                if 'out' in o:
                    if any(not math.isfinite(x) for l in o['out'] + o['coef'] for x in l) or \
                            any(not math.isfinite(x) for x in o['icpt']):
                        # a non-finite adjusted value or coefficient: cannot be a Q; encode as an impossible output
                        return '(Some [])', clist(['[]' for _ in o['coef']]), clist(['0' for _ in o['icpt']])
                    return '(Some %s)' % clist([cql(l) for l in o['out']]), clist([cql(l) for l in o['coef']]), cql(o['icpt'])
                return 'None', '[]', '[]'
            def x_term(o):
                return '(Some %s)' % cfmat(o['X']) if isinstance(o.get('X'), list) else 'None'
            impl, coef, icpt = impl_terms(out)
            runs = []
            for run, dr in zip(case.get('runs', []), out.get('runs', [])):
                ri, rc, r0 = impl_terms(dr)
                runs.append('{| r_perm := %s; r_sdt := %s; r_odt := %s; r_pdt := %s; r_coef := %s; r_icpt := %s; r_out := %s; '
                            'r_cfg := %s; r_oracle := %s; r_X := %s; r_prev := %s; r_nmodels := %s |}'
                            % (clist([cnat(j) for j in run['perm']]), clist([COQDT[x] for x in run['sdt']]),
                               clist([COQDT[x] for x in run['odt']]), clist([COQDT[x] for x in run['pdt']]), rc, r0, ri,
                               ccfg(run.get('cfg')),
                               clist([cql(b) for b in dr['oracle_b']]) if dr['oracle_own'] else '[]', x_term(dr),
                               cnat(len(run.get('pre', []))), cnat(dr.get('nmodels', 0))))
            return ('CAdj {| a_summ := %s; a_obs := %s; a_params := %s; a_oracle := %s; a_impl_coef := %s; '
                    'a_impl_icpt := %s; a_impl_out := %s; a_impl_X := %s; a_impl_nmodels := %s; a_runs := %s |}'
                    % (rows, obs, pars, orc, coef, icpt, impl, x_term(out), cnat(out.get('nmodels', 0)), clist(runs)))
        samples = clist(['(%s, %s)' % (cql(d), cq(ns)) for d, ns in surrogate(case['samples'])])
        pri = 'None' if case['priors'] is None else '(Some %s)' % cql(case['priors'])
        order = clist([cnat(j) for j in out['order']])
        impl = 'None' if out.get('p') is None else '(Some %s)' % cql(out['p'])
        return 'CCmp {| c_samples := %s; c_priors := %s; c_order := %s; c_impl := %s |}' % (samples, pri, order, impl)


if __name__ == '__main__':
    sys.exit(run_check(C17))
