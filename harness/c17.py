"""C17 — regression adjustment and model comparison: correspondence with coq/Num/Adjust.v.

adjust cases : real `adjust_posterior` (real `Sample`, real `ElfiModel` with observed Summary nodes, a
               `LinearAdjustment` instance so that coef_/intercept_ can be read back) vs the model
               fed with the numpy.linalg.lstsq slope (oracle) -> `agree`; the implementation's own
               coefficients must satisfy the normal equations and its output the formula -> `ok`;
               python side: affine re-expression of the summaries gives the same adjusted values
               (full-rank designs only, as in the theorem), 'linear' string spec = instance.
               A dedicated stream has >= 2 parameters that are non-finite at DIFFERENT rows (both directions);
               python side `adjusted_rows`: per parameter exactly the rows whose summaries and that parameter
               are finite (length-safe: a wrong length is a reported failure, never an exception).
compare cases: real `compare_models` on real `Sample` objects vs the model with the argsort order as a
               validated oracle; python side: permuting the models permutes the result when no tie
               straddles the cut; result = the property's formula and sums to one.  Non-finite discrepancies
               (inf / nan in a Sample that is not the last one) are simply the largest values (numpy sort
               order -inf < finite < inf < nan); for Coq they are embedded order-isomorphically into Q.
"""
import math
import numpy as np
from common import *

NONFIN = {'nan': float('nan'), 'inf': float('inf'), '-inf': float('-inf')}


def dec(x):
    """json value -> float ('nan' / 'inf' / '-inf' strings for non-finite)"""
    return NONFIN[x] if isinstance(x, str) else float(x)


def enc(x):
    x = float(x)
    if math.isnan(x):
        return 'nan'
    if math.isinf(x):
        return 'inf' if x > 0 else '-inf'
    return x


def cfv(x):
    x = dec(x)
    return 'None' if not math.isfinite(x) else '(Some %s)' % cq(x)


def cql(l):
    return clist([cq(x) for x in l])


def dkey(x):
    """reference order of discrepancies = numpy's sort order: -inf < finite < +inf < nan (all nan equal)"""
    x = dec(x)
    return (1, 0.0) if math.isnan(x) else (0, x)


def surrogate(samples):
    """order-isomorphic embedding of the discrepancies into Q for the Coq side (which has `list Q`):
    -inf -> (min finite) - 1, +inf -> (max finite) + 1, nan -> (max finite) + 2.  compare_models reads the
    values only through argsort, so only the order (and which values tie) matters."""
    fin = [dec(x) for d, _ in samples for x in d if math.isfinite(dec(x))]
    lo, hi = (min(fin), max(fin)) if fin else (0.0, 0.0)

    def f(x):
        x = dec(x)
        if math.isnan(x):
            return hi + 2
        if math.isinf(x):
            return hi + 1 if x > 0 else lo - 1
        return x
    return [[[f(x) for x in d], ns] for d, ns in samples]


def cross_rows(summ, params):
    """pairs (A, B) of parameters such that A is non-finite at a row where B and all summaries are finite"""
    res = set()
    for i, row in enumerate(summ):
        if not all(math.isfinite(dec(x)) for x in row):
            continue
        fin = [math.isfinite(dec(col[i])) for col in params]
        for a in range(len(params)):
            for b in range(len(params)):
                if not fin[a] and fin[b]:
                    res.add((a, b))
    return res


class C17(PropCheck):
    pid = 'C17'
    header = ('From Coq Require Import List ZArith QArith Bool.\nFrom Elfi Require Import Base.Harness Num.Adjust.\n'
              'Import ListNotations.\nLocal Open Scope Q_scope.\n')
    case_type = 'Adjust.case'
    preds = (('Adjust.agree', 'agree'), ('Adjust.ok', 'ok'))
    chunk = 60
    rule = ('adjust: samples of 2-14 rows, 1-3 summaries, 1-3 parameters, grid or full-mantissa values, injected nan/inf/-inf in '
            'summaries and parameters, rows equal to the observed summaries; non-trivial = at least one row dropped by the finite '
            'mask, masks differing between parameters or a row with s_i = s_obs, and a full-column-rank design for some parameter; '
            'a dedicated stream (every run) has 2-3 parameters where parameter A is nan/inf at a row at which parameter B and all '
            'summaries are finite and B is nan/inf at another such row (expected rows are computed per parameter). '
            'compare: 1-4 models, 0-6 samples each, integer discrepancies (ties), differing n_sim, prior weights or None; a dedicated '
            'stream (every run) puts inf/nan (rarely -inf) discrepancies into a Sample that is not the last one while a later model owns '
            'the smallest discrepancy; non-trivial = >=2 models with a tie straddling the cut, differing n_sim/weights or non-finite '
            'discrepancies in a non-last sample. Distinct by full input.')
    trusted = ('scikit-learn LinearRegression is an oracle: only "its (intercept_, coef_) solve the normal equations within 1e-9" is checked per case',
               'numpy.linalg.lstsq (centred data) as the oracle slope for the model side; numpy.argsort order is validated inside Coq (permutation + ascending)',
               'binary64 arithmetic is modelled exactly over Q: summaries - observed and the dot product are compared with tolerances (1e-12 formula, 1e-9 normal equations, 1e-8 oracle slope); generator keeps |values| <= 4 so nothing overflows',
               'the list/Q model (Num/Adjust.v) and the matrix model (Num/AdjustMx.v) describe the same formula theta - X.b; their identification is by inspection',
               'non-finite discrepancies: the reference semantics is that of the code as written (numpy.argsort: -inf < finite < +inf < nan, nans tie), i.e. inf/nan are simply the largest values; '
               'for the Coq side (discrepancies are Q) the harness embeds them order-isomorphically (-inf -> min-1, +inf -> max+1, nan -> max+2), which is sound because compare_models reads the values only through argsort; '
               'the python-side formula clause uses the extended order directly')

    # ------------------------------------------------------------------------------------------
    def _val(self, mode):
        r = self.rng
        if mode == 'grid':
            return r.randint(-16, 16) / 4.0
        return r.uniform(-4, 4)

    def gen_adjust(self, malformed=False, cross=False):
        r = self.rng
        k = r.randint(1, 3)
        p = r.randint(2, 3) if cross else r.randint(1, 3)
        n = r.randint(k + 4, 14) if cross else r.randint(2, 14)
        mode = r.choice(['grid', 'grid', 'float'])
        obs = [self._val('grid') for _ in range(k)]
        summ = [[self._val(mode) for _ in range(k)] for _ in range(n)]
        params = [[self._val(mode) for _ in range(n)] for _ in range(p)]
        pn = r.choice([0.0, 0.05, 0.12, 0.25])
        nf = 0
        for i in range(n):
            for j in range(k):
                if r.random() < pn:
                    summ[i][j] = r.choice(['nan', 'inf', '-inf'])
                    nf += 1
        for q in range(p):
            for i in range(n):
                if r.random() < pn:
                    params[q][i] = r.choice(['nan', 'inf', '-inf'])
                    nf += 1
        eq = 0
        if r.random() < 0.4:
            for _ in range(r.randint(1, 2)):
                i = r.randrange(n)
                summ[i] = list(obs)
                eq += 1
        if cross:
            # parameter A non-finite at row i, parameter B at row j != i; at both rows every summary and every
            # other parameter is finite: the row sets of A and B differ in both directions
            i, j = r.sample(range(n), 2)
            A, B = r.sample(range(p), 2)
            for row in (i, j):
                summ[row] = [x if not isinstance(x, str) else self._val(mode) for x in summ[row]]
                for q in range(p):
                    if isinstance(params[q][row], str):
                        params[q][row] = self._val(mode)
            params[A][i] = r.choice(['nan', 'inf', '-inf'])
            params[B][j] = r.choice(['nan', 'inf', '-inf'])
            # keep at least two further fully finite rows so that every parameter is adjusted
            rest = [x for x in range(n) if x not in (i, j)]
            for row in r.sample(rest, 2):
                summ[row] = [x if not isinstance(x, str) else self._val(mode) for x in summ[row]]
                for q in range(p):
                    if isinstance(params[q][row], str):
                        params[q][row] = self._val(mode)
            cr = cross_rows(summ, params)
            assert (A, B) in cr and (B, A) in cr
            self.bump('adj:cross_forced')
        if malformed:
            # one parameter (or every row) entirely non-finite: the regression has no sample
            if r.random() < 0.5:
                params[r.randrange(p)] = [r.choice(['nan', 'inf']) for _ in range(n)]
            else:
                for i in range(n):
                    summ[i][r.randrange(k)] = 'nan'
        self.bump('adj:k=%d' % k)
        self.bump('adj:p=%d' % p)
        self.bump('adj:n=%s' % ('2-4' if n <= 4 else '5-9' if n <= 9 else '10-14'))
        self.bump('adj:nonfinite=%s' % ('0' if nf == 0 else '1-3' if nf <= 3 else '4+'))
        self.bump('adj:mode=' + mode)
        if eq:
            self.bump('adj:row_equals_observed')
        if malformed:
            self.bump('adj:malformed')
        cr = cross_rows(summ, params)
        if any((b, a) in cr for a, b in cr):
            self.bump('adj:params_nonfinite_at_different_rows(both directions)')
        elif cr:
            self.bump('adj:params_nonfinite_at_different_rows(one direction)')
        A = None
        while A is None:
            M = [[r.randint(-4, 4) / 2.0 for _ in range(k)] for _ in range(k)]
            if abs(np.linalg.det(np.array(M))) >= 0.5:
                A = M
        c = [r.randint(-8, 8) / 2.0 for _ in range(k)]
        return dict(kind='adj', summ=summ, obs=obs, params=params, use_names=r.random() < 0.7, A=A, c=c)

    def gen_compare(self, malformed=False, nonfinite=False):
        r = self.rng
        nm = r.randint(2, 4) if nonfinite else r.randint(1, 4)
        style = r.choice(['ties', 'distinct', 'distinct', 'wide']) if nonfinite else r.choice(['ties', 'ties', 'distinct', 'wide'])
        samples = []
        pool = list(range(0, 60))
        r.shuffle(pool)
        for i in range(nm):
            ns = r.choice([0, 1, 2, 3, 3, 4, 5, 6]) if r.random() < 0.15 and not nonfinite else r.randint(1, 6)
            if style == 'ties':
                d = [r.randint(0, 4) for _ in range(ns)]
            elif style == 'distinct':
                d = [pool.pop() for _ in range(ns)]
            else:
                d = [r.randint(0, 12) / 2.0 for _ in range(ns)]
            if r.random() < 0.5:
                d = sorted(d)
            samples.append([d, r.choice([1, 2, 5, 10, 10, 20, 50, r.randint(1, 1000)])])
        if nonfinite:
            # a Sample that is NOT the last one holds inf / nan discrepancies (anywhere in its vector), and a LATER
            # model owns the strictly smallest discrepancy of all, hence one of the n_min smallest
            a = r.randrange(nm - 1)
            b = r.randint(a + 1, nm - 1)
            da = samples[a][0]
            for pos in r.sample(range(len(da)), r.randint(1, len(da))):
                da[pos] = r.choice(['inf', 'inf', 'nan', 'nan', '-inf'] if r.random() < 0.15 else ['inf', 'nan'])
            if not any(x in ('inf', 'nan') for x in da):
                da[r.randrange(len(da))] = r.choice(['inf', 'nan'])
            samples[b][0][r.randrange(len(samples[b][0]))] = -1.0
            for i in range(nm):   # sometimes further non-finite values elsewhere (also in the last sample)
                if i != a and r.random() < 0.25:
                    di = samples[i][0]
                    pos = r.randrange(len(di))
                    if di[pos] != -1.0:
                        di[pos] = r.choice(['inf', 'nan'])
            self.bump('cmp:nonfinite_in_nonlast_sample')
            kinds = {x for d, _ in samples for x in d if isinstance(x, str)}
            for kd in sorted(kinds):
                self.bump('cmp:nonfinite=' + kd)
        pri = None
        if r.random() < 0.6:
            pri = [r.choice([0, 1, 1, 2, 3, 4, 8]) / 8.0 for _ in range(nm)]
            if r.random() < 0.3:
                pri = pri + [0.5]
        if malformed:
            what = r.choice(['short_priors', 'no_samples'])
            if what == 'short_priors':
                pri = [0.5] * (nm - 1)
            else:
                samples, pri = [], None
            self.bump('cmp:malformed=' + what)
        self.bump('cmp:models=%d' % len(samples))
        self.bump('cmp:style=' + style)
        self.bump('cmp:priors=' + ('none' if pri is None else 'given'))
        perm = list(range(len(samples)))
        r.shuffle(perm)
        return dict(kind='cmp', samples=samples, priors=pri, perm=perm)

    def generate(self):
        na, nc, nma, nmc = (150, 220, 12, 16) if self.tier == 'quick' else (2200, 3000, 120, 160)
        nx, nnf = (60, 90) if self.tier == 'quick' else (800, 1200)
        for _ in range(na):
            yield self.gen_adjust()
        for _ in range(nx):
            yield self.gen_adjust(cross=True)
        for _ in range(nma):
            yield self.gen_adjust(malformed=True)
        for _ in range(nc):
            yield self.gen_compare()
        for _ in range(nnf):
            yield self.gen_compare(nonfinite=True)
        for _ in range(nmc):
            yield self.gen_compare(malformed=True)

    # ------------------------------------------------------------------------------------------
    def _run_adjust(self, summ, obs, params, use_names, spec='instance'):
        """adjust_posterior on a real Sample and a real ElfiModel; returns dict(out, coef, icpt) or dict(error)."""
        import elfi
        from elfi.methods.post_processing import LinearAdjustment, adjust_posterior
        from elfi.methods.results import Sample
        S = np.array([[dec(x) for x in row] for row in summ], dtype=float)
        n, k = S.shape
        snames = ['S%d' % j for j in range(k)]
        pnames = ['t%d' % q for q in range(len(params))]
        m = elfi.ElfiModel()
        pr = elfi.Prior('uniform', 0, 1, model=m, name='pr')
        sim = elfi.Simulator(lambda t, batch_size=1, random_state=None: np.zeros((batch_size, k)), pr,
                             observed=np.array([[dec(x) for x in obs]], dtype=float), model=m, name='sim')
        for j in range(k):
            elfi.Summary((lambda y, j=j: y[:, j]), sim, model=m, name=snames[j])
        outputs = {}
        for q, name in enumerate(pnames):
            outputs[name] = np.array([dec(x) for x in params[q]], dtype=float)
        for j, name in enumerate(snames):
            outputs[name] = S[:, j].copy()
        sample = Sample(method_name='Rejection', outputs=outputs, parameter_names=pnames)
        adj = LinearAdjustment() if spec == 'instance' else 'linear'
        try:
            res = adjust_posterior(sample, m, snames, pnames if use_names else None, adj)
        except Exception as e:
            return dict(error='%s: %s' % (type(e).__name__, str(e)[:200]))
        out = [[float(x) for x in res.outputs[name]] for name in pnames]
        d = dict(out=out)
        if spec == 'instance':
            d['coef'] = [[float(x) for x in np.atleast_1d(rm.coef_)] for rm in adj.regression_models]
            d['icpt'] = [float(rm.intercept_) for rm in adj.regression_models]
        return d

    def _oracle(self, summ, obs, params):
        """independent recomputation: finite rows, centred lstsq slope, rank of [1 X]."""
        S = np.array([[dec(x) for x in row] for row in summ], dtype=float)
        o = np.array([dec(x) for x in obs], dtype=float)
        X = S - o
        res = []
        for col in params:
            y = np.array([dec(x) for x in col], dtype=float)
            mask = np.isfinite(X).all(axis=1) & np.isfinite(y)
            Xf, yf = X[mask], y[mask]
            if len(yf) == 0:
                res.append(dict(b=[0.0] * X.shape[1], full=False, nf=0, mask=mask.tolist()))
                continue
            Xc, yc = Xf - Xf.mean(axis=0), yf - yf.mean()
            b = np.linalg.lstsq(Xc, yc, rcond=None)[0]
            D = np.hstack([np.ones((len(yf), 1)), Xf])
            full = np.linalg.matrix_rank(D) == D.shape[1] and np.linalg.cond(D) < 1e6
            res.append(dict(b=[float(x) for x in b], full=bool(full), nf=int(mask.sum()), mask=mask.tolist()))
        return res

    def _run_compare(self, samples, priors):
        from elfi.methods.model_selection import compare_models
        from elfi.methods.results import Sample
        objs = []
        for d, ns in samples:
            objs.append(Sample(method_name='Rejection', outputs={'t': np.zeros(len(d)), 'd': np.array([dec(x) for x in d], dtype=float)},
                               parameter_names=['t'], discrepancy_name='d', n_sim=ns))
        try:
            p = compare_models(objs, None if priors is None else list(priors))
        except Exception as e:
            return dict(p=None, error='%s: %s' % (type(e).__name__, str(e)[:200]))
        p = [float(x) for x in p]
        if any(not math.isfinite(x) for x in p):
            return dict(p=None, nan=True)
        return dict(p=p)

    @staticmethod
    def _py_compare(samples, priors, order):
        from fractions import Fraction as Fr
        nmin = min(len(d) for d, _ in samples)
        top = order[:nmin]
        sc, up = [], 0
        for i, (d, ns) in enumerate(samples):
            cnt = sum(1 for j in top if up <= j < up + len(d))
            up += len(d)
            sc.append(Fr(cnt) / Fr(ns) * (Fr(priors[i]) if priors is not None else 1))
        tot = sum(sc)
        return None if tot == 0 else [s / tot for s in sc]

    @staticmethod
    def _reference(samples, priors):
        """the property's formula, position-free (valid when no tie straddles the cut): with t the n_min-th smallest
        of all discrepancies in the order -inf < finite < inf < nan, model i gets
        #(own discrepancies <= t) / n_sim_i * w_i, normalised.  Returns floats, or None when every score is 0."""
        from fractions import Fraction as Fr
        keys = sorted(dkey(x) for d, _ in samples for x in d)
        nmin = min(len(d) for d, _ in samples)
        sc = []
        for i, (d, ns) in enumerate(samples):
            cnt = 0 if nmin == 0 else sum(1 for x in d if dkey(x) <= keys[nmin - 1])
            sc.append(Fr(cnt) / Fr(ns) * (Fr(priors[i]) if priors is not None else 1))
        tot = sum(sc)
        return None if tot == 0 else [float(x / tot) for x in sc]

    def run_impl(self, case):
        if case['kind'] == 'adj':
            d = self._run_adjust(case['summ'], case['obs'], case['params'], case['use_names'])
            d['oracle'] = self._oracle(case['summ'], case['obs'], case['params'])
            # second entry point: string specification
            d2 = self._run_adjust(case['summ'], case['obs'], case['params'], case['use_names'], spec='linear')
            d['same_by_string'] = (d2.get('out') == d.get('out')) or (
                'out' in d and 'out' in d2 and all(np.array_equal(a, b, equal_nan=True) for a, b in zip(d['out'], d2['out'])))
            # affine re-expression of simulated and observed summaries
            if 'out' in d:
                A = np.array(case['A'], dtype=float)
                c = np.array(case['c'], dtype=float)
                S = np.array([[dec(x) for x in row] for row in case['summ']], dtype=float)
                o = np.array([dec(x) for x in case['obs']], dtype=float)
                with np.errstate(all='ignore'):
                    S2 = S.dot(A) + c
                    # keep exactly the rows that were non-finite non-finite (inf*0, inf-inf give nan: still non-finite)
                    S2[~np.isfinite(S).all(axis=1)] = np.nan
                o2 = o.dot(A) + c
                d3 = self._run_adjust([[enc(x) for x in row] for row in S2], [enc(x) for x in o2], case['params'],
                                      case['use_names'])
                d['affine'] = d3.get('out', d3.get('error'))
            return d
        else:
            samples, priors = case['samples'], case['priors']
            d = self._run_compare(samples, priors)
            allv = [dec(x) for dd, _ in samples for x in dd]
            order = [int(j) for j in np.argsort(np.array(allv, dtype=float))] if allv else []
            cands = [order]
            if allv:
                st = [int(j) for j in np.argsort(np.array(allv, dtype=float), kind='stable')]
                rv = sorted(range(len(allv)), key=lambda j: (dkey(allv[j]), -j))
                cands += [st, rv]
            well = len(samples) > 0 and (priors is None or len(priors) >= len(samples))
            if d['p'] is not None and well:
                for cand in cands:
                    q = self._py_compare(samples, priors, cand)
                    if q is not None and all(abs(float(a) - b) <= 1e-12 for a, b in zip(q, d['p'])):
                        order = cand
                        break
            d['order'] = order
            # permuted models
            if well and samples:
                perm = case['perm']
                ps = [samples[i] for i in perm]
                pp = None if priors is None else [priors[i] for i in perm] + list(priors[len(samples):])
                d['perm_p'] = self._run_compare(ps, pp)['p']
                s = sorted(dkey(x) for x in allv)
                nmin = min(len(dd) for dd, _ in samples)
                d['clean_cut'] = bool(nmin == len(s) or nmin == 0 or s[nmin - 1] < s[nmin])
                d['reference'] = self._reference(samples, priors) if d['clean_cut'] else None
            return d

    # ------------------------------------------------------------------------------------------
    PY_CAP = 3     # reported failures per python clause and run (each one writes a replay; a broken tree fails hundreds)

    def py_check(self, case, out):
        res = []
        for clause, msg in self._py_check(case, out):
            self._py_seen = getattr(self, '_py_seen', {})
            self._py_seen[clause] = self._py_seen.get(clause, 0) + 1
            if self._py_seen[clause] <= self.PY_CAP:
                res.append((clause, msg))
        return res

    def _py_check(self, case, out):
        fails = []
        if case['kind'] == 'adj':
            if not out.get('same_by_string', True):
                fails.append(('string_spec', "adjust_posterior(..., 'linear') differs from LinearAdjustment() instance"))
            if 'out' in out:
                # (a) per parameter: exactly the rows whose summaries and THIS parameter are finite, original order,
                #     value theta_i - (s_i - s_obs).coef_ -- every comparison below is guarded by a length test
                rows_ok = self._rows_check(case, out, fails)
                aff = out.get('affine')
                for q, orc in enumerate(out['oracle']):
                    if not orc['full'] or not rows_ok[q]:
                        continue
                    if not isinstance(aff, list) or len(aff) <= q:
                        fails.append(('affine_invariance', 'affine re-expressed run failed: %s' % (aff,)))
                        break
                    a, b = np.array(out['out'][q], dtype=float).ravel(), np.array(aff[q], dtype=float).ravel()
                    th = np.array([dec(x) for x, mk in zip(case['params'][q], orc['mask']) if mk], dtype=float)
                    if not (len(a) == len(b) == len(th)):
                        fails.append(('affine_invariance', 'parameter %d: %d values, %d after affine re-expression, %d rows expected'
                                      % (q, len(a), len(b), len(th))))
                        continue
                    scale = 1 + np.abs(a) + np.abs(th)
                    if len(a) and np.max(np.abs(a - b) / scale) > 1e-8:
                        fails.append(('affine_invariance', 'parameter %d: adjusted values change under invertible affine map of summaries, max rel diff %.3g'
                                      % (q, float(np.max(np.abs(a - b) / scale)))))
        else:
            nm = len(case['samples'])
            p = out.get('p')
            if p is not None and 'perm_p' in out:
                if len(p) != nm:
                    fails.append(('compare_length', 'compare_models returned %d probabilities for %d models' % (len(p), nm)))
                    return fails
                if abs(sum(p) - 1.0) > 1e-12:
                    fails.append(('sum_to_one', 'compare_models result %s sums to %r' % (p, sum(p))))
            if 'perm_p' in out and out.get('clean_cut'):
                # no tie straddles the cut: the result is determined by the values alone.  Non-finite discrepancies
                # are simply the largest values (numpy sort order: finite < inf < nan); `reference` is the
                # property's formula under that order
                ref = out.get('reference')
                if (ref is None) != (p is None):
                    fails.append(('compare_formula', 'compare_models = %s, the formula (share of the n_min jointly smallest '
                                  'discrepancies / n_sim x prior weight, normalised; inf/nan = largest values) gives %s' % (p, ref)))
                elif ref is not None and p is not None and any(abs(a - b) > 1e-12 for a, b in zip(ref, p)):
                    fails.append(('compare_formula', 'compare_models = %s, the formula (share of the n_min jointly smallest '
                                  'discrepancies / n_sim x prior weight, normalised; inf/nan = largest values) gives %s' % (p, ref)))
                if p is not None:
                    pp = out['perm_p']
                    want = [p[i] for i in case['perm']]
                    if pp is None or len(pp) != len(want) or any(abs(a - b) > 1e-12 for a, b in zip(pp, want)):
                        fails.append(('permutation', 'compare_models of permuted models %s = %s, expected %s' % (case['perm'], pp, want)))
        return fails

    def _rows_check(self, case, out, fails):
        """length-safe comparison of the adjusted arrays with the per-parameter expectation; returns per parameter
        whether the row count is the expected one (so that later element-wise comparisons are legal)."""
        S = np.array([[dec(x) for x in row] for row in case['summ']], dtype=float)
        o = np.array([dec(x) for x in case['obs']], dtype=float)
        with np.errstate(all='ignore'):
            X = S - o
        fin_s = np.isfinite(X).all(axis=1)
        npar = len(case['params'])
        res = [False] * npar
        outs = out.get('out')
        if not isinstance(outs, list) or len(outs) != npar:
            fails.append(('adjusted_rows', 'adjusted sample has %s parameter arrays, %d expected'
                          % (len(outs) if isinstance(outs, list) else outs, npar)))
            return res
        coefs = out.get('coef') or []
        for q in range(npar):
            th = np.array([dec(x) for x in case['params'][q]], dtype=float)
            mask = fin_s & np.isfinite(th)          # THIS parameter only, not the other parameters
            k = int(mask.sum())
            got = np.asarray(outs[q], dtype=float).ravel()
            if len(got) != k:
                other = [int((fin_s & np.isfinite(np.array([dec(x) for x in col], dtype=float))).sum()) for col in case['params']]
                fails.append(('adjusted_rows', 'parameter %d: expected the %d rows whose summaries and THIS parameter are finite, got %d rows '
                              '(finite-row counts per parameter: %s; rows with finite summaries: %d)'
                              % (q, k, len(got), other, int(fin_s.sum()))))
                continue
            res[q] = True
            if q < len(coefs) and len(coefs[q]) == X.shape[1] and all(math.isfinite(c) for c in coefs[q]):
                b = np.array(coefs[q], dtype=float)
                want = th[mask] - X[mask].dot(b)
                scale = 1 + np.abs(th[mask]) + np.abs(X[mask]).dot(np.abs(b))
                bad = np.nonzero(~(np.abs(got - want) <= 1e-12 * scale))[0]
                if len(bad):
                    r0 = int(np.nonzero(mask)[0][bad[0]])
                    fails.append(('adjusted_rows', 'parameter %d: value %d of the output is %r, but the %d-th usable row is row %d with '
                                  'theta - (s - s_obs).coef_ = %r' % (q, int(bad[0]), float(got[bad[0]]), int(bad[0]), r0, float(want[bad[0]]))))
        return res

    def nontrivial(self, case, out):
        if case['kind'] == 'adj':
            if 'out' not in out:
                return None
            orc = out['oracle']
            n = len(case['summ'])
            dropped = any(o['nf'] < n for o in orc)
            masks_differ = len({tuple(o['mask']) for o in orc}) > 1
            eqrow = any(all(dec(a) == dec(b) for a, b in zip(row, case['obs'])) for row in case['summ'])
            if not (any(o['full'] for o in orc) and (dropped or masks_differ or eqrow)):
                return None
        else:
            if out.get('p') is None or len(case['samples']) < 2:
                return None
            nonfin_early = any(isinstance(x, str) for d, _ in case['samples'][:-1] for x in d)
            if out.get('clean_cut') and len({ns for _, ns in case['samples']}) < 2 and case['priors'] is None and not nonfin_early:
                return None
        return json.dumps(case, sort_keys=True)

    def classify(self, case, out, clause):
        return None

    def to_coq(self, case, out):
        if case['kind'] == 'adj':
            rows = clist([clist([cfv(x) for x in row]) for row in case['summ']])
            obs = clist([cfv(x) for x in case['obs']])
            pars = clist([clist([cfv(x) for x in col]) for col in case['params']])
            orc = clist([cql(o['b']) for o in out['oracle']])
            if 'out' in out:
                if any(not math.isfinite(x) for l in out['out'] + out['coef'] for x in l) or \
                        any(not math.isfinite(x) for x in out['icpt']):
                    # a non-finite adjusted value or coefficient: cannot be a Q; encode as an impossible output
                    impl = '(Some [])'
                    coef = clist(['[]' for _ in out['coef']])
                    icpt = clist(['0' for _ in out['icpt']])
                else:
                    impl = '(Some %s)' % clist([cql(l) for l in out['out']])
                    coef = clist([cql(l) for l in out['coef']])
                    icpt = cql(out['icpt'])
            else:
                impl, coef, icpt = 'None', '[]', '[]'
            return ('CAdj {| a_summ := %s; a_obs := %s; a_params := %s; a_oracle := %s; a_impl_coef := %s; '
                    'a_impl_icpt := %s; a_impl_out := %s |}' % (rows, obs, pars, orc, coef, icpt, impl))
        samples = clist(['(%s, %s)' % (cql(d), cq(ns)) for d, ns in surrogate(case['samples'])])
        pri = 'None' if case['priors'] is None else '(Some %s)' % cql(case['priors'])
        order = clist([cnat(j) for j in out['order']])
        impl = 'None' if out.get('p') is None else '(Some %s)' % cql(out['p'])
        return 'CCmp {| c_samples := %s; c_priors := %s; c_order := %s; c_impl := %s |}' % (samples, pri, order, impl)


if __name__ == '__main__':
    sys.exit(run_check(C17))
