"""C16 — result containers and MCMC diagnostics: correspondence with coq/Num/Results.v."""
import csv as _csv
import json as _json
import math
import os
import pickle
from fractions import Fraction

import numpy as np
from common import *

NAMES = ['mu', 'sigma', 'a', 'b', 't1', 't2', 'Z', 'alpha', 'x_0', 'k']

# absolute scales at which the convergence diagnostics are exercised on every run (tiny: within-chain variance far below
# 1e-8, the default absolute tolerance of np.isclose; huge: variance above 1e10)
SCALES = [1e-7, 1e-6, 1e-5, 1e-3, 1e3, 1e5, 1e6, 1e7]
DIAG_STYLES = ['ar', 'iid', 'shifted', 'trend', 'disagree']
A_MODERATE = [-3.0, -1.0, -0.5, 0.25, 2.0, 7.0, 0.125, -16.0]
B_UNITS = [0.0, 1.0, -2.5, 100.0, -37.25]
MAX_REPEAT = 2
REL_DIAG = 1e-6                               # RELATIVE tolerance of the python-side scale sweep (R-hat, ESS are dimensionless)


def _dy(r, den=16, top=2000):
    """a dyadic value k/den (exact in binary64)"""
    return r.randint(-top, top) / den


def _distinct(r, n, gen):
    seen, out = set(), []
    while len(out) < n:
        v = gen()
        if v not in seen:
            seen.add(v)
            out.append(v)
    return out


def _named_q(pairs):
    return clist(['(%s, %s)' % (cstr(k), cq(v)) for k, v in pairs])


def _rows_q(rows):
    return clist([clist([cq(v) for v in row]) for row in rows])


def _same(a, b):
    """bit-level equality of two float sequences (nan-free data)"""
    a = [float(x) for x in a]
    b = [float(x) for x in b]
    return len(a) == len(b) and all(x.hex() == y.hex() for x, y in zip(a, b))


class C16(PropCheck):
    pid = 'C16'
    header = ('From Coq Require Import String.\nFrom Coq Require Import ZArith QArith List.\n'
              'From Elfi Require Import Base.Harness Num.Results.\nImport ListNotations.\nOpen Scope string_scope.\n')
    case_type = 'Results.case'
    preds = (('Results.agree', 'agree'), ('Results.ok', 'ok'))
    chunk = 80
    rule = ('Sample/SmcSample/BslSample built from known arrays with pairwise distinct entries, 1-4 parameters whose order differs '
            'from the insertion order of outputs, extra non-parameter outputs, weights or none; BolfiSample from (1-4 chains, N, 1-4 '
            'params) arrays with warm-up 0..N+1; gelman_rubin_statistic / eff_sample_size on 1-4 chains (mixed, shifted, trending, '
            'strongly disagreeing; data at unit scale and multiplied by 1e-7..1e-3 / 1e3..1e7, every style x scale pair in every run) '
            'plus affine copies a x + b with moderate a and with |a| in {1e-7,1e-6,1e-5,1e-3,1e3,1e5,1e6,1e7} and permuted copies; '
            'python-side sweep of every case over all +-scales against the exact rational textbook values (relative 1e-6); '
            'histories on ONE Sample/SmcSample/BslSample object: constructed with or without weights, then 1-4 rounds of assignments to the '
            'public attributes (.weights rebound to an array / a list / None, written in place as a whole or in one entry, wrong-length and '
            'zero-sum vectors followed by repairs; .samples[name] rebound or written in place) each followed by ALL summaries (n_samples, '
            'samples_array, sample_means, sample_means_array, sample_means_and_95CIs, sample_quantiles at 5 levels), the first round with and '
            'without an assignment before the first summary call; every round is judged against the CURRENT samples and weights (Coq: run of the '
            'assignment list on the model object, then ok/agree; python: a Sample freshly constructed from the current values); real elfi.SMC '
            'runs (2-4 rounds, 1-2 parameters): every population in SmcSample.populations and the final SmcSample against its own stored '
            'samples and weights; '
            'non-trivial = sample with >=2 parameters listed in an order different from the outputs dict, or BOLFI sample '
            'with >=2 chains and 0<warmup<N, or diagnostics with >=2 chains whose ESS loop adds >=1 term, or a history in which unequal '
            'well-formed weights are assigned after construction, or an SMC population / result with unequal weights; distinct by input')
    trusted = ('numpy.fft autocovariance in eff_sample_size is compared with the direct lag sum of the model within 1e-6 (oracle)',
               'binary64 vs exact rationals: means within 1e-9 (exactly on dyadic inputs), R-hat^2 / ESS within 1e-6; quantile levels '
               'closer than 1e-9 to a cumulative-weight boundary are not queried unless the arithmetic is exact',
               'pickle/json/csv round trips are differential tests on the python side only (no theorem)',
               'histories: rebinding an attribute and writing into the stored array are the same transition of the model (the state is the value '
               'of .samples / .weights); the comparison with a freshly constructed Sample is python-side (quantiles and array entries bit-equal, '
               'means within 1e-12 relative), its Coq counterpart is theorem C16_history_fresh; the SMC runs use harness/rejmodels.py and the '
               'native client, runs that do not finish (singular covariance / all weights zero) are counted and skipped',
               'scale sweep of the diagnostics: exact Fraction re-implementation of the textbook R-hat^2 / ESS formulas in harness/c16.py '
               '(_exact_diag) is the reference for the copies s*(x+c); the Coq clauses ok/agree see the chains as given (unit, tiny and huge) '
               'and one affine copy per case; R-hat and ESS are dimensionless, so all tolerances on them are scale-free')

    # ------------------------------------------------------------------------------------------
    def generate(self):
        r = self.rng
        q = self.tier == 'quick'
        n_sample, n_bolfi, n_diag, n_bad = (260, 220, 240, 80) if q else (3200, 2600, 2400, 900)
        n_hist, n_smc = (160, 10) if q else (1600, 100)
        groups = [[self.gen_sample() for _ in range(n_sample)],
                  [self.gen_bolfi() for _ in range(n_bolfi)],
                  [self.gen_diag(j) for j in range(n_diag)],
                  [self.gen_malformed() for _ in range(n_bad)],
                  [self.gen_hist() for _ in range(n_hist)],
                  [c for _ in range(n_smc) for c in self.gen_smc()]]
        # the kinds are interleaved evenly (costly and cheap cases spread over the Coq case files); the order inside a kind is
        # kept, so the cases of one SMC run follow each other among the SMC cases and the run is executed once
        order = sorted((i / len(g), gi, i) for gi, g in enumerate(groups) for i in range(len(g)))
        for _, gi, i in order:
            yield groups[gi][i]

    def gen_sample(self, bad=None):
        r = self.rng
        k = r.randint(1, 4)
        n = r.choice([1, 2, 3, 4, 4, 5, 7, 8, 8, 11, 16, 40])
        names = r.sample(NAMES, k)
        extra = r.sample([x for x in NAMES if x not in names], r.randint(0, 2))
        keys = names + extra + ['d']
        r.shuffle(keys)                       # insertion order of outputs is unrelated to parameter order
        cls = r.choice(['Sample', 'Sample', 'SmcSample', 'BslSample'])
        burn = r.choice([0, 1, 2, n]) if cls == 'BslSample' else 0
        exact = r.random() < 0.45
        total = n + burn
        if exact:
            vals = _distinct(r, total * len(keys), lambda: _dy(r))
        else:
            vals = _distinct(r, total * len(keys), lambda: r.choice([r.gauss(0, 3), r.uniform(-1e3, 1e3), _dy(r), r.gauss(5, 1e-3)]))
        outputs = [[key, vals[i * total:(i + 1) * total]] for i, key in enumerate(keys)]
        wmode = 'none' if cls == 'BslSample' else r.choice(['none', 'pos', 'pos', 'zeros_some'])
        if cls == 'SmcSample' and wmode == 'none':
            wmode = 'pos'
        weights = None
        if wmode != 'none':
            if exact:
                # positive integers with a power-of-two sum: every float operation on them is exact
                tot = 1 << max(n - 1, 1).bit_length() + r.randint(0, 3)
                cuts = sorted(r.sample(range(1, tot), n - 1)) if n > 1 else []
                weights = [float(b - a) for a, b in zip([0] + cuts, cuts + [tot])]
            else:
                weights = [r.choice([r.random(), r.expovariate(1.0), float(r.randint(1, 9))]) for _ in range(n)]
            if wmode == 'zeros_some' and n > 2 and not exact:
                weights[r.randrange(n)] = 0.0
        if exact and weights is None and n & (n - 1):
            exact = False                     # division by n is exact only for powers of two
        alphas = [0.5, 0.025, 0.975, 0.0, 1.0, r.choice([0.25, 0.75, 0.125, 0.0625]), r.random()]
        self.bump('sample:' + cls)
        self.bump('sample:k=%d' % k)
        self.bump('sample:weights=' + wmode)
        self.bump('sample:exact=%s' % exact)
        return dict(kind='sample', cls=cls, names=names, outputs=outputs, burn=burn, weights=weights, exact=exact, alphas=alphas,
                    fmt=r.choice(['pkl', 'json', 'csv']))

    # -- histories of public-attribute assignments on one object ------------------------------------
    @staticmethod
    def _new_vals(r, count, exact, seen):
        out = []
        while len(out) < count:
            v = _dy(r) if exact else r.choice([r.gauss(0, 3), r.uniform(-1e3, 1e3), _dy(r), r.gauss(5, 1e-3)])
            if v not in seen:
                seen.add(v)
                out.append(v)
        return out

    @staticmethod
    def _gen_weights(r, n, exact, zeros=False):
        if exact:
            # positive integers with a power-of-two sum: every float operation on them is exact
            tot = 1 << max(n - 1, 1).bit_length() + r.randint(0, 3)
            cuts = sorted(r.sample(range(1, tot), n - 1)) if n > 1 else []
            return [float(b - a) for a, b in zip([0] + cuts, cuts + [tot])]
        w = [r.choice([r.random(), r.expovariate(1.0), float(r.randint(1, 9))]) for _ in range(n)]
        if zeros and n > 2:
            w[r.randrange(n)] = 0.0
        return w

    def gen_hist(self):
        """one result object, then 1-4 rounds of (assignments to .weights / .samples[name], all summaries).  The first
        round may have no assignment (summaries are called on the fresh object BEFORE anything is assigned) or assign
        straight away (what SMC._extract_population does: unweighted population, then sample.weights = w)."""
        r = self.rng
        k = r.randint(1, 4)
        n = 40 if r.random() < 0.05 else r.choice([2, 3, 4, 4, 5, 7, 8, 8, 11, 16, 16, 25])
        names = r.sample(NAMES, k)
        extra = r.sample([x for x in NAMES if x not in names], r.randint(0, 2))
        keys = names + extra + ['d']
        r.shuffle(keys)
        cls = r.choice(['Sample', 'Sample', 'Sample', 'SmcSample', 'BslSample'])
        burn = r.choice([0, 1, 2]) if cls == 'BslSample' else 0
        exact = r.random() < 0.45
        total = n + burn
        seen = set()
        outputs = [[key, self._new_vals(r, total, exact, seen)] for key in keys]
        w0 = 'none' if cls == 'BslSample' else 'given' if cls == 'SmcSample' else r.choice(['none', 'none', 'given'])
        weights = None if w0 == 'none' else self._gen_weights(r, n, exact, zeros=r.random() < 0.2)
        cur_w = weights
        cur_cols = dict((key, vals[burn:]) for key, vals in outputs)
        steps = []
        nsteps = r.choice([1, 2, 2, 3, 3, 4])
        for i in range(nsteps):
            nops = r.choice([0, 1, 1, 2]) if i == 0 and nsteps > 1 else r.choice([1, 1, 2])
            ops = []
            for _ in range(nops):
                kind = r.choice(['w_set'] * 5 + ['w_none', 'col_set', 'col_set', 'w_bad'])
                if kind == 'w_set':
                    hows = ['rebind', 'rebind', 'rebind_list']
                    if cur_w is not None and len(cur_w) == n:
                        hows += ['inplace', 'inplace', 'inplace_one']
                    how = r.choice(hows)
                    op = dict(op='weights', how=how)
                    if how == 'inplace_one':
                        new = list(cur_w)
                        j = r.randrange(n)
                        new[j] = r.choice([float(r.randint(1, 64)), 17.5 * r.random(), 0.0 if n > 2 and not exact else 3.0])
                        if new[j] == cur_w[j]:
                            new[j] += 1.0
                        op['index'] = j
                    else:
                        new = self._gen_weights(r, n, exact, zeros=r.random() < 0.2)
                    op['value'] = new
                    cur_w = new
                elif kind == 'w_none':
                    op = dict(op='weights', how='rebind', value=None)
                    cur_w = None
                elif kind == 'w_bad':
                    what = r.choice(['len', 'zero_sum'])
                    new = [1.0] * (n + 1) if what == 'len' else [1.0, -1.0] * (n // 2) + [0.0] * (n % 2)
                    op = dict(op='weights', how='rebind', value=new, bad=what)
                    cur_w = new
                else:
                    name = r.choice(names)
                    how = r.choice(['rebind', 'inplace', 'inplace_one'])
                    op = dict(op='col', how=how, name=name)
                    if how == 'inplace_one':
                        new = list(cur_cols[name])
                        j = r.randrange(n)
                        new[j] = self._new_vals(r, 1, exact, seen)[0]
                        op['index'] = j
                    else:
                        new = self._new_vals(r, n, exact, seen)
                    op['value'] = new
                    cur_cols[name] = new
                self.bump('hist:op=%s/%s' % (kind if kind != 'w_bad' else 'w_bad_' + op['bad'], op['how']))
                ops.append(op)
            alphas = [0.025, 0.975, r.choice([0.0, 1.0]), r.choice([0.5, 0.25, 0.75, 0.125, 0.0625]), r.random()]
            steps.append(dict(ops=ops, alphas=alphas))
        self.bump('hist:' + cls)
        self.bump('hist:initial_weights=' + w0)
        self.bump('hist:first_summary=%s' % ('before_any_assignment' if not steps[0]['ops'] else 'after_assignment'))
        self.bump('hist:rounds=%d' % nsteps)
        self.bump('hist:exact_data=%s' % exact)
        return dict(kind='hist', cls=cls, names=names, outputs=outputs, burn=burn, weights=weights, steps=steps,
                    fmt=r.choice(['pkl', 'json', 'csv']))

    def gen_smc(self):
        """one real SMC run on a small model; one case per population and one for the final SmcSample (the run is repeated
        from its seed when a single case is replayed)"""
        r = self.rng
        rounds = r.choice([2, 3, 3, 4])
        start = r.choice([8, 7, 6])
        thr = sorted((float(max(2, start - 2 * i + r.choice([0, 1]))) for i in range(rounds)), reverse=True)
        run = dict(two_params=r.random() < 0.6, width=r.choice([1, 2]), levels=r.choice([4, 6, 8]), n=r.choice([4, 6, 9, 12, 16, 25]),
                   b=r.choice([5, 10, 20, 50]), seed=r.randrange(2 ** 31), thresholds=thr, maxp=r.choice([1, 2, 3]))
        self.bump('smc:rounds=%d' % rounds)
        self.bump('smc:params=%d' % (2 if run['two_params'] else 1))
        alphas = [0.5, 0.025, 0.975, 0.0, 1.0, r.choice([0.25, 0.75, 0.125]), r.random()]
        return [dict(kind='smc', run=run, pop=i, alphas=alphas) for i in list(range(rounds)) + [-1]]

    def gen_bolfi(self):
        r = self.rng
        m = r.randint(1, 4)
        N = r.choice([1, 2, 3, 4, 5, 6, 8, 10])
        k = r.randint(1, 4)
        w = r.choice([0, 0, N - 1, N, N + 1] + list(range(N)) * 2)
        w = max(w, 0)
        names = r.sample(NAMES, k)
        vals = _distinct(r, m * N * k, lambda: r.choice([_dy(r), r.gauss(0, 2)]))
        chains = [[[vals[(c * N + i) * k + p] for p in range(k)] for i in range(N)] for c in range(m)]
        self.bump('bolfi:chains=%d' % m)
        self.bump('bolfi:warmup=%s' % ('0' if w == 0 else 'N-1' if w == N - 1 else '>=N' if w >= N else 'mid'))
        return dict(kind='bolfi', names=names, chains=chains, warmup=w, fmt=r.choice(['pkl', 'json', 'csv']))

    def gen_diag(self, j=None):
        """diagnostics case number j.  The absolute scale of the data is NOT left to chance: j mod 4 selects
        0: unit-scale chains, moderate a, b (the original stream);
        1: unit-scale chains, a = +-s;          2: chains multiplied by s, moderate a;
        3: chains multiplied by s, a = +-s'     (s, s' in SCALES),
        and j div 4 walks through DIAG_STYLES x SCALES, so every (style, scale) pair - in particular strongly disagreeing
        chains and mixed ones at 1e-7 .. 1e-5 and 1e5 .. 1e7 - occurs in each of the modes 1-3 in every run of >= 160 cases."""
        r = self.rng
        if j is None:
            j = r.randrange(1 << 20)
        mode, qi = j % 4, j // 4
        if mode == 0:
            style = r.choice(['ar', 'ar', 'iid', 'shifted', 'trend', 'disagree'])
        else:
            style = DIAG_STYLES[qi % len(DIAG_STYLES)]
        s_idx = (qi // len(DIAG_STYLES)) % len(SCALES)
        m = r.randint(2, 4) if style == 'disagree' else r.randint(1, 4)
        N = r.randint(4, 14)
        chains = []
        seen = set()
        offs = r.sample([-12, -7, -3, 2, 6, 11, 17], m) if style == 'disagree' else None
        for c in range(m):
            x = r.gauss(0, 1)
            ch = []
            off = r.choice([0, 0, 3, -5]) if style == 'shifted' else offs[c] if style == 'disagree' else 0
            for t in range(N):
                if style in ('ar', 'shifted'):
                    x = 0.8 * x + r.gauss(0, 0.6)
                elif style == 'trend':
                    x = x + 0.3 + r.gauss(0, 0.2)
                elif style == 'disagree':
                    x = 0.5 * x + r.gauss(0, 0.4)        # chains far apart compared with their spread: R-hat well above 1
                else:
                    x = r.gauss(0, 1)
                v = round((x + off) * 64) / 64
                while v in seen:
                    v += 1 / 64
                seen.add(v)
                ch.append(v)
            chains.append(ch)
        # wave 4: the LOCATION of the data is not left to chance either: three of every 16 cases sit 2^20 spreads away from the
        # origin (v + 2^20 is exact on the k/64 grid), as a parameter of order 1e6 known to a few units does; the textbook value
        # is computed exactly on these floats, a sum-of-squares variance loses eps * (mean / sd)^2 ~ 1e-4 of R-hat there
        loc = 2.0 ** 20 if (j % 16) in (2, 7, 13) else 0.0
        if loc:
            chains = [[v + loc for v in ch] for ch in chains]
            self.bump('diag:location=2^20')
        s0 = SCALES[s_idx] if mode in (2, 3) else 1.0
        if s0 != 1.0:
            chains = [[s0 * v for v in ch] for ch in chains]      # distinct k/64 stay distinct after one rounding
        if mode in (0, 2):
            a = r.choice(A_MODERATE)
        else:
            a = r.choice([-1.0, 1.0]) * (SCALES[s_idx] if mode == 1 else SCALES[(s_idx + 1 + qi) % len(SCALES)])
        b0 = r.choice(B_UNITS)
        # the shift is commensurate with the shifted data (a*s0*(v + b0)) so that a*x + b does not cancel in binary64;
        # the original stream keeps its independent b
        b = b0 if mode == 0 else a * s0 * b0
        perm = list(range(m))
        r.shuffle(perm)
        self.bump('diag:chains=%d' % m)
        self.bump('diag:style=' + style)
        self.bump('diag:data_scale=%g' % s0)
        self.bump('diag:|a|=%g' % abs(a) if abs(a) in SCALES else 'diag:|a|=moderate')
        if style == 'disagree' and (s0 != 1.0 or abs(a) in SCALES):
            self.bump('diag:disagree_at_scale')
        return dict(kind='diag', chains=chains, a=a, b=b, perm=perm, one_d=(m == 1 and r.random() < 0.5), style=style,
                    data_scale=s0, shift_units=b0)

    def gen_malformed(self):
        r = self.rng
        what = r.choice(['missing_name', 'ragged', 'zero_weights', 'weights_len', 'dup_names', 'bolfi_more_names', 'bolfi_fewer_names',
                         'bolfi_dup_names'])
        self.bump('malformed:' + what)
        if what.startswith('bolfi'):
            c = self.gen_bolfi()
            k = len(c['names'])
            if what == 'bolfi_more_names':
                c['names'] = c['names'] + [x for x in NAMES if x not in c['names']][:1]
            elif what == 'bolfi_fewer_names':
                c['names'] = c['names'][:max(1, k - 1)]
            else:
                c['names'] = c['names'] + [c['names'][0]] if k < 4 else [c['names'][0]] * k
                c['names'] = c['names'][:k]
                if k > 1:
                    c['names'][-1] = c['names'][0]
            c['malformed'] = what
            return c
        c = self.gen_sample()
        c['cls'] = 'Sample'
        c['burn'] = 0
        c['exact'] = False                    # the row count may have changed (burn-in dropped): compare means with tolerance
        n = len(c['outputs'][0][1])
        if what == 'missing_name':
            c['names'] = c['names'] + ['nope']
            r.shuffle(c['names'])
        elif what == 'ragged':
            if len(c['names']) > 1 and n > 1:
                for kv in c['outputs']:
                    if kv[0] == c['names'][-1]:
                        kv[1] = kv[1][:-1]
            c['weights'] = None
            c['exact'] = False
        elif what == 'zero_weights':
            c['weights'] = [1.0, -1.0] * (n // 2) + [0.0] * (n % 2)
            c['exact'] = False
        elif what == 'weights_len':
            c['weights'] = [1.0] * (n + 1)
            c['exact'] = False
        elif what == 'dup_names':
            c['names'] = c['names'] + [c['names'][0]]
        c['malformed'] = what
        return c

    # ------------------------------------------------------------------------------------------
    @staticmethod
    def _safe_alpha(col, weights, alpha, exact):
        """is the quantile level at least 1e-9 away from every cumulative-weight boundary?"""
        if alpha == 0:
            return True
        if not 0 < alpha <= 1:
            return False
        n = len(col)
        w = [Fraction(x) for x in weights] if weights is not None else [Fraction(1)] * n
        tot = sum(w)
        if tot <= 0 or any(x < 0 for x in w):
            return False
        if exact:
            return True
        order = sorted(range(n), key=lambda i: col[i])
        c = Fraction(0)
        for i in order[:-1]:
            c += w[i] / tot
            if abs(c - Fraction(alpha)) < Fraction(1, 10 ** 9):
                return False
        return True

    def _observe(self, s, case, out, alphas, cols, weights, exact):
        """the attributes of one constructed result object"""
        def attempt(f):
            try:
                return f()
            except Exception as e:
                out.setdefault('errors', []).append('%s: %s' % (type(e).__name__, str(e)[:80]))
                return None
        out['n_samples'] = attempt(lambda: int(s.n_samples))
        arr = attempt(lambda: s.samples_array)
        out['array'] = None if arr is None else [[float(v) for v in row] for row in arr]
        out['array_shape'] = None if arr is None else list(arr.shape)
        means = attempt(lambda: s.sample_means)
        out['means'] = None if means is None else [[k, float(v)] for k, v in means.items()]
        out['means_array'] = attempt(lambda: [float(v) for v in s.sample_means_array])
        out['dim'] = attempt(lambda: int(s.dim))
        out['sample_keys'] = list(s.samples.keys())
        out['quant'] = []
        okw = weights is None or len(weights) == (len(cols[0]) if cols else 0)
        for al in alphas:
            if not okw or not cols or any(len(c) == 0 for c in cols) or len({len(c) for c in cols}) != 1:
                continue
            if not all(self._safe_alpha(c, weights, al, exact and Fraction(al).denominator <= 1024) for c in cols):
                self.bump('quantile:level_skipped_near_boundary')
                continue
            qs = attempt(lambda: s.sample_quantiles(al))
            if qs is not None:
                out['quant'].append([al, [[k, float(v)] for k, v in qs.items()]])
        ci = attempt(lambda: s.sample_means_and_95CIs)
        out['ci'] = None if ci is None else [[k, [float(x) for x in v]] for k, v in ci.items()]

    def run_impl(self, case):
        kind = case['kind']
        if kind == 'diag':
            return self.run_diag(case)
        if kind == 'hist':
            return self.run_hist(case)
        if kind == 'smc':
            return self.run_smc(case)
        from elfi.methods.results import Sample, SmcSample, BolfiSample, BslSample
        out = dict(built=False)
        try:
            if kind == 'bolfi':
                ch = np.array(case['chains'], dtype=float)
                s = BolfiSample('BOLFI', ch, list(case['names']), case['warmup'], n_sim=np.int64(30), seed=3)
                out['chains_kept'] = bool(np.array_equal(s.chains, ch)) and s.chains is not ch
                out['meta'] = [int(s.n_chains), int(s.warmup)]
            else:
                outputs = {k: np.array(v, dtype=float) for k, v in case['outputs']}
                w = None if case['weights'] is None else np.array(case['weights'], dtype=float)
                names = list(case['names'])
                if case['cls'] == 'Sample':
                    s = Sample('Rejection', outputs, names, discrepancy_name='d', weights=w, n_sim=np.int64(100),
                               threshold=np.float64(0.37), seed=1)
                elif case['cls'] == 'SmcSample':
                    half = {k: v[: max(1, len(v) // 2)] for k, v in outputs.items()}
                    pops = [Sample('Rejection', half, names, discrepancy_name='d', weights=None, n_sim=7),
                            Sample('Rejection', outputs, names, discrepancy_name='d', weights=w, n_sim=11)]
                    s = SmcSample('SMC', outputs, names, populations=pops, discrepancy_name='d', weights=w, n_sim=18)
                else:
                    s = BslSample('BSL', outputs, names, burn_in=case['burn'], acc_rate=0.25)
            out['built'] = True
        except Exception as e:
            out['errors'] = ['%s: %s' % (type(e).__name__, str(e)[:80])]
            out.update(n_samples=None, array=None, means=None, quant=[])
            return out
        if kind == 'bolfi':
            cols = []
        else:
            b = case['burn']
            d = dict((k, v[b:]) for k, v in case['outputs'])
            cols = [d[n] for n in case['names'] if n in d]
        self._observe(s, case, out, case.get('alphas', []) if kind == 'sample' else [], cols,
                      case.get('weights'), case.get('exact', False))
        out['roundtrip'] = [] if case.get('malformed') in ('ragged',) else self._roundtrip(s, case)
        return out

    # -- histories ------------------------------------------------------------------------------------
    @staticmethod
    def _is_exact(cols, w):
        """is every binary64 operation of the summaries exact on these columns and weights?  (values k/16, and either no
        weights with a power-of-two row count or positive integer weights with a power-of-two sum)"""
        if not cols or not all(abs(v) <= 4096 and float(v * 16).is_integer() for c in cols for v in c):
            return False
        n = len(cols[0])
        if n == 0:
            return False
        if w is None:
            return n & (n - 1) == 0
        if len(w) != n or not all(float(x).is_integer() and 1 <= x <= 1 << 20 for x in w):
            return False
        tot = int(sum(w))
        return tot & (tot - 1) == 0

    @staticmethod
    def _apply_op(s, op):
        v, how = op['value'], op['how']
        if op['op'] == 'weights':
            if v is None:
                s.weights = None
            elif how == 'rebind':
                s.weights = np.array(v, dtype=float)
            elif how == 'rebind_list':
                s.weights = list(v)
            elif how == 'inplace':
                s.weights[:] = v
            else:
                s.weights[op['index']] = v[op['index']]
        else:
            if how == 'rebind':
                s.samples[op['name']] = np.array(v, dtype=float)
            elif how == 'inplace':
                s.samples[op['name']][:] = v
            else:
                s.samples[op['name']][op['index']] = v[op['index']]

    @staticmethod
    def _summaries(o, alphas):
        d = {}

        def att(key, f):
            try:
                d[key] = ('ok', f())
            except Exception as e:
                d[key] = ('err', type(e).__name__)
        att('sample_means', lambda: [[k, float(v)] for k, v in o.sample_means.items()])
        att('sample_means_array', lambda: [['', float(v)] for v in o.sample_means_array])
        att('sample_means_and_95CIs', lambda: [[k + '/%d' % i, float(x)] for k, v in o.sample_means_and_95CIs.items() for i, x in enumerate(v)])
        for al in alphas:
            att('sample_quantiles(%r)' % al, (lambda al: lambda: [[k, float(v)] for k, v in o.sample_quantiles(al).items()])(al))
        att('samples_array', lambda: [['%d,%d' % (i, j), float(v)] for i, row in enumerate(o.samples_array) for j, v in enumerate(row)])
        return d

    def _fresh_diffs(self, s, names, alphas, cols, w):
        """the summaries of the object under test next to those of a Sample constructed NOW from the harness's own record of
        the current columns and weights: selected values (quantiles, array entries) bit-equal, means within 1e-12 of the data scale"""
        from elfi.methods.results import Sample
        fresh = Sample('fresh', dict((nm, np.array(c, dtype=float)) for nm, c in zip(names, cols)), list(names),
                       weights=None if w is None else np.array(w, dtype=float))
        a, b = self._summaries(s, alphas), self._summaries(fresh, alphas)
        diffs = []
        scale = max([abs(v) for c in cols for v in c] + [0.0])      # means: 1e-12 relative to the size of the data
        for key in a:
            (sa, va), (sb, vb) = a[key], b[key]
            if sa != sb:
                diffs.append('%s: %s on the object, %s on a fresh Sample with the same samples and weights' % (key, va if sa == 'err' else 'a value', vb if sb == 'err' else 'a value'))
            elif sa == 'ok':
                if [k for k, _ in va] != [k for k, _ in vb]:
                    diffs.append('%s: keys %s, fresh Sample %s' % (key, [k for k, _ in va], [k for k, _ in vb]))
                    continue
                for (k, x), (_, y) in zip(va, vb):
                    is_mean = key in ('sample_means', 'sample_means_array') or (key == 'sample_means_and_95CIs' and k.endswith('/0'))
                    same = (x == y) or (x != x and y != y) or (is_mean and abs(x - y) <= 1e-12 * max(abs(x), abs(y), scale))
                    if not same:
                        diffs.append('%s[%s] = %r on the object, %r on a fresh Sample with the same samples and weights' % (key, k, x, y))
                        break
        return diffs

    def _observe_now(self, s, names, alphas, cols, w):
        exact = self._is_exact(cols, w)
        o = dict(exact=exact)
        self._observe(s, None, o, alphas, cols, w, exact)
        o['fresh'] = self._fresh_diffs(s, names, alphas, cols, w)
        # the public attributes read back what was assigned
        back = []
        try:
            if (s.weights is None) != (w is None) or (w is not None and not _same(s.weights, w)):
                back.append('weights')
            for nm, c in zip(names, cols):
                if not _same(s.samples[nm], c):
                    back.append('samples[%s]' % nm)
        except Exception as e:
            back.append('%s: %s' % (type(e).__name__, str(e)[:60]))
        o['readback'] = back
        return o

    def run_hist(self, case):
        from elfi.methods.results import Sample, SmcSample, BslSample
        outputs = {k: np.array(v, dtype=float) for k, v in case['outputs']}
        w = None if case['weights'] is None else np.array(case['weights'], dtype=float)
        names = list(case['names'])
        if case['cls'] == 'Sample':
            s = Sample('Rejection', outputs, names, discrepancy_name='d', weights=w, n_sim=np.int64(100), threshold=np.float64(0.37), seed=1)
        elif case['cls'] == 'SmcSample':
            half = {k: v[: max(1, len(v) // 2)] for k, v in outputs.items()}
            pops = [Sample('Rejection', half, names, discrepancy_name='d', weights=None, n_sim=7),
                    Sample('Rejection', outputs, names, discrepancy_name='d', weights=w, n_sim=11)]
            s = SmcSample('SMC', outputs, names, populations=pops, discrepancy_name='d', weights=w, n_sim=18)
        else:
            s = BslSample('BSL', outputs, names, burn_in=case['burn'], acc_rate=0.25)
        b = case['burn']
        cur = dict((k, list(v[b:])) for k, v in case['outputs'])
        cur_w = case['weights']
        out = dict(built=True, steps=[])
        for st in case['steps']:
            for op in st['ops']:
                self._apply_op(s, op)
                if op['op'] == 'weights':
                    cur_w = op['value']
                else:
                    cur[op['name']] = list(op['value'])
            out['steps'].append(self._observe_now(s, names, st['alphas'], [cur[nm] for nm in names], cur_w))
        out['roundtrip'] = self._roundtrip(s, case)
        return out

    def run_smc(self, case):
        """population case['pop'] (or the final SmcSample for -1) of a real elfi.SMC run: its summaries against ITS stored
        samples and weights"""
        run = case['run']
        key = _json.dumps(run, sort_keys=True)
        cache = self.__dict__.setdefault('_smc_cache', {})
        if cache.get('key') != key:
            cache.clear()
            cache['key'] = key
            try:
                import elfi
                import elfi.clients.native as native
                import rejmodels
                elfi.set_client(native.Client())
                m = rejmodels.build(dict(two_params=run['two_params'], width=run['width'], levels=run['levels'], inf_above=None))
                smc = elfi.SMC(m['d'], batch_size=run['b'], seed=run['seed'], max_parallel_batches=run['maxp'])
                cache['res'] = smc.sample(run['n'], thresholds=list(run['thresholds']), bar=False)
            except Exception as e:
                # a run that does not finish is outside the property (singular weighted covariance / all weights zero)
                if type(e).__name__ == 'LinAlgError' or 'All sample weights are zero' in str(e):
                    cache['res'] = None
                    self.bump('smc:run_did_not_finish:' + type(e).__name__)
                else:
                    cache.clear()
                    raise
        res = cache['res']
        if res is None:
            return dict(skipped=True)
        if len(res.populations) != len(run['thresholds']):
            raise RuntimeError('SMC returned %d populations for %d thresholds' % (len(res.populations), len(run['thresholds'])))
        p = res if case['pop'] < 0 else res.populations[case['pop']]
        names = list(p.parameter_names)
        cols = [[float(v) for v in np.asarray(p.samples[nm]).ravel()] for nm in names]
        w = None if p.weights is None else [float(x) for x in np.asarray(p.weights).ravel()]
        disc = [float(v) for v in np.asarray(p.discrepancies).ravel()]
        out = dict(built=True, names=names, outputs=[[nm, c] for nm, c in zip(names, cols)] + [['d', disc]], weights=w,
                   obj=type(p).__name__, threshold=float(p.threshold))
        out['steps'] = [self._observe_now(p, names, case['alphas'], cols, w)]
        self.bump('smc:observed=%s' % ('result' if case['pop'] < 0 else 'population_0' if case['pop'] == 0 else 'population>=1'))
        if w is not None and len(set(w)) > 1:
            self.bump('smc:observed_with_unequal_weights')
        return out

    def _roundtrip(self, s, case):
        """Sample.save to pkl / json / csv and read back; returns list of differences (python-side differential test)."""
        diffs = []
        base = 'c16_save'
        samples = [(k, [float(x) for x in v]) for k, v in s.samples.items()]
        for fmt in ('pkl', 'json', 'csv'):
            fn = '%s.%s' % (base, fmt)
            try:
                if os.path.exists(fn):
                    os.remove(fn)
                s.save(fn)
                if fmt == 'pkl':
                    t = pickle.load(open(fn, 'rb'))
                    got = [(k, [float(x) for x in v]) for k, v in t.samples.items()]
                    if type(t) is not type(s):
                        diffs.append('pkl: type %s' % type(t).__name__)
                    if list(t.parameter_names) != list(s.parameter_names):
                        diffs.append('pkl: parameter_names')
                    if (t.weights is None) != (s.weights is None) or (s.weights is not None and not _same(t.weights, s.weights)):
                        diffs.append('pkl: weights')
                    if sorted(t.meta.keys()) != sorted(s.meta.keys()):
                        diffs.append('pkl: meta keys')
                    if sorted(t.outputs.keys()) != sorted(s.outputs.keys()) or any(
                            not _same(t.outputs[k], s.outputs[k]) for k in s.outputs):
                        diffs.append('pkl: outputs')
                    if t.n_samples != s.n_samples:
                        diffs.append('pkl: n_samples')
                elif fmt == 'json':
                    t = _json.load(open(fn))
                    got = [(k, v if isinstance(v, list) else [v]) for k, v in t['samples'].items()]
                    if t['parameter_names'] != list(s.parameter_names):
                        diffs.append('json: parameter_names')
                    if t['n_samples'] != s.n_samples or t['dim'] != s.dim:
                        diffs.append('json: n_samples/dim')
                    if (t['weights'] is None) != (s.weights is None) or (s.weights is not None and not _same(t['weights'], s.weights)):
                        diffs.append('json: weights')
                    disc = s.discrepancies
                    if (t['discrepancies'] is None) != (disc is None) or (disc is not None and not _same(t['discrepancies'], disc)):
                        diffs.append('json: discrepancies')
                    if 'outputs' in t:
                        diffs.append('json: outputs key present')
                    if hasattr(s, 'populations') and 'populations' in s.__dict__:
                        pops = t.get('populations')
                        if pops is None or list(pops.keys()) != [chr(65 + i) for i in range(len(s.populations))]:
                            diffs.append('json: populations keys')
                        else:
                            for i, p in enumerate(s.populations):
                                tp = pops[chr(65 + i)]
                                for k, v in p.samples.items():
                                    if k not in tp['samples'] or not _same(tp['samples'][k], v):
                                        diffs.append('json: population %d samples[%s]' % (i, k))
                    if 'chains' in s.meta and not _same(np.array(t['chains']).ravel(), s.meta['chains'].ravel()):
                        diffs.append('json: chains')
                else:
                    rows = list(_csv.reader(open(fn, newline='')))
                    hdr, body = rows[0], rows[1:]
                    got = [(k, [float(row[j]) for row in body]) for j, k in enumerate(hdr)]
                if [k for k, _ in got] != [k for k, _ in samples]:
                    diffs.append('%s: sample keys/order %s != %s' % (fmt, [k for k, _ in got], [k for k, _ in samples]))
                else:
                    for (k, a), (_, b) in zip(got, samples):
                        if not _same(a, b):
                            diffs.append('%s: samples[%s] differ' % (fmt, k))
            except Exception as e:
                diffs.append('%s: %s: %s' % (fmt, type(e).__name__, str(e)[:100]))
        return diffs

    @staticmethod
    def _ref_terms(x):
        """independent float recomputation of the ESS loop terms (only used to gate near-zero break decisions)"""
        x = np.atleast_2d(np.array(x, dtype=float))
        m, n = x.shape
        mu = x.mean(1)
        v = x.var(1, ddof=1)
        B = 0 if m == 1 else n * np.var(mu, ddof=1)
        W = v.mean()
        vp = ((n - 1.) * W + B) / n
        d = x - mu[:, None]
        terms = []
        for lag in range(1, n):
            ac = np.array([np.dot(d[j, :n - lag], d[j, lag:]) / (n - lag) for j in range(m)])
            t = 1. - (W - ac.mean()) / vp
            terms.append(float(t))
            if t < 0:
                break
        return terms

    @staticmethod
    def _exact_diag(x):
        """textbook split R-hat^2 (BDA3 11.3-11.4) and ESS = m n / (1 + 2 sum rho_t) (variogram rho, direct-sum
        autocovariance, truncated at the first negative term) in exact rational arithmetic on the given binary64 values"""
        x = [[Fraction(float(v)) for v in ch] for ch in np.atleast_2d(np.array(x, dtype=float))]

        def mean(l):
            return sum(l, Fraction(0)) / len(l)

        def var1(l):
            mu = mean(l)
            return sum(((v - mu) ** 2 for v in l), Fraction(0)) / (len(l) - 1)

        n = len(x[0]) // 2
        halves = [h for ch in x for h in (ch[:n], ch[n:2 * n])]
        W = mean([var1(h) for h in halves])
        B = n * var1([mean(h) for h in halves])
        rhat2 = ((n - 1) * W + B) / n / W
        m, N = len(x), len(x[0])
        W = mean([var1(ch) for ch in x])
        B = Fraction(0) if m == 1 else N * var1([mean(ch) for ch in x])
        vp = ((N - 1) * W + B) / N
        d = [[v - mean(ch) for v in ch] for ch in x]
        acc = Fraction(0)
        for lag in range(1, N):
            ac = mean([sum((dj[t] * dj[t + lag] for t in range(N - lag)), Fraction(0)) / (N - lag) for dj in d])
            t = 1 - (W - ac) / vp
            if t < 0:
                break
            acc += t
        return rhat2, Fraction(m * N) / (1 + 2 * acc)

    def run_diag(self, case):
        from elfi.methods.mcmc import eff_sample_size, gelman_rubin_statistic
        x = np.array(case['chains'], dtype=float)
        xa = case['a'] * x + case['b']
        xp = x[case['perm'], :]
        arg = (lambda z: z[0]) if case['one_d'] else (lambda z: z)
        out = dict(rhat=float(gelman_rubin_statistic(arg(x))), ess=float(eff_sample_size(arg(x))),
                   rhat_aff=float(gelman_rubin_statistic(arg(xa))), ess_aff=float(eff_sample_size(arg(xa))),
                   rhat_perm=float(gelman_rubin_statistic(arg(xp))), ess_perm=float(eff_sample_size(arg(xp))))
        out['affine_exact'] = bool(all(Fraction(float(u)) == Fraction(case['a']) * Fraction(float(v)) + Fraction(case['b'])
                                       for u, v in zip(xa.ravel(), x.ravel())))
        terms = self._ref_terms(x)
        out['terms'] = terms
        out['near_break'] = bool(any(abs(t) < 1e-6 for t in terms))
        # scale sweep: the implementation on s*(x + c) for EVERY s in SCALES (c in data units), each answer next to the exact
        # textbook value on those very binary64 inputs; compared in py_check with a purely relative tolerance
        s0 = case.get('data_scale', 1.0)
        shift = s0 * case.get('shift_units', 0.0)
        r2, e = self._exact_diag(x)
        out['exact'] = [float(r2), float(e)]
        out['sweep'] = []
        for s in SCALES:
            for sg in (s, -s):
                xs = sg * (x + shift)
                r2s, es = self._exact_diag(xs)
                out['sweep'].append([sg, float(gelman_rubin_statistic(arg(xs))), float(eff_sample_size(arg(xs))), float(r2s), float(es),
                                     float(xs.var(1, ddof=1).mean())])
        return out

    # ------------------------------------------------------------------------------------------
    def py_check(self, case, out):
        fails = []
        if case['kind'] == 'diag':
            for k in ('rhat', 'ess', 'rhat_aff', 'ess_aff', 'rhat_perm', 'ess_perm'):
                if not math.isfinite(out[k]):
                    fails.append(('diag_finite', '%s = %r on chains with distinct entries' % (k, out[k])))
            fails.extend(self._sweep_check(case, out))
            return fails
        if not out.get('built'):
            return fails
        for d in out.get('roundtrip', []):
            fails.append(('save_roundtrip', d))
        if case['kind'] in ('hist', 'smc'):
            # every point of the history: the internal consistency clauses, the comparison with a freshly constructed Sample
            # holding the current samples and weights, and the attributes read back
            for i, o in enumerate(out['steps']):
                where = ('round %d of the history' % i) if case['kind'] == 'hist' else \
                    ('SMC %s' % ('result' if case['pop'] < 0 else 'population %d' % case['pop']))
                for clause, msg in self._consistency(o):
                    fails.append((clause, '%s: %s' % (where, msg)))
                for d in o['fresh'][:1]:
                    fails.append(('summary_of_current_state', '%s: %s' % (where, d)))
                for d in o['readback'][:1]:
                    fails.append(('attribute_readback', '%s: %s does not read back the assigned value' % (where, d)))
            # a summary that ignores an assignment fails on most histories: list every clause at most MAX_REPEAT times per run
            # (the driver writes one replay file per distinct message), count the rest in the histogram
            kept = []
            seen = self.__dict__.setdefault('_hist_reported', {})
            for clause, msg in fails:
                seen[(case['kind'], clause)] = seen.get((case['kind'], clause), 0) + 1
                if seen[(case['kind'], clause)] <= MAX_REPEAT:
                    kept.append((clause, msg))
                else:
                    self.bump('%s:repeat_failures_not_listed:%s' % (case['kind'], clause))
            return kept
        fails.extend(self._consistency(out))
        if case['kind'] == 'bolfi':
            if not out.get('chains_kept'):
                fails.append(('bolfi_chains', 'meta chains is not an equal copy of the input'))
            if out.get('meta') != [len(case['chains']), case['warmup']]:
                fails.append(('bolfi_meta', 'n_chains/warmup meta %s' % out.get('meta')))
        return fails

    @staticmethod
    def _consistency(out):
        fails = []
        # sample_means_array and sample_means_and_95CIs repeat sample_means / sample_quantiles
        if out['means'] is not None:
            if out['means_array'] is None or not _same(out['means_array'], [v for _, v in out['means']]):
                fails.append(('means_array', 'sample_means_array differs from sample_means values'))
            if out['ci'] is not None and ([k for k, _ in out['ci']] != [k for k, _ in out['means']]
                                          or not _same([v[0] for _, v in out['ci']], [v for _, v in out['means']])):
                fails.append(('ci_means', 'sample_means_and_95CIs means differ from sample_means'))
        if out.get('ci') is not None:
            for al, idx in ((0.025, 1), (0.975, 2)):
                for a2, qs in out['quant']:
                    if a2 == al and not _same([v[idx] for _, v in out['ci']], [v for _, v in qs]):
                        fails.append(('ci_quantiles', '95CI bound differs from sample_quantiles(%s)' % al))
        if out['array'] is not None and out['dim'] is not None and out['array_shape'] != [out['n_samples'], len(out['sample_keys'])]:
            fails.append(('array_shape', 'samples_array shape %s, n_samples %s, keys %s' % (out['array_shape'], out['n_samples'], out['sample_keys'])))
        return fails

    def _sweep_check(self, case, out):
        """R-hat and ESS are dimensionless: on s*(x + c) they must equal (relative REL_DIAG) the implementation's own answer
        on x AND the exact textbook value at that scale, for every s in +-SCALES; the same two comparisons for the chains as
        given (which are themselves tiny / huge in modes 2, 3) and for the case's a*x + b copy."""
        fails = []

        def rel(u, v):
            return math.isfinite(u) and math.isfinite(v) and abs(u - v) <= REL_DIAG * abs(v)

        ess_ok = not out['near_break']          # a variogram term within 1e-6 of 0: the truncation point is not stable in binary64
        r2, e = out['exact']
        if not rel(out['rhat'] ** 2, r2):
            fails.append(('diag_formula_rhat', 'data scale %g: R-hat^2 = %r, textbook %r' % (case.get('data_scale', 1.0), out['rhat'] ** 2, r2)))
        if ess_ok and not rel(out['ess'], e):
            fails.append(('diag_formula_ess', 'data scale %g: ESS = %r, formula %r' % (case.get('data_scale', 1.0), out['ess'], e)))
        if not rel(out['rhat_aff'], out['rhat']):
            fails.append(('diag_affine_rhat', 'a = %r, b = %r: R-hat(a x + b) = %r, R-hat(x) = %r' % (case['a'], case['b'], out['rhat_aff'], out['rhat'])))
        if ess_ok and not rel(out['ess_aff'], out['ess']):
            fails.append(('diag_affine_ess', 'a = %r, b = %r: ESS(a x + b) = %r, ESS(x) = %r' % (case['a'], case['b'], out['ess_aff'], out['ess'])))
        for sg, rh, es, r2s, es_x, w in out['sweep']:
            self.bump('diag:sweep_W<1e-8' if w < 1e-8 else 'diag:sweep_W>1e8' if w > 1e8 else 'diag:sweep_W_mid')
            if not rel(rh, out['rhat']):
                fails.append(('diag_scale_affine_rhat', 's = %g (W = %.3g): R-hat(s(x+c)) = %r, R-hat(x) = %r' % (sg, w, rh, out['rhat'])))
            if not rel(rh ** 2, r2s):
                fails.append(('diag_scale_formula_rhat', 's = %g (W = %.3g): R-hat^2 = %r, textbook %r' % (sg, w, rh ** 2, r2s)))
            if ess_ok and not rel(es, out['ess']):
                fails.append(('diag_scale_affine_ess', 's = %g (W = %.3g): ESS(s(x+c)) = %r, ESS(x) = %r' % (sg, w, es, out['ess'])))
            if ess_ok and not rel(es, es_x):
                fails.append(('diag_scale_formula_ess', 's = %g (W = %.3g): ESS = %r, formula %r' % (sg, w, es, es_x)))
        # one broken scale fails on hundreds of cases: report every clause at most MAX_REPEAT times per run (the driver writes
        # one replay file per distinct message), count the rest in the histogram
        kept = []
        seen = self.__dict__.setdefault('_sweep_reported', {})
        for clause, msg in fails:
            seen[clause] = seen.get(clause, 0) + 1
            if seen[clause] <= MAX_REPEAT:
                kept.append((clause, msg))
            else:
                self.bump('diag:repeat_failures_not_listed:' + clause)
        return kept

    def nontrivial(self, case, out):
        if case.get('malformed'):
            return None
        if case['kind'] == 'sample':
            order = [k for k, _ in case['outputs'] if k in case['names']]
            if len(case['names']) >= 2 and order != case['names'] and out.get('array') is not None:
                return _json.dumps(['s', case['names'], case['outputs'], case['weights'], case['burn']])
        elif case['kind'] == 'hist':
            # some assignment after construction puts unequal, well-formed weights on the object
            n = len(case['outputs'][0][1]) - case['burn']
            if any(op['op'] == 'weights' and op['value'] is not None and len(op['value']) == n and len(set(op['value'])) > 1
                   and min(op['value']) >= 0 for st in case['steps'] for op in st['ops']):
                return _json.dumps(['h', case['names'], case['outputs'], case['weights'], case['burn'], case['steps']])
        elif case['kind'] == 'smc':
            if out.get('built') and out['weights'] is not None and len(set(out['weights'])) > 1:
                return _json.dumps(['smc', case['run'], case['pop']])
        elif case['kind'] == 'bolfi':
            N = len(case['chains'][0])
            if len(case['chains']) >= 2 and 0 < case['warmup'] < N:
                return _json.dumps(['b', case['names'], case['chains'], case['warmup']])
        else:
            if len(case['chains']) >= 2 and len([t for t in out['terms'] if t >= 0]) >= 1 and not out['near_break']:
                return _json.dumps(['d', case['chains'], case['a'], case['b'], case['perm']])
        return None

    def to_coq(self, case, out):
        if case['kind'] == 'diag':
            if out['near_break'] or not all(math.isfinite(out[k]) for k in ('rhat', 'ess', 'rhat_aff', 'ess_aff', 'rhat_perm', 'ess_perm')):
                self.bump('diag:skipped_near_break_or_nonfinite')
                return None
            return ('CDiag %s %s %s %s %s %s %s %s %s %s'
                    % (_rows_q(case['chains']), cq(out['rhat']), cq(out['ess']), cq(case['a']), cq(case['b']),
                       cq(out['rhat_aff']), cq(out['ess_aff']), clist([cnat(i) for i in case['perm']]),
                       cq(out['rhat_perm']), cq(out['ess_perm'])))
        if case['kind'] in ('hist', 'smc'):
            return self._hist_to_coq(case, out)
        arr = None if out['array'] is None else _rows_q(out['array'])
        if out['means'] is not None and not all(math.isfinite(v) for _, v in out['means']):
            if out['n_samples'] != 0:
                return None
            out = dict(out, means=None)       # mean of zero rows is nan: not compared (model and ok skip it when n_samples = 0)
        means = None if out['means'] is None else _named_q(out['means'])
        opt = lambda x: 'None' if x is None else '(Some %s)' % x
        if case['kind'] == 'bolfi':
            k = len(case['chains'][0][0])
            chains = clist([_rows_q(ch) for ch in case['chains']])
            return ('CBolfi %s %s %s %s %s %s %s'
                    % (clist([cstr(n) for n in case['names']]), cnat(k), chains, cnat(case['warmup']),
                       copt(out['n_samples'], cnat), opt(arr), opt(means)))
        outputs = clist(['(%s, %s)' % (cstr(k), clist([cq(v) for v in vs])) for k, vs in case['outputs']])
        w = 'None' if case['weights'] is None else '(Some %s)' % clist([cq(v) for v in case['weights']])
        quant = clist(['(%s, %s)' % (cq(al), _named_q(qs)) for al, qs in out['quant']])
        return ('CSample %s %s %s %s %s %s %s %s %s'
                % (clist([cstr(n) for n in case['names']]), outputs, cnat(case['burn']), w, cbool(case['exact']),
                   copt(out['n_samples'], cnat), opt(arr), opt(means), quant))

    def _hist_to_coq(self, case, out):
        if not out.get('built'):
            return None
        opt = lambda x: 'None' if x is None else '(Some %s)' % x
        wq = lambda w: 'None' if w is None else '(Some %s)' % clist([cq(v) for v in w])
        steps = []
        ops_of = [st['ops'] for st in case['steps']] if case['kind'] == 'hist' else [[]]
        for ops, o in zip(ops_of, out['steps']):
            more = []
            if o['means_array'] is not None:
                more.append([[k, v] for k, v in zip(o['sample_keys'], o['means_array'])])
            quant = list(o['quant'])
            if o['ci'] is not None:
                more.append([[k, v[0]] for k, v in o['ci']])
                # the 2.5% / 97.5% ends of sample_means_and_95CIs take the place of sample_quantiles(0.025 / 0.975) (py_check
                # clause ci_quantiles: the two are bit-equal) when the level is away from every cumulative-weight boundary
                quant = [[al, ([[k, v[1 if al == 0.025 else 2]] for k, v in o['ci']] if al in (0.025, 0.975) else qs)] for al, qs in quant]
            numbers = [v for ms in more for _, v in ms] + ([v for _, v in o['means']] if o['means'] is not None else [])
            if not all(math.isfinite(v) for v in numbers):
                self.bump('hist:skipped_nonfinite_mean')
                return None
            cops = []
            for op in ops:
                if op['op'] == 'weights':
                    cops.append('OSetW %s' % wq(op['value']))
                else:
                    cops.append('OSetCol %s %s' % (cstr(op['name']), clist([cq(v) for v in op['value']])))
            obs = ('(Build_obs %s %s %s %s %s %s)'
                   % (cbool(o['exact']), copt(o['n_samples'], cnat), opt(None if o['array'] is None else _rows_q(o['array'])),
                      opt(None if o['means'] is None else _named_q(o['means'])), clist([_named_q(ms) for ms in more]),
                      clist(['(%s, %s)' % (cq(al), _named_q(qs)) for al, qs in quant])))
            steps.append('(%s, %s)' % (clist(cops), obs))
        if case['kind'] == 'hist':
            names, outputs, burn, w = case['names'], case['outputs'], case['burn'], case['weights']
        else:
            names, outputs, burn, w = out['names'], out['outputs'], 0, out['weights']
        return ('CHist %s %s %s %s %s'
                % (clist([cstr(n) for n in names]), clist(['(%s, %s)' % (cstr(k), clist([cq(v) for v in vs])) for k, vs in outputs]),
                   cnat(burn), wq(w), clist(steps)))


if __name__ == '__main__':
    sys.exit(run_check(C16))
