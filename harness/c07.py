"""C07 — SMC-ABC populations: thresholds, prior support, importance weights, n_sim."""
import logging
import numpy as np
import scipy.stats as ss
from common import *
import rejmodels
from c01 import cdisc


def cqf(x):
    """a finite binary64 as the exact rational Smc.qf m e = m * 2^e"""
    n, d = float(x).as_integer_ratio()
    return '(qf (%d) (%d))' % (n, -(d.bit_length() - 1))


def cpop(rows, thr, n_sim, n_batches):
    return ('{| p_rows := %s; p_threshold := %s; p_n_sim := %s; p_n_batches := %s |}'
            % (clist(['None' if c is None else '(Some {| d_disc := %s; d_code := %s |})' % (cdisc(d), cn(c)) for d, c in rows]),
               cdisc(thr), cnat(n_sim), cnat(n_batches)))


def wquantile(x, alpha, w, eps):
    """the set of admissible weighted quantiles for alpha +- eps (independent recomputation)"""
    x = np.asarray(x, dtype=float)
    w = np.asarray(w, dtype=float)
    order = np.argsort(x, kind='stable')
    xs, ws = x[order], w[order] / np.sum(w)
    cum = np.cumsum(ws)
    cum[-1] = 1.0
    out = set()
    for a in (alpha - eps, alpha, alpha + eps):
        a = min(max(a, 0.0), 1.0)
        if a == 0:
            out.add(float(xs[0]))
        else:
            idx = int(np.searchsorted(cum, a, side='left'))
            out.add(float(xs[min(idx, len(xs) - 1)]))
    return out


# ---- independent prior (log domain: a density that underflows in binary64 is still positive) ----
def _lu(x, a, w):
    """log U(x; [a, a + w]); -inf outside the support and for an undefined distribution (w <= 0)"""
    good = (w > 0) & (x >= a) & (x <= a + w)
    return np.where(good, -np.log(np.where(w > 0, w, 1.0)), -np.inf)


def _ln(x, m, sd):
    good = sd > 0
    sdd = np.where(good, sd, 1.0)
    return np.where(good, -0.5 * ((x - m) / sdd) ** 2 - np.log(sdd) - 0.5 * np.log(2 * np.pi), -np.inf)


def _le(x, s):
    return np.where(x >= 0, -x / s - np.log(s), -np.inf)


def log_prior(cfg, cols):
    """log of the joint prior density = sum of the conditional log densities, -inf as soon as one factor is zero
    or undefined (a child whose parent lies outside the parent's support has no density: the joint density is 0)"""
    if 'kind' not in cfg:                          # the unit-scale model of rejmodels.build
        lp = _lu(cols['t1'], -1.0, 2.0)
        if cfg['two_params']:
            lp = lp + _ln(cols['t2'], cols['t1'], 0.5)
        return lp
    s1, s2, kind = float(cfg['s1']), float(cfg.get('s2', 1.0)), cfg['kind']
    with np.errstate(all='ignore'):
        if kind == 'flat':
            lp = _lu(cols['t1'], -s1, 2 * s1)
            if cfg.get('two_params'):
                lp = lp + _ln(cols['t2'], cols['t1'], 0.5 * s1)
        elif kind == 'hier_uniform':
            par = _lu(cols['sc'], 0.0, 2 * s1)
            lp = np.where(np.isfinite(par), par + _lu(cols['lo'], 0.0, cols['sc']), -np.inf)
        elif kind == 'hier_normal':
            par = _lu(cols['sd'], 0.0, 2 * s1)
            lp = np.where(np.isfinite(par), par + _ln(cols['mu'], 0.0, cols['sd']), -np.inf)
        elif kind == 'hier_expon':
            par = _le(cols['sc'], s1)
            lp = np.where(np.isfinite(par), par + _lu(cols['lo'], 0.0, cols['sc']), -np.inf)
        else:
            raise ValueError(kind)
        if cfg.get('extra') == 'norm':
            lp = lp + _ln(cols['t3'], 0.0, s2)
        elif cfg.get('extra') == 'unif':
            lp = lp + _lu(cols['t3'], 0.0, s2)
    return lp


def log_components(X, M, cov):
    """log N(X_i; M_j, cov) for all i, j, evaluated in standardised coordinates (no absolute scale enters)"""
    sd = np.sqrt(np.diag(cov))
    R = cov / np.outer(sd, sd)
    Z = (X[:, None, :] - M[None, :, :]) / sd
    quad = np.einsum('ijk,kl,ijl->ij', Z, np.linalg.inv(R), Z)
    return -0.5 * quad - np.sum(np.log(sd)) - 0.5 * np.linalg.slogdet(R)[1] - 0.5 * X.shape[1] * np.log(2 * np.pi)


class RunAborted(Exception):
    pass


class _ProposalWatch(logging.Handler):
    """GMDistribution.rvs never gives up; after 100 unsuccessful trials it logs that the user "may wish to kill the
    process".  The harness is that user.  Also records whether the documented unit-covariance fallback was taken (weighted
    variance not estimable, e.g. one particle holds all the weight): unit covariance is not scale free, for parameters on
    scales << 1 essentially no proposal falls into the prior support and the run never ends."""
    def __init__(self):
        super().__init__(level=logging.WARNING)
        self.fallback = False

    def emit(self, record):
        msg = record.getMessage()
        if msg.startswith('Could not estimate the sample covariance'):
            self.fallback = True
        elif msg.startswith('SMC: It appears to be difficult to find enough valid proposals'):
            raise RunAborted('fallback_covariance' if self.fallback else 'estimated_covariance')


class C07(PropCheck):
    pid = 'C07'
    header = ('From Coq Require Import List ZArith NArith QArith Bool PrimFloat.\n'
              'From Elfi Require Import Base.Harness Sched.Sched Sched.Reject Sched.Smc.\nImport ListNotations.\n')
    case_type = 'Smc.case'
    preds = (('Smc.agree', 'agree'), ('Smc.ok', 'ok'))
    chunk = 15
    case_timeout = 90
    build_targets = ('Sched/Smc.vo',)
    rule = ('real SMC.sample on small models: the unit-scale model (bounded uniform prior, optionally a normal child) and models with a '
            'hierarchical prior whose child is undefined once the parent leaves its support (U(0,2s)->U(0,parent), U(0,2s)->N(0,parent), '
            'Expon(s)->U(0,parent)) or the flat prior in units of s, s = 1e-6..1e6, optionally a third independent parameter on another '
            'scale (ratio up to 1e3, rarely more); 2-4 rounds with threshold lists or quantile lists, batch sizes 1-5, population sizes '
            '2-8, max_parallel 1-3, continued sampling on an existing sampler; an OutputPool records every consumed batch; per '
            'population: rows, threshold, n_sim, n_batches vs the Coq round model; in Coq (num_agree / num_ok) and independently in '
            'python: positive prior density of every particle (log domain), finite non-negative weights, first weights 1, later weights '
            '= prior / mixture of the previous population with its weights and stored covariance, covariance = diag(2 x weighted sample '
            'variance), all purely relative; every simulated draw of every round has positive prior density; selected quantile '
            'thresholds recomputed; a run that scipy refuses (LinAlgError) or in which GMDistribution.rvs reports 100 trials without a valid proposal is '
            'counted and skipped; non-trivial = at least two populations whose later weights are not all equal; distinct by '
            'configuration')
    trusted = ('oracle tables for the Coq weight statement computed by the harness from its own formulas: log prior density (uniform, '
               'normal, exponential conditionals; zero as soon as a parent lies outside its support) and normal component densities in '
               'standardised coordinates (relative tolerance 1e-8)',)

    def generate(self):
        n = 120 if self.tier == 'quick' else 900
        r = self.rng
        for i in range(n):
            rounds = r.choice([2, 3, 3, 4])
            form = r.choice(['thresholds', 'quantiles'])
            u = r.random()
            if u < 0.25:
                # the unit-scale model with independent / normal-child priors
                cfg = dict(two_params=r.random() < 0.5, width=r.choice([1, 2]), levels=r.choice([4, 6, 8]), inf_above=None)
                self.bump('prior=unit')
            else:
                # hierarchical priors whose child is undefined outside the parent's support; every parameter on its own scale
                kind = r.choice(['flat', 'hier_uniform', 'hier_uniform', 'hier_normal', 'hier_normal', 'hier_expon'])
                e1 = r.choice([-6, -5, -4, -3, -2, -1, 0, 0, 1, 2, 3, 4, 5, 6])
                extra = r.choice([None, None, 'norm', 'unif'])
                gap = 0
                if extra is not None:
                    # scipy refuses a covariance whose eigenvalue ratio is below ~2e-10 (LinAlgError, the run does not
                    # finish): scale ratios up to 1e3 are the regular mixed case, larger ones are sampled rarely
                    gap = r.choice([0, 1, -1, 2, -2, 3, -3]) if r.random() < 0.93 else r.choice([5, -5, 7, -7])
                e2 = max(-8, min(8, e1 + gap))
                cfg = dict(kind=kind, two_params=r.random() < 0.5, s1=float('1e%d' % e1), extra=extra, s2=float('1e%d' % e2),
                           width=r.choice([1, 2]), levels=r.choice([4, 6, 8]))
                self.bump('prior=%s%s' % (kind, '+' + extra if extra else ''))
                self.bump('scale=1e%d' % e1)
                if extra is not None:
                    self.bump('scale_ratio=1e%d' % (e2 - e1))
            case = dict(cfg=cfg, b=r.choice([1, 2, 3, 5]), n=r.choice([2, 3, 5, 8]), seed=r.randrange(2 ** 31), maxp=r.choice([1, 2, 3]),
                        rounds=rounds, form=form, continued=(r.random() < 0.25))
            start = r.choice([8, 6, 5])
            case['thresholds'] = [max(1, start - k - r.choice([0, 1])) for k in range(rounds)]
            case['thresholds'] = sorted(case['thresholds'], reverse=True)
            case['quantiles'] = [r.choice([0.5, 0.3, 0.7, 0.25]) for _ in range(rounds)]
            self.bump('form=' + form)
            self.bump('rounds=%d' % rounds)
            self.bump('continued=%s' % case['continued'])
            yield case

    def run_impl(self, case):
        try:
            return self._run_impl(case)
        except Exception as e:
            # a run that does not finish is outside the property: a population whose weighted covariance is singular
            # (e.g. two particles, one with weight ~0) makes the mixture density undefined and scipy refuses it
            if isinstance(e, RunAborted):
                # the sampler found no valid proposal in 100 trials and told the user to kill it
                self.bump('run_did_not_finish:no_valid_proposal_in_100_trials:' + str(e))
                return dict(skipped=True, populations=[], problems=[], weights_vary=False)
            if type(e).__name__ == 'LinAlgError' or 'All sample weights are zero' in str(e):
                self.bump('run_did_not_finish:' + type(e).__name__)
                return dict(skipped=True, populations=[], problems=[], weights_vary=False)
            raise

    def _run_impl(self, case):
        watch = _ProposalWatch()
        loggers = [logging.getLogger('elfi.methods.utils'), logging.getLogger('elfi.methods.inference.samplers')]
        quiet = logging.NullHandler()
        prev_disable = logging.root.manager.disable
        for lg in loggers:
            lg.addHandler(watch)
        logging.getLogger('elfi').addHandler(quiet)
        logging.disable(logging.INFO)              # common.setup_python_env switches all logging off: warnings are needed here
        try:
            return self._run_impl_watched(case)
        finally:
            logging.disable(prev_disable)
            logging.getLogger('elfi').removeHandler(quiet)
            for lg in loggers:
                lg.removeHandler(watch)

    def _run_impl_watched(self, case):
        import elfi
        import elfi.clients.native as native
        from elfi.store import OutputPool
        elfi.set_client(native.Client())
        cfg = case['cfg']
        m = rejmodels.build_smc(cfg) if 'kind' in cfg else rejmodels.build(cfg)
        pnames = m.parameter_names
        names = ['d'] + pnames + ['sim', 's1']
        pool = OutputPool(names)
        smc = elfi.SMC(m['d'], batch_size=case['b'], seed=case['seed'], output_names=['sim', 's1'], pool=pool,
                       max_parallel_batches=case['maxp'])
        kw = (dict(thresholds=[float(t) for t in case['thresholds']]) if case['form'] == 'thresholds'
              else dict(quantiles=list(case['quantiles'])))
        res = smc.sample(case['n'], bar=False, **kw)
        used = list(smc.objective['thresholds'])
        alphas = list(case['quantiles'])
        if case['continued']:
            # continue on the same sampler with one more round
            if case['form'] == 'thresholds':
                more = [float(max(1, case['thresholds'][-1] - 1))]
                res = smc.sample(case['n'], thresholds=more, bar=False)
            else:
                res = smc.sample(case['n'], quantiles=[0.5], bar=False)
                alphas = alphas + [0.5]
            used = used + list(smc.objective['thresholds'])[len(used):]
        # independent record of everything consumed
        codes = {}
        table = []
        for bi in range(len(pool)):
            batch = pool.get_batch(bi)
            table.append([(rejmodels.disc_value(batch['d'][i]), codes.setdefault(rejmodels.row_key(batch, names, i), len(codes)))
                          for i in range(case['b'])])
        pops = []
        coq_pops = []
        rounds_coq = []
        problems = []
        for r_i, p in enumerate(res.populations):
            rows = [(rejmodels.disc_value(p.outputs['d'][i]), codes.get(rejmodels.row_key(p.outputs, names, i)))
                    for i in range(len(p.outputs['d']))]
            thr = rejmodels.disc_value(p.threshold)
            coq_pops.append(cpop(rows, thr, int(p.n_sim), int(p.n_batches)))
            if case['form'] == 'quantiles' and r_i == 0:
                rounds_coq.append('(RQuantile0 %s)' % cfloat(alphas[0]))
            else:
                t_used = used[r_i]
                rounds_coq.append('(RThreshold %s)' % cdisc(rejmodels.disc_value(t_used)))
            pops.append(dict(rows=rows, threshold=thr, n_sim=int(p.n_sim), n_batches=int(p.n_batches),
                             weights=[float(w) for w in np.asarray(p.weights)]))
            if any(c is None for _, c in rows):
                problems.append('population %d holds a row that is no consumed draw' % r_i)
        # ---- numeric clauses, recomputed independently (nothing below knows the units of a parameter) ----
        def cols_of(outputs):
            return {k: np.asarray(outputs[k], dtype=float).reshape(-1) for k in pnames}
        # every simulated draw (first round: from the prior; later: proposals conditioned on the prior) lies in the support
        for bi in range(len(pool)):
            lp = np.asarray(log_prior(cfg, cols_of(pool.get_batch(bi))))
            if not np.all(lp > -np.inf):
                problems.append('batch %d was simulated at a point without positive prior density: %r'
                                % (bi, {k: v.tolist() for k, v in cols_of(pool.get_batch(bi)).items()}))
                break
        from fractions import Fraction as _F
        qopt = lambda x: copt(float(x) if np.isfinite(x) else None, cqf)
        npops = []
        prev = None
        for r_i, p in enumerate(res.populations):
            P = np.column_stack([p.outputs[k] for k in pnames]).astype(float)
            w = np.asarray(p.weights, dtype=float).reshape(-1)
            cov = np.atleast_2d(np.asarray(p.cov, dtype=float))
            lp = np.asarray(log_prior(cfg, cols_of(p.outputs)), dtype=float)
            support = lp > -np.inf
            if not np.all(support):
                problems.append('population %d has a particle without positive prior density: %r' % (r_i, P[~support][:2].tolist()))
            w_good = bool(np.all(np.isfinite(w)) and np.all(w >= 0))
            if not w_good:
                problems.append('population %d has weights that are not finite and non-negative: %r' % (r_i, w[:6].tolist()))
            dens = []
            prior_f = np.exp(lp)
            # a density that (nearly) underflows in binary64 is no usable oracle for the quotient in Q
            prior_q = [(0.0 if not s_ else float(x) if x > 1e-60 else None) for x, s_ in zip(prior_f, support)]
            if prev is None:
                if not np.all(w == 1):
                    problems.append('first population weights are not all 1: %r' % w[:4].tolist())
            else:
                Pm, wm, covm, prev_good = prev
                if prev_good:
                    with np.errstate(all='ignore'):
                        L = log_components(P, Pm, covm)
                        A = L + np.log(wm / np.sum(wm))[None, :]
                        mx = np.max(A, axis=1)
                        logq = mx + np.log(np.sum(np.exp(A - mx[:, None]), axis=1))
                        expect = np.exp(lp - logq)
                    if not np.allclose(w, expect, rtol=1e-8, atol=0):
                        problems.append('population %d weights %r differ from prior/mixture density %r' % (r_i, w[:4].tolist(), expect[:4].tolist()))
                    # oracle table for Coq: components below 1e-20 of the largest one of their row are entered as 0 (their
                    # total contribution is < 1e-19 relative; exact rationals with 2^-600 denominators are costly)
                    D = np.exp(L)
                    D = np.where(D < 1e-20 * np.max(D, axis=1, keepdims=True), 0.0, D)
                    dens = D.tolist()
                    if not np.all(np.sum(np.exp(L), axis=1) > 1e-290):
                        prior_q = [None] * len(prior_q)
                else:
                    prior_q = [None] * len(prior_q)
                    dens = [[] for _ in w]
                if case['form'] == 'quantiles':
                    adm = wquantile(prev_discs, alphas[r_i], wm, 1e-9)
                    if float(used[r_i]) not in adm:
                        problems.append('round %d threshold %r is not the weighted %.3g-quantile %r of the previous discrepancies'
                                        % (r_i, float(used[r_i]), alphas[r_i], sorted(adm)))
            if any(x is None for x in prior_q):
                self.bump('weight_oracle_underflow')
            # exact rational value of the reliability-weights formula on the stored floats; the binary64
            # evaluation is entitled to a relative error of a few ulp times the conditioning V1 / (V1 - V2/V1)
            # of the denominator (two particles with weights (1-e, e) lose log10(1/e) digits whatever the
            # order of the floating-point operations)
            if w_good:
                wq = [_F(float(x)) for x in w]
                V1q, V2q = sum(wq), sum(x * x for x in wq)
                denq = V1q - V2q / V1q if V1q != 0 else _F(0)
                if denq != 0:
                    Pq = [[_F(float(x)) for x in row] for row in P]
                    dimq = len(Pq[0])
                    xbarq = [sum(wq[i] * Pq[i][k] for i in range(len(wq))) / V1q for k in range(dimq)]
                    s2 = np.array([float(sum(wq[i] * (Pq[i][k] - xbarq[k]) ** 2 for i in range(len(wq))) / denq) for k in range(dimq)])
                    condq = float(V1q / denq)
                    cov_expect = 2 * np.diag(s2)
                    if 64 * 2.3e-16 * condq >= 1:
                        # the allowance reaches 100 %: the binary64 denominator cancels completely (weights (1, 1e-22)), the
                        # code sees nan/inf and takes its documented unit-covariance fallback - not estimable, like denq == 0
                        self.bump('cov_not_estimable_in_binary64')
                    elif not (cov.shape == cov_expect.shape and np.allclose(cov, cov_expect, rtol=1e-9 + 64 * 2.3e-16 * condq, atol=1e-300)):
                        problems.append('population %d cov %r is not twice the weighted sample variance %r' % (r_i, cov.tolist(), cov_expect.tolist()))
            cov_good = bool(cov.shape == (P.shape[1], P.shape[1]) and np.all(np.isfinite(cov)) and np.all(np.diag(cov) > 0))
            if cov_good:
                sdv = np.sqrt(np.diag(cov))
                cov_good = bool(np.all(np.isfinite(np.linalg.inv(cov / np.outer(sdv, sdv)))))
            prev = (P, w, cov, w_good and cov_good and float(np.sum(w)) > 0)
            prev_discs = np.asarray(p.outputs['d'], dtype=float)
            npops.append('{| q_support := %s; q_prior := %s; q_cols := %s; q_weights := %s; q_cov := %s; q_dens := %s |}'
                         % (clist([cbool(bool(x)) for x in support]), clist([copt(x, cqf) for x in prior_q]),
                            clist([clist([cqf(x) for x in P[:, k]]) for k in range(P.shape[1])]),
                            clist([qopt(x) for x in w]), clist([clist([qopt(x) for x in row]) for row in cov]),
                            clist([clist([cqf(x) for x in row]) for row in dens])))
        coq = ('{| v_n := %s; v_b := %s; v_maxp := %s; v_rounds := %s; v_table := %s; v_pops := %s; v_n_sim := %s;\n   v_num := %s |}'
               % (cnat(case['n']), cnat(case['b']), cnat(case['maxp']), clist(rounds_coq),
                  clist([clist(['{| d_disc := %s; d_code := %s |}' % (cdisc(d), cn(c)) for d, c in rows]) for rows in table]),
                  clist(coq_pops, sep=';\n   '), cnat(int(res.n_sim)), clist(npops, sep=';\n   ')))
        return dict(populations=pops, n_sim=int(res.n_sim), n_batches_total=len(table), problems=problems, coq=coq,
                    weights_vary=any(len(set(p['weights'])) > 1 for p in pops[1:]))

    def py_check(self, case, out):
        return [('numeric', p) for p in out['problems'][:3]]

    def nontrivial(self, case, out):
        if len(out['populations']) < 2 or not out['weights_vary']:
            return None
        return json.dumps(case, sort_keys=True)

    def to_coq(self, case, out):
        return out.get('coq')


if __name__ == '__main__':
    sys.exit(run_check(C07))
