"""C07 — SMC-ABC populations: thresholds, prior support, importance weights, n_sim."""
import numpy as np
import scipy.stats as ss
from common import *
import rejmodels
from c01 import cdisc


def cpop(rows, thr, n_sim, n_batches):
    return ('{| p_rows := %s; p_threshold := %s; p_n_sim := %s; p_n_batches := %s |}'
            % (clist(['None' if c is None else '(Some {| d_disc := %s; d_code := %s |})' % (cdisc(d), cn(c)) for d, c in rows]),
               cdisc(thr), cnat(n_sim), cnat(n_batches)))


def wquantile(x, alpha, w, eps):
    """the set of admissible weighted quantiles for alpha +- eps (independent recomputation)"""
    x = np.asarray(x, dtype=float)
    w = np.asarray(w, dtype=float)
    order = np.argsort(x, kind='stable')
    xs, ws = x[order], w[order] / np.sum(w)
    cum = np.cumsum(ws)
    cum[-1] = 1.0
    out = set()
    for a in (alpha - eps, alpha, alpha + eps):
        a = min(max(a, 0.0), 1.0)
        if a == 0:
            out.add(float(xs[0]))
        else:
            idx = int(np.searchsorted(cum, a, side='left'))
            out.add(float(xs[min(idx, len(xs) - 1)]))
    return out


class C07(PropCheck):
    pid = 'C07'
    header = ('From Coq Require Import List ZArith NArith Bool PrimFloat.\n'
              'From Elfi Require Import Base.Harness Sched.Sched Sched.Reject Sched.Smc.\nImport ListNotations.\n')
    case_type = 'Smc.case'
    preds = (('Smc.agree', 'agree'), ('Smc.ok', 'ok'))
    chunk = 80
    case_timeout = 90
    build_targets = ('Sched/Smc.vo',)
    rule = ('real SMC.sample on small models (bounded uniform prior, optionally a hierarchical normal second parameter), 2-4 '
            'rounds with threshold lists or quantile lists, batch sizes 1-5, population sizes 2-8, max_parallel 1-3, continued '
            'sampling on an existing sampler; an OutputPool records every consumed batch; per population: rows, threshold, n_sim, '
            'n_batches vs the Coq round model; weights, covariance, selected quantile thresholds and prior positivity recomputed '
            'independently with scipy; non-trivial = at least two populations whose later weights are not all equal; distinct by '
            'configuration')
    trusted = ('scipy densities (uniform, norm, multivariate_normal) as oracles for the weight comparison (relative tolerance 1e-9)',)

    def generate(self):
        n = 60 if self.tier == 'quick' else 900
        r = self.rng
        for i in range(n):
            rounds = r.choice([2, 3, 3, 4])
            form = r.choice(['thresholds', 'quantiles'])
            case = dict(cfg=dict(two_params=r.random() < 0.5, width=r.choice([1, 2]), levels=r.choice([4, 6, 8]), inf_above=None),
                        b=r.choice([1, 2, 3, 5]), n=r.choice([2, 3, 5, 8]), seed=r.randrange(2 ** 31), maxp=r.choice([1, 2, 3]),
                        rounds=rounds, form=form, continued=(r.random() < 0.25))
            start = r.choice([8, 6, 5])
            case['thresholds'] = [max(1, start - k - r.choice([0, 1])) for k in range(rounds)]
            case['thresholds'] = sorted(case['thresholds'], reverse=True)
            case['quantiles'] = [r.choice([0.5, 0.3, 0.7, 0.25]) for _ in range(rounds)]
            self.bump('form=' + form)
            self.bump('rounds=%d' % rounds)
            self.bump('continued=%s' % case['continued'])
            yield case

    def run_impl(self, case):
        try:
            return self._run_impl(case)
        except Exception as e:
            # a run that does not finish is outside the property: a population whose weighted covariance is singular
            # (e.g. two particles, one with weight ~0) makes the mixture density undefined and scipy refuses it
            if type(e).__name__ == 'LinAlgError' or 'All sample weights are zero' in str(e):
                self.bump('run_did_not_finish:' + type(e).__name__)
                return dict(skipped=True, populations=[], problems=[], weights_vary=False)
            raise

    def _run_impl(self, case):
        import elfi
        import elfi.clients.native as native
        from elfi.store import OutputPool
        elfi.set_client(native.Client())
        m = rejmodels.build(case['cfg'])
        pnames = m.parameter_names
        names = ['d'] + pnames + ['sim', 's1']
        pool = OutputPool(names)
        smc = elfi.SMC(m['d'], batch_size=case['b'], seed=case['seed'], output_names=['sim', 's1'], pool=pool,
                       max_parallel_batches=case['maxp'])
        kw = (dict(thresholds=[float(t) for t in case['thresholds']]) if case['form'] == 'thresholds'
              else dict(quantiles=list(case['quantiles'])))
        res = smc.sample(case['n'], bar=False, **kw)
        used = list(smc.objective['thresholds'])
        alphas = list(case['quantiles'])
        if case['continued']:
            # continue on the same sampler with one more round
            if case['form'] == 'thresholds':
                more = [float(max(1, case['thresholds'][-1] - 1))]
                res = smc.sample(case['n'], thresholds=more, bar=False)
            else:
                res = smc.sample(case['n'], quantiles=[0.5], bar=False)
                alphas = alphas + [0.5]
            used = used + list(smc.objective['thresholds'])[len(used):]
        # independent record of everything consumed
        codes = {}
        table = []
        for bi in range(len(pool)):
            batch = pool.get_batch(bi)
            table.append([(rejmodels.disc_value(batch['d'][i]), codes.setdefault(rejmodels.row_key(batch, names, i), len(codes)))
                          for i in range(case['b'])])
        pops = []
        coq_pops = []
        rounds_coq = []
        problems = []
        for r_i, p in enumerate(res.populations):
            rows = [(rejmodels.disc_value(p.outputs['d'][i]), codes.get(rejmodels.row_key(p.outputs, names, i)))
                    for i in range(len(p.outputs['d']))]
            thr = rejmodels.disc_value(p.threshold)
            coq_pops.append(cpop(rows, thr, int(p.n_sim), int(p.n_batches)))
            if case['form'] == 'quantiles' and r_i == 0:
                rounds_coq.append('(RQuantile0 %s)' % cfloat(alphas[0]))
            else:
                t_used = used[r_i]
                rounds_coq.append('(RThreshold %s)' % cdisc(rejmodels.disc_value(t_used)))
            pops.append(dict(rows=rows, threshold=thr, n_sim=int(p.n_sim), n_batches=int(p.n_batches),
                             weights=[float(w) for w in np.asarray(p.weights)]))
            if any(c is None for _, c in rows):
                problems.append('population %d holds a row that is no consumed draw' % r_i)
        # ---- numeric clauses, recomputed independently ----
        def prior_pdf(P):
            t1 = P[:, 0]
            d = ss.uniform.pdf(t1, -1, 2)
            if case['cfg']['two_params']:
                d = d * ss.norm.pdf(P[:, 1], t1, 0.5)
            return d
        prev = None
        for r_i, p in enumerate(res.populations):
            P = np.column_stack([p.outputs[k] for k in pnames])
            w = np.asarray(p.weights, dtype=float)
            pp = prior_pdf(P)
            if not np.all(pp > 0):
                problems.append('population %d has a particle with prior density 0' % r_i)
            if prev is None:
                if not np.all(w == 1):
                    problems.append('first population weights are not all 1: %r' % w[:4].tolist())
            else:
                Pm, wm, covm = prev
                wn = wm / np.sum(wm)
                q = np.zeros(len(P))
                for j in range(len(Pm)):
                    q += wn[j] * ss.multivariate_normal.pdf(P, mean=Pm[j], cov=covm, allow_singular=True).reshape(-1)
                expect = pp / q
                if not np.allclose(w, expect, rtol=1e-8, atol=0):
                    problems.append('population %d weights %r differ from prior/mixture density %r' % (r_i, w[:4].tolist(), expect[:4].tolist()))
                if case['form'] == 'quantiles':
                    adm = wquantile(prev_discs, alphas[r_i], wm, 1e-9)
                    if float(used[r_i]) not in adm:
                        problems.append('round %d threshold %r is not the weighted %.3g-quantile %r of the previous discrepancies'
                                        % (r_i, float(used[r_i]), alphas[r_i], sorted(adm)))
            # exact rational value of the reliability-weights formula on the stored floats; the binary64
            # evaluation is entitled to a relative error of a few ulp times the conditioning V1 / (V1 - V2/V1)
            # of the denominator (two particles with weights (1-e, e) lose log10(1/e) digits whatever the
            # order of the floating-point operations)
            from fractions import Fraction as _F
            wq = [_F(float(x)) for x in w]
            V1q, V2q = sum(wq), sum(x * x for x in wq)
            denq = V1q - V2q / V1q if V1q != 0 else _F(0)
            if denq != 0:
                Pq = [[_F(float(x)) for x in row] for row in np.asarray(P, dtype=float).reshape(len(w), -1)]
                dimq = len(Pq[0])
                xbarq = [sum(wq[i] * Pq[i][k] for i in range(len(wq))) / V1q for k in range(dimq)]
                s2 = np.array([float(sum(wq[i] * (Pq[i][k] - xbarq[k]) ** 2 for i in range(len(wq))) / denq) for k in range(dimq)])
                condq = float(V1q / denq)
            else:
                s2 = np.full(np.asarray(P).reshape(len(w), -1).shape[1], np.nan)
                condq = 1.0
            cov_expect = 2 * np.diag(s2)
            cov = np.asarray(p.cov, dtype=float)
            if np.all(np.isfinite(cov_expect)):
                if not np.allclose(cov, cov_expect, rtol=1e-9 + 64 * 2.3e-16 * condq, atol=1e-300):
                    problems.append('population %d cov %r is not twice the weighted sample variance %r' % (r_i, cov.tolist(), cov_expect.tolist()))
            prev = (P, w, cov)
            prev_discs = np.asarray(p.outputs['d'], dtype=float)
        coq = ('{| v_n := %s; v_b := %s; v_maxp := %s; v_rounds := %s; v_table := %s; v_pops := %s; v_n_sim := %s |}'
               % (cnat(case['n']), cnat(case['b']), cnat(case['maxp']), clist(rounds_coq),
                  clist([clist(['{| d_disc := %s; d_code := %s |}' % (cdisc(d), cn(c)) for d, c in rows]) for rows in table]),
                  clist(coq_pops, sep=';\n   '), cnat(int(res.n_sim))))
        return dict(populations=pops, n_sim=int(res.n_sim), n_batches_total=len(table), problems=problems, coq=coq,
                    weights_vary=any(len(set(p['weights'])) > 1 for p in pops[1:]))

    def py_check(self, case, out):
        return [('numeric', p) for p in out['problems'][:3]]

    def nontrivial(self, case, out):
        if len(out['populations']) < 2 or not out['weights_vary']:
            return None
        return json.dumps(case, sort_keys=True)

    def to_coq(self, case, out):
        return out.get('coq')


if __name__ == '__main__':
    sys.exit(run_check(C07))
