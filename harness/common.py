"""Shared machinery for the per-property checks (see DESIGN.md section 2).

A property module defines a subclass of `PropCheck`; `run_check` does

  1. proof step      - rebuild the Coq development (translator output first), re-check
                       Properties/<id>.v, collect `Print Assumptions`, scan for forbidden tokens;
  2. correspondence  - run the real code from /repo on generated cases, write the same cases as
                       Coq terms, evaluate `agree` (model = implementation) and `ok` (the proved-sound
                       decidable spec applied to the implementation's output) with vm_compute;
  3. verdict         - VIOLATION / KNOWN-FINDING lines, replay files;
  4. evidence        - evidence/<id>.json.
"""
import fractions
import hashlib
import json
import os
import random
import re
import shutil
import subprocess
import sys
import time
import traceback

VERIF = os.path.dirname(os.path.dirname(os.path.abspath(__file__)))
REPO = os.environ.get('ELFI_REPO', '/repo')
COQ = os.path.join(VERIF, 'coq')
WORK = os.path.join(VERIF, 'work')
JOBS = int(os.environ.get('VERIF_JOBS', '16'))

FORBIDDEN = re.compile(
    r'\b(Admitted|admit|Axiom|Axioms|Parameter|Parameters|Conjecture|Conjectures|Hypothesis|Hypotheses|Variable|Variables)\b'
    r'|Unset\s+Guard|bypass_check|Admit\s+Obligations|Unset\s+Positivity|Unset\s+Universe|type-in-type|impredicative-set')


# ----------------------------------------------------------------------------------------------
# environment
# ----------------------------------------------------------------------------------------------

def setup_python_env():
    """Make `import elfi` load /repo's working tree; restore numpy aliases the pinned code expects."""
    if REPO not in sys.path:
        sys.path.insert(0, REPO)
    import numpy
    if not hasattr(numpy, 'Inf'):
        numpy.Inf = numpy.inf
    if not hasattr(numpy, 'NINF'):
        numpy.NINF = -numpy.inf
    if not hasattr(numpy, 'float_'):
        numpy.float_ = numpy.float64
    import warnings
    warnings.filterwarnings('ignore')
    import logging
    logging.disable(logging.CRITICAL)


_WD = {}


def wdir(pid):
    """scratch directory of this process for property pid (per process, so that concurrent runs of
    one check - e.g. against /repo and against a scratch copy - cannot delete each other's files)"""
    if pid not in _WD:
        owner = os.getpid()
        d = os.path.join(WORK, '%s_p%d' % (pid, owner))
        shutil.rmtree(d, ignore_errors=True)
        os.makedirs(d, exist_ok=True)
        _WD[pid] = d
        import atexit

        def _cleanup(d=d, owner=owner):
            if os.getpid() == owner and not os.environ.get('VERIF_KEEP_WORK'):
                try:
                    os.chdir(VERIF)
                except OSError:
                    pass
                shutil.rmtree(d, ignore_errors=True)
        atexit.register(_cleanup)
    os.makedirs(_WD[pid], exist_ok=True)
    return _WD[pid]


def workdir(pid):
    return wdir(pid)


# ----------------------------------------------------------------------------------------------
# Coq term printers
# ----------------------------------------------------------------------------------------------

def cz(n):
    n = int(n)
    return '(%d)%%Z' % n


def cn(n):
    n = int(n)
    assert n >= 0
    return '%d%%N' % n


def cnat(n):
    n = int(n)
    assert 0 <= n < 5000, n
    return '%d%%nat' % n


def cbool(b):
    return 'true' if b else 'false'


def cq(x):
    """An exact rational (float, int or Fraction) as a Coq Q literal."""
    f = fractions.Fraction(x)
    return '(%d # %d)%%Q' % (f.numerator, f.denominator)


def cfloat(x):
    """A binary64 as a PrimFloat literal (bit-exact)."""
    import math
    x = float(x)
    if math.isnan(x):
        return 'nan%float'
    if math.isinf(x):
        return ('infinity' if x > 0 else 'neg_infinity') + '%float'
    return '(%s)%%float' % x.hex()


def cstr(s):
    assert all(32 <= ord(c) < 127 for c in s), s
    return '"%s"%%string' % s.replace('"', '""')


def clist(items, sep='; '):
    return '[' + sep.join(items) + ']'


def copt(x, f):
    return 'None' if x is None else '(Some %s)' % f(x)


def cpair(a, b):
    return '(%s, %s)' % (a, b)


# ----------------------------------------------------------------------------------------------
# Coq runners
# ----------------------------------------------------------------------------------------------

def sh(cmd, timeout=None, cwd=None, env=None):
    p = subprocess.run(cmd, shell=isinstance(cmd, str), cwd=cwd, env=env, timeout=timeout,
                       stdout=subprocess.PIPE, stderr=subprocess.STDOUT, text=True)
    return p.returncode, p.stdout


def coq_build(targets=(), timeout=3000):
    env = dict(os.environ)
    env['VERIF_MAKE_TIMEOUT'] = str(timeout)
    rc, out = sh(['bash', os.path.join(COQ, 'build.sh')] + list(targets), env=env, timeout=timeout + 60)
    return rc, out


COQ_WARN = '-notation-overridden,-deprecated-hint-without-locality,-deprecated-instance-without-locality,-ambiguous-paths,-redundant-canonical-projection,-notation-incompatible-format,-deprecated-since-8.15,-deprecated-since-8.16'


def coqc(path, timeout=600, extra=()):
    cmd = ['timeout', str(timeout), 'coqc', '-Q', COQ, 'Elfi', '-w', COQ_WARN] + list(extra) + [path]
    try:
        return sh(cmd, timeout=timeout + 30, cwd=os.path.dirname(path))
    except subprocess.TimeoutExpired:
        return 124, 'timeout'


def scan_forbidden(paths):
    hits = []
    for p in paths:
        try:
            txt = open(p).read()
        except OSError:
            continue
        # strip comments (non-nested is enough for our own sources; nested handled by loop)
        prev = None
        while prev != txt:
            prev = txt
            txt = re.sub(r'\(\*[^*(]*(?:\*(?!\))[^*(]*|\((?!\*)[^*(]*)*\*\)', ' ', txt)
        in_section = 0
        for ln, line in enumerate(txt.split('\n'), 1):
            if re.match(r'\s*Section\b', line):
                in_section += 1
            if re.match(r'\s*End\b', line) and in_section:
                in_section -= 1
            for m in FORBIDDEN.finditer(line):
                tok = m.group(0)
                if tok.split()[0] in ('Variable', 'Variables', 'Hypothesis', 'Hypotheses') and in_section:
                    continue
                hits.append('%s:%d:%s' % (os.path.relpath(p, VERIF), ln, tok))
    return hits


def coq_deps(vfile):
    """All project .v files a file transitively depends on (through coqdep's .Makefile.d)."""
    dfile = os.path.join(COQ, '.Makefile.d')
    deps = {}
    if os.path.exists(dfile):
        for line in open(dfile):
            if ':' not in line:
                continue
            lhs, rhs = line.split(':', 1)
            tgt = [t for t in lhs.split() if t.endswith('.vo')]
            if not tgt:
                continue
            src = tgt[0][:-1]
            deps[src] = [r[:-1] for r in rhs.split() if r.endswith('.vo') and not r.startswith('/')]
    seen = set()
    todo = [os.path.relpath(vfile, COQ)]
    while todo:
        f = todo.pop()
        if f in seen:
            continue
        seen.add(f)
        todo.extend(deps.get(f, []))
    return sorted(os.path.join(COQ, f) for f in seen)


def parse_assumptions(out):
    """Parse the output of a file consisting of `Print Assumptions thm.` commands.
    Returns list (in order) of axiom-name lists ([] = closed under the global context)."""
    res = []
    cur = None
    for line in out.split('\n'):
        if line.startswith('Closed under the global context'):
            res.append([])
            cur = None
        elif line.startswith('Axioms:'):
            cur = []
            res.append(cur)
        elif cur is not None:
            m = re.match(r'^([A-Za-z_][\w\.\']*)\s*(:|$)', line)
            if m:
                cur.append(m.group(1))
    return res


def proof_step(pid, gen=None, log=print, extra_targets=()):
    """Rebuild and re-check Properties/<pid>.v.  Returns dict with obligations/discharged/axioms/errors."""
    t0 = time.time()
    res = dict(obligations=0, discharged=0, theorems=[], axioms={}, errors=[], forbidden=[], wall_s=0.0)
    prop = os.path.join(COQ, 'Properties', pid + '.v')
    if gen is not None:
        try:
            gen()
        except Exception as e:  # translator is fail-closed
            res['errors'].append('translator: %s' % e)
    src = open(prop).read()
    thms = re.findall(r'^\s*(?:Theorem|Lemma|Corollary)\s+([\w\']+)', src, re.M)
    res['theorems'] = thms
    res['obligations'] = len(thms)
    rc, out = coq_build(['Properties/%s.vo' % pid, 'Base/Harness.vo'] + list(extra_targets))
    if rc != 0:
        res['errors'].append('build failed:\n' + out[-3000:])
        # which file failed?
        m = re.findall(r'File "\./([^"]+)", line (\d+)', out)
        if m:
            res['errors'].append('failing file: %s line %s' % m[-1])
    else:
        wd = wdir(pid)
        tmpv = os.path.join(wd, 'PropRecheck_%s.v' % pid)
        shutil.copy(prop, tmpv)
        rc2, out2 = coqc(tmpv, timeout=900)
        if rc2 != 0:
            res['errors'].append('property file failed:\n' + out2[-3000:])
        else:
            ax = parse_assumptions(out2)
            printed = re.findall(r'^\s*Print\s+Assumptions\s+([\w\']+)', src, re.M)
            for name, a in zip(printed, ax):
                res['axioms'][name] = a
            missing = [t for t in thms if t not in res['axioms']]
            if missing:
                res['errors'].append('no Print Assumptions for: %s' % missing)
            res['discharged'] = len(thms) - len(missing)
    res['forbidden'] = scan_forbidden(coq_deps(prop))
    if res['forbidden']:
        res['errors'].append('forbidden tokens: %s' % res['forbidden'])
        res['discharged'] = 0
    res['wall_s'] = round(time.time() - t0, 2)
    return res


def _parse_nat_lists(out):
    """Parse `= ([a; b], [c])` style vm_compute output into list of int lists."""
    txt = ' '.join(out.split())
    m = re.search(r'=\s*\((.*?)\)\s*:', txt)
    if not m:
        m2 = re.search(r'=\s*(\[.*?\])\s*:', txt)
        if not m2:
            return None
        body = m2.group(1)
    else:
        body = m.group(1)
    lists = re.findall(r'\[([^\]]*)\]', body)
    out_l = []
    for l in lists:
        l = l.replace('%nat', '')
        out_l.append([int(x) for x in re.findall(r'\d+', l)])
    return out_l


def run_case_files(pid, header, case_type, preds, coq_cases, chunk=300, timeout=900, log=print):
    """coq_cases: list of Coq terms of type case_type.  preds: list of Coq boolean predicates
    (names) over case_type.  Returns list over preds of sorted global failing indices, plus errors."""
    wd = wdir(pid)
    files = []
    for k in range(0, len(coq_cases), chunk):
        part = coq_cases[k:k + chunk]
        path = os.path.join(wd, 'cases_%s_%d.v' % (pid, k // chunk))
        with open(path, 'w') as f:
            f.write(header + '\n')
            f.write('Definition cases : list (%s) :=\n [ ' % case_type)
            f.write('\n ; '.join(part))
            f.write('\n ].\n')
            tup = ', '.join('Elfi.Base.Harness.failing (%s) cases' % p for p in preds)
            if len(preds) > 1:
                f.write('Eval vm_compute in (%s).\n' % tup)
            else:
                f.write('Eval vm_compute in %s.\n' % tup)
        files.append((k, path))
    fails = [[] for _ in preds]
    errors = []
    from concurrent.futures import ThreadPoolExecutor
    # do not start more evaluators than the free memory can hold (a case file takes 0.4-1 GB); a coqc killed by the
    # kernel (out of memory on a shared machine: rc -9 / 137) says nothing about the property: evaluate it again, alone
    jobs = JOBS
    try:
        avail_kb = [int(l.split()[1]) for l in open('/proc/meminfo') if l.startswith('MemAvailable:')][0]
        jobs = max(2, min(JOBS, int(avail_kb / 1.2e6)))
    except Exception:
        pass
    with ThreadPoolExecutor(max_workers=jobs) as ex:
        results = list(ex.map(lambda kp: (kp[0], kp[1], coqc(kp[1], timeout=timeout)), files))
    retried = []
    for idx, (k, path, (rc, out)) in enumerate(results):
        if rc in (-9, 137, -15, 143):
            time.sleep(2)
            rc2, out2 = coqc(path, timeout=timeout)
            retried.append(os.path.basename(path))
            results[idx] = (k, path, (rc2, out2))
    if retried:
        log('[%s] %d case file(s) re-evaluated after their evaluator was killed: %s' % (pid, len(retried), ', '.join(retried[:6])))
    for k, path, (rc, out) in results:
        if rc != 0:
            errors.append('%s: coqc failed rc=%s: %s' % (os.path.basename(path), rc, out[-1500:]))
            continue
        ls = _parse_nat_lists(out)
        if ls is None or len(ls) != len(preds):
            errors.append('%s: cannot parse output: %s' % (os.path.basename(path), out[-500:]))
            continue
        for i, l in enumerate(ls):
            fails[i].extend(k + j for j in l)
    return [sorted(f) for f in fails], errors


def coq_eval(pid, header, term, timeout=300):
    wd = wdir(pid)
    path = os.path.join(wd, 'eval_%s_%s.v' % (pid, hashlib.sha1(term.encode()).hexdigest()[:10]))
    with open(path, 'w') as f:
        f.write(header + '\nEval vm_compute in (%s).\n' % term)
    rc, out = coqc(path, timeout=timeout)
    return rc, out.strip()


# ----------------------------------------------------------------------------------------------
# known findings
# ----------------------------------------------------------------------------------------------

def load_known(pid):
    """KNOWN_FINDINGS.txt lines:  finding: property=<id> key=<slug> <text>   |   fixed: property=<id> <commit> <text>"""
    path = os.path.join(VERIF, 'KNOWN_FINDINGS.txt')
    found = {}
    if os.path.exists(path):
        for line in open(path):
            line = line.strip()
            m = re.match(r'^finding:\s+property=(\S+)\s+key=(\S+)\s+(.*)$', line)
            if m and m.group(1) == pid:
                found[m.group(2)] = m.group(3)
    return found


# ----------------------------------------------------------------------------------------------
# the generic check
# ----------------------------------------------------------------------------------------------

class Failure:
    def __init__(self, kind, key, case, out, detail):
        self.kind = kind      # 'ok' (property fails on implementation), 'agree' (model != impl), 'py' (python-side spec), 'proof'
        self.key = key        # finding key (slug) or None
        self.case = case
        self.out = out
        self.detail = detail


class PropCheck:
    pid = None
    header = ''          # Coq `Require Import` lines for case files
    case_type = None     # Coq type of one case
    preds = ()           # tuple of (coq_pred_name, kind) with kind in {'agree','ok'}
    chunk = 300
    trusted = ()         # extra trusted-base strings
    build_targets = ()   # extra .vo targets the case files import (beyond what Properties/<id>.v depends on)
    rule = ''
    design_ref = ''

    def __init__(self, seed, tier):
        self.seed = seed
        self.tier = tier
        self.rng = random.Random(seed)
        self.hist = {}
        self.notes = []

    # -- to override -------------------------------------------------------------------------
    def gen_translated(self):
        return None

    def corpus(self):
        d = os.path.join(VERIF, 'corpus', self.pid)
        cases = []
        if os.path.isdir(d):
            for fn in sorted(os.listdir(d)):
                if fn.endswith('.json'):
                    cases.append(json.load(open(os.path.join(d, fn))))
        return cases

    def generate(self):
        """yield case dicts (json-serialisable)."""
        return []

    def run_impl(self, case):
        raise NotImplementedError

    def to_coq(self, case, out):
        """Coq term of type case_type, or None when the case has no Coq side."""
        return None

    def py_check(self, case, out):
        """Python-side checks that have no Coq counterpart: list of (clause, message) failures."""
        return []

    def classify(self, case, out, clause):
        """Finding key for a failing case (used to match KNOWN_FINDINGS), default: none."""
        return None

    def nontrivial(self, case, out):
        """hashable key when the case is non-trivial by `rule`, else None."""
        return json.dumps(case, sort_keys=True, default=str)

    def bump(self, key, n=1):
        self.hist[key] = self.hist.get(key, 0) + n

    def search(self, reason, budget_s=60):
        """Search for a concrete failing input after a proof/correspondence break.
        Default: run fresh batches of cases (new PRNG states) and keep only `ok`/py failures,
        i.e. inputs on which the property itself fails on the implementation."""
        t0 = time.time()
        rounds = 0
        while time.time() - t0 < budget_s and rounds < 4:
            rounds += 1
            self.rng = random.Random(self.seed * 7919 + rounds)
            cases = list(self.generate())
            failures, stats, outs = evaluate_cases(self, cases, log=lambda *a: None)
            for f in failures:
                if f.kind in ('ok', 'py'):
                    return f
        return None

    def extra_obligations(self):
        return []


def jdefault(o):
    import numpy as np
    if isinstance(o, (np.integer,)):
        return int(o)
    if isinstance(o, (np.floating,)):
        return float(o)
    if isinstance(o, np.ndarray):
        return o.tolist()
    if isinstance(o, fractions.Fraction):
        return str(o)
    if isinstance(o, (set, frozenset)):
        return sorted(o)
    if isinstance(o, bytes):
        return o.hex()
    return repr(o)


def write_replay(pid, payload):
    os.makedirs(os.path.join(VERIF, 'replays'), exist_ok=True)
    blob = json.dumps(payload, sort_keys=True, default=jdefault, indent=1)
    h = hashlib.sha1(blob.encode()).hexdigest()[:12]
    path = os.path.join(VERIF, 'replays', '%s-%s.json' % (pid, h))
    with open(path, 'w') as f:
        f.write(blob)
    return path


def evaluate_cases(chk, cases, log=print):
    """Run impl on cases, then Coq.  Returns (failures, stats)."""
    failures = []
    coq_terms = []
    coq_index = []
    outs = []
    nontriv = set()
    n_err = 0
    import signal

    class CaseTimeout(Exception):
        pass

    def _alarm(signum, frame):
        raise CaseTimeout('case exceeded its time limit')

    can_alarm = hasattr(signal, 'SIGALRM')
    n_timeouts = 0
    for i, case in enumerate(cases):
        if n_timeouts >= 3:
            # the implementation keeps hanging: do not run the remaining cases
            cases = cases[:i]
            break
        try:
            if can_alarm:
                signal.signal(signal.SIGALRM, _alarm)
                signal.alarm(int(os.environ.get('VERIF_CASE_TIMEOUT', getattr(chk, 'case_timeout', 120))))
            try:
                out = chk.run_impl(case)
            finally:
                if can_alarm:
                    signal.alarm(0)
        except CaseTimeout as e:
            n_timeouts += 1
            out = {'__exception__': 'CaseTimeout: %s (the implementation did not finish)' % e, '__tb__': '', '__timeout__': True}
            n_err += 1
        except Exception as e:  # harness bug or implementation crash: treated as correspondence failure
            out = {'__exception__': '%s: %s' % (type(e).__name__, e), '__tb__': traceback.format_exc()[-1500:]}
            n_err += 1
        outs.append(out)
        if isinstance(out, dict) and '__exception__' in out:
            failures.append(Failure('py' if out.get('__timeout__') else 'agree', None, case, out,
                                    'implementation driver raised: ' + out['__exception__']))
            continue
        try:
            for clause, msg in chk.py_check(case, out):
                failures.append(Failure('py', chk.classify(case, out, clause), case, out, '%s: %s' % (clause, msg)))
            k = chk.nontrivial(case, out)
            if k is not None:
                nontriv.add(k)
            t = chk.to_coq(case, out)
        except Exception as e:
            # the implementation produced something the comparison code cannot even digest: model and
            # implementation disagree (shape, type or length of a result)
            failures.append(Failure('agree', None, case, out, 'comparison of the implementation result raised %s: %s\n%s'
                                    % (type(e).__name__, e, traceback.format_exc()[-800:])))
            n_err += 1
            continue
        if t is not None:
            coq_terms.append(t)
            coq_index.append(i)
    coq_errors = []
    if coq_terms:
        fails, coq_errors = run_case_files(chk.pid, chk.header, chk.case_type, [p for p, _ in chk.preds],
                                           coq_terms, chunk=chk.chunk, log=log)
        for (pname, kind), fl in zip(chk.preds, fails):
            for j in fl:
                i = coq_index[j]
                failures.append(Failure(kind, chk.classify(cases[i], outs[i], pname), cases[i], outs[i],
                                        '%s = false (coq term: %s)' % (pname, coq_terms[j][:2000])))
    stats = dict(evaluations=len(cases), coq_cases=len(coq_terms), distinct_nontrivial=len(nontriv),
                 driver_errors=n_err, coq_errors=coq_errors)
    return failures, stats, outs


def run_check(cls, argv=None):
    import argparse
    ap = argparse.ArgumentParser()
    ap.add_argument('--tier', default=os.environ.get('VERIF_TIER', 'quick'))
    ap.add_argument('--seed', type=int, default=int(os.environ.get('VERIF_SEED', '20261001')))
    ap.add_argument('--replay', default=None)
    ap.add_argument('--skip-proof', action='store_true')
    args = ap.parse_args(argv)
    tier = 'thorough' if args.tier.startswith('t') else 'quick'
    t0 = time.time()
    pid = cls.pid
    setup_python_env()
    wd = workdir(pid)
    os.chdir(wd)
    chk = cls(args.seed, tier)
    known = load_known(pid)
    lines = []

    def log(*a):
        print(*a, flush=True)

    # ---- 1. proof step
    if args.skip_proof:
        proof = dict(obligations=0, discharged=0, theorems=[], axioms={}, errors=[], forbidden=[], wall_s=0)
        rc_b, out_b = coq_build(['Base/Harness.vo'] + list(chk.build_targets))
        if rc_b != 0:
            log('[%s] build of case-file dependencies failed:\n%s' % (pid, out_b[-2000:]))
    else:
        proof = proof_step(pid, gen=chk.gen_translated, log=log, extra_targets=chk.build_targets)
    log('[%s] proof step: %d/%d theorems re-checked in %.1fs' % (pid, proof['discharged'], proof['obligations'], proof['wall_s']))
    for e in proof['errors']:
        log('[%s] PROOF ERROR: %s' % (pid, e))

    # ---- 2. correspondence
    if args.replay:
        rp = json.load(open(args.replay))
        cases = [rp['case']] if 'case' in rp else []
    else:
        cases = list(chk.corpus()) + list(chk.generate())
    failures, stats, outs = evaluate_cases(chk, cases, log=log)
    for e in stats['coq_errors']:
        log('[%s] COQ CASE ERROR: %s' % (pid, e))
    log('[%s] correspondence: %d cases (%d through Coq), %d distinct non-trivial, %d failures' %
        (pid, stats['evaluations'], stats['coq_cases'], stats['distinct_nontrivial'], len(failures)))

    # ---- 3. verdict
    violations = 0
    known_hit = {}
    real = [f for f in failures if f.kind in ('ok', 'py')]
    soft = [f for f in failures if f.kind == 'agree']
    reported = set()
    for f in real:
        if f.key is not None and f.key in known:
            known_hit.setdefault(f.key, f)
            continue
        sig = (f.kind, f.key, f.detail.split(' (coq term')[0])
        if sig in reported:
            continue
        reported.add(sig)
        path = write_replay(pid, dict(property=pid, kind=f.kind, key=f.key, case=f.case, impl_output=f.out,
                                      detail=f.detail, seed=args.seed, tier=tier))
        lines.append('VIOLATION property=%s replay=%s' % (pid, path))
        violations += 1
    for key, f in known_hit.items():
        lines.append('KNOWN-FINDING: property=%s %s [%s]' % (pid, known[key], key))
    broken = []
    if proof['errors']:
        broken.append('proof: ' + '; '.join(e.split('\n')[0] for e in proof['errors']))
    if soft:
        broken.append('correspondence: %d case(s) where model and implementation disagree' % len(soft))
    if stats['coq_errors']:
        broken.append('correspondence: case files did not evaluate')
    if broken and not violations:
        # the property is no longer shown to hold: search for a concrete failing input
        found = None
        try:
            found = chk.search(broken, budget_s=60 if tier == 'quick' else 600)
        except Exception as e:
            chk.notes.append('search raised %r' % e)
        if found is not None and not (found.key is not None and found.key in known):
            path = write_replay(pid, dict(property=pid, kind=found.kind, key=found.key, case=found.case,
                                          impl_output=found.out, detail=found.detail, seed=args.seed, tier=tier,
                                          found_by='search after: ' + ' | '.join(broken)))
            lines.append('VIOLATION property=%s replay=%s' % (pid, path))
        else:
            first = soft[0] if soft else None
            path = write_replay(pid, dict(property=pid, kind='unproved', broken=broken,
                                          proof_errors=proof['errors'],
                                          first_disagreement=(dict(case=first.case, impl_output=first.out, detail=first.detail)
                                                              if first else None),
                                          coq_errors=stats['coq_errors'], seed=args.seed, tier=tier))
            lines.append('VIOLATION property=%s replay=%s no-failing-input-found' % (pid, path))
        violations += 1

    # ---- 4. evidence
    all_axioms = sorted({a for l in proof['axioms'].values() for a in l})
    trusted = ['Coq 8.16.1 kernel (coqc, full .vo build); vm_compute used, native_compute not used',
               'axioms reported by Print Assumptions: ' + (', '.join(all_axioms) if all_axioms else 'none (closed under the global context)'),
               'hand-written Gallina model tied to /repo by the correspondence check of harness/%s.py (generator, canonicaliser, Coq term printer)' % pid.lower(),
               'numpy/scipy/networkx/CPython as the execution substrate of the implementation side',
               'harness shim numpy.Inf/NINF aliases for the pinned code under numpy 2'] + list(chk.trusted)
    samples = []
    for c, o in list(zip(cases, outs))[:3]:
        samples.append(dict(case=c, impl_output=o))
    ev = dict(property_id=pid, tier=tier, seed=args.seed, level='proof',
              coverage=dict(obligations=proof['obligations'], discharged=proof['discharged'],
                            checker_cmd='cd /verif/coq && bash build.sh Properties/%s.vo && coqc -Q . Elfi Properties/%s.v' % (pid, pid),
                            trusted_base=trusted, theorems=proof['theorems'], axioms_per_theorem=proof['axioms'],
                            evaluations=stats['evaluations'], distinct_nontrivial=stats['distinct_nontrivial'],
                            traces_validated_against_impl=stats['coq_cases'],
                            rule=chk.rule, samples=samples, input_histogram=chk.hist,
                            proof_errors=proof['errors'], notes=chk.notes,
                            known_findings_hit=sorted(known_hit), disagreements=len(soft)),
              assumptions=trusted, wall_s=round(time.time() - t0, 2), violations=violations)
    os.makedirs(os.path.join(VERIF, 'evidence'), exist_ok=True)
    # development runs without the proof step or against another tree never touch the committed evidence
    ev_name = pid + '.json' if not (args.skip_proof or args.replay or os.environ.get('VERIF_SEEDTEST') or os.environ.get('ELFI_REPO', '/repo') != '/repo') else pid + '.dev.json'
    with open(os.path.join(VERIF, 'evidence', ev_name), 'w') as f:
        json.dump(ev, f, indent=1, sort_keys=True, default=jdefault)
    for l in lines:
        print(l, flush=True)
    log('[%s] done in %.1fs: %s' % (pid, time.time() - t0, 'VIOLATION' if violations else 'ok'))
    return 1 if violations else 0
