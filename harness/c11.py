"""C11 — Bayesian optimisation simulates only inside bounds and trains on what it ran:
correspondence with coq/Num/Acq.v, coq/Sched/Bo.v and the generated coq/Gen/C11_Lcbsc.v."""
import math
import numpy as np
from common import *
import translate_c11
from sclient import ScriptedClient


# ----------------------------------------------------------------------------------------------
# environment shim (numpy 2): float(<1-element paramz.Param>), as harness/c10.py does
# ----------------------------------------------------------------------------------------------

def _shim_param_float():
    from paramz import Param

    def _float(self):
        if self.size != 1:
            raise TypeError('only length-1 arrays can be converted to Python scalars')
        return float(np.asarray(self).reshape(-1)[0])
    if getattr(Param, '_c11_shim', False) is False and getattr(Param, '_c10_shim', False) is False:
        Param.__float__ = _float
        Param._c11_shim = True


# ----------------------------------------------------------------------------------------------
# helpers
# ----------------------------------------------------------------------------------------------

class NormalPrior:
    """independent normals, deliberately wider than (and off-centre of) the box"""

    def __init__(self, mean, std):
        self.mean = np.asarray(mean, dtype=float)
        self.std = np.asarray(std, dtype=float)
        self.dim = len(self.mean)

    def rvs(self, size=None, random_state=None):
        rs = random_state or np.random
        if size is None:
            return self.mean + self.std * rs.randn(self.dim)
        return self.mean + self.std * rs.randn(size, self.dim)

    def _rows(self, x):
        return np.asarray(x, dtype=float).reshape(-1, self.dim)

    def logpdf(self, x):
        z = (self._rows(x) - self.mean) / self.std
        return np.sum(-0.5 * z ** 2 - np.log(self.std) - 0.5 * math.log(2 * math.pi), axis=1)

    def pdf(self, x):
        return np.exp(self.logpdf(x))

    def gradient_logpdf(self, x):
        return -(self._rows(x) - self.mean) / self.std ** 2


def crow(r):
    return clist([cq(float(v)) for v in r])


def crows(rs):
    return clist([crow(r) for r in rs])


def cerow(params, y):
    return '(%s, %s)' % (crow(params), cq(float(y)))


def cbox(bounds):
    return clist(['(%s, %s)' % (cq(float(lo)), cq(float(hi))) for lo, hi in bounds])


def cnames(names):
    return clist([cstr(n) for n in names])


def cdict(case):
    """the user's bounds dict as an association list in the key order the user wrote"""
    by_name = dict(zip(case['names'], case['bounds']))
    return clist(['(%s, (%s, %s))' % (cstr(n), cq(float(by_name[n][0])), cq(float(by_name[n][1]))) for n in case['dict_order']])


def user_dict(case):
    """bounds dict handed to the code: keys inserted in case['dict_order'], each name bound to ITS interval"""
    by_name = dict(zip(case['names'], case['bounds']))
    return {n: tuple(by_name[n]) for n in case['dict_order']}


NAME_POOL = ['mu', 'a', 't2', 'b1', 'sigma', 'k', 'z', 'theta', 'Beta', 'x10', 'x9']


def target_fn(rows):
    """the (deterministic) target of the toy model as a function of the simulated parameter rows"""
    return np.log(raw_fn(rows))


def raw_fn(rows):
    rows = np.asarray(rows, dtype=float)
    centre = np.array([0.3, -0.2, 0.1])[:rows.shape[1]]
    return np.sum((rows - centre) ** 2, axis=1) + 0.1


def case_target(case, rows):
    """the toy target in the case's units: yscale * f(rows / xscale), f = log-distance ('log') or distance ('raw')"""
    rows = np.asarray(rows, dtype=float) / case.get('xscale', 1.0)
    base = raw_fn(rows) if case.get('tkind', 'log') == 'raw' else target_fn(rows)
    return case.get('yscale', 1.0) * base


def case_noise(case):
    return 0.05 * case.get('yscale', 1.0)


def make_gp(case, n_ev, seed):
    """surrogate over case['names'] whose bounds dict is written in case['dict_order']; the target is expressed in the
    case's units (yscale, xscale), the first fit optionally with hyper-parameter optimisation (fit_opt)"""
    from elfi.methods.bo.gpy_regression import GPyRegression
    names, bounds = list(case['names']), case['bounds']
    rs = np.random.RandomState(seed)
    gp = GPyRegression(names, bounds=user_dict(case), max_opt_iters=case.get('opt_iters', 5))
    if n_ev:
        X = np.column_stack([rs.uniform(lo, hi, n_ev) for lo, hi in bounds])
        Y = case_target(case, X) + case_noise(case) * rs.randn(n_ev)
        gp.update(X, Y, optimize=bool(case.get('fit_opt', False)))
    return gp


def _f1(v):
    return float(np.asarray(v, dtype=float).reshape(-1)[0])


def fd_probe(gp, evaluate, x, j, width):
    """central differences of evaluate (a function of the point) and of the surrogate's own mean / variance along
    coordinate j, steps 1e-5 and 1e-6 of the box width, and the measured roughness of evaluate near the point
    (largest |second difference| at spacings 1e-7, 2e-7 widths around x, x+h, x-h): a smooth function has none at
    that spacing, what is measured is the rounding noise of the surrogate's outputs"""
    dim = x.shape[1]
    h = 1e-5 * width

    def at(d):
        e = np.zeros((1, dim))
        e[0, j] = d
        return x + e

    def pm(d):
        m, v = gp.predict(at(d), noiseless=True)
        return _f1(m), _f1(v)
    out = dict(h=h)
    for hh, suffix in ((h, ''), (h / 10, '2')):
        out['fd' + suffix] = (_f1(evaluate(at(hh))) - _f1(evaluate(at(-hh)))) / (2 * hh)
        (m1, v1), (m0, v0) = pm(hh), pm(-hh)
        out['sm' + suffix], out['sv' + suffix] = (m1 - m0) / (2 * hh), (v1 - v0) / (2 * hh)
    dl, rough = 1e-7 * width, 0.0
    for c in (h, -h, 0.0):
        fc = _f1(evaluate(at(c)))
        for k in (1, 2):
            rough = max(rough, abs(_f1(evaluate(at(c - k * dl))) - 2 * fc + _f1(evaluate(at(c + k * dl)))))
    out['rough'] = rough
    return out


def fd_verdict(g, gm, gv, beta, mean, var, pr):
    """BoCase.fd_coord in binary64 (for the 'grad' cases, whose Coq record holds one coordinate only):
    'ok' / 'bad' / 'abstain' (the surrogate's own outputs are not self-consistent for either step)"""
    CT, ST, FT = 1e-4, 1e-3, 5e-4
    gscale = abs(gm) + abs(0.5 * gv * math.sqrt(beta / var))
    noise = 4 * pr['rough'] + 1e-14 * (abs(mean) + math.sqrt(beta * var))
    verdict = 'abstain'
    for hh, suffix in ((pr['h'], ''), (pr['h'] / 10, '2')):
        sm, sv, fd = pr['sm' + suffix], pr['sv' + suffix], pr['fd' + suffix]
        if not (abs(gm - sm) <= CT * (abs(gm) + abs(sm)) and abs(gv - sv) <= CT * (abs(gv) + abs(sv)) and abs(hh * gv) <= ST * var):
            continue
        if abs(g - fd) <= FT * (abs(g) + abs(fd)) + FT * gscale + noise / hh:
            return 'ok'
        verdict = 'bad'
    return verdict


def var_decade(var):
    return 'predictive_var=1e%+03d' % int(math.floor(math.log10(var))) if var > 0 else 'predictive_var<=0'


class Spy:
    """records scipy.optimize.minimize results and scipy.stats.truncnorm.rvs calls"""

    def __enter__(self):
        import scipy.optimize
        import scipy.stats as ss
        self.so, self.ss = scipy.optimize, ss
        self.orig_min = scipy.optimize.minimize
        self.locs, self.vals, self.tn = [], [], []
        spy = self

        def minimize(*a, **k):
            res = spy.orig_min(*a, **k)
            spy.locs.append(np.array(res['x'], dtype=float).copy())
            spy.vals.append(float(np.asarray(res['fun']).reshape(-1)[0]))
            return res
        scipy.optimize.minimize = minimize
        self.orig_rvs = ss.truncnorm.rvs

        def rvs(a, b, loc=0, scale=1, size=1, random_state=None):
            out = spy.orig_rvs(a, b, loc=loc, scale=scale, size=size, random_state=random_state)
            spy.tn.append(dict(a=np.array(a, dtype=float).copy(), b=np.array(b, dtype=float).copy(),
                               loc=np.array(loc, dtype=float).copy(), scale=float(scale), out=np.array(out, dtype=float).copy()))
            return out
        ss.truncnorm.rvs = rvs
        return self

    def __exit__(self, *exc):
        self.so.minimize = self.orig_min
        try:
            del self.ss.truncnorm.rvs      # instance attribute shadowing the method
        except AttributeError:
            self.ss.truncnorm.rvs = self.orig_rvs
        return False


SIMLOG = []


SIMCOLS = []        # position of parameter_names[j] among the simulator's positional arguments


def _sim(*args, batch_size=1, random_state=None, meta=None):
    cols = [np.asarray(a, dtype=float).reshape(-1) for a in args]
    rows = np.column_stack([cols[k] for k in SIMCOLS])      # columns in model.parameter_names order
    SIMLOG.append((int(meta['batch_index']), rows.copy()))
    return raw_fn(rows)


def _target_op(y):
    return np.log(y)


def build_model(names, bounds, create_order=None):
    """toy model; the parameter nodes are created (and handed to the simulator) in create_order"""
    import elfi
    m = elfi.ElfiModel()
    by_name = dict(zip(names, bounds))
    create_order = list(create_order or names)
    ps = []
    for n in create_order:
        lo, hi = by_name[n]
        # priors whose support is inside the bounds (initial evidence is sampled from the prior)
        w = hi - lo
        ps.append(elfi.Prior('uniform', lo + 0.1 * w, 0.8 * w, model=m, name=n))
    SIMCOLS[:] = [create_order.index(n) for n in names]
    s = elfi.Simulator(_sim, *ps, model=m, name='sim')
    s.uses_meta = True
    elfi.Operation(_target_op, s, model=m, name='d')
    return m


# ----------------------------------------------------------------------------------------------

class C11(PropCheck):
    pid = 'C11'
    header = ('From Coq Require Import String.\nFrom Coq Require Import List ZArith QArith Bool.\n'
              'From Elfi Require Import Base.Harness Sched.Sched Sched.Bo Num.Acq Sched.BoCase.\nImport ListNotations.\n'
              'Local Close Scope Q_scope.\n')
    case_type = 'BoCase.case'
    preds = (('BoCase.agree', 'agree'), ('BoCase.ok', 'ok'))
    chunk = 20
    case_timeout = 150
    build_targets = ('Sched/BoCase.vo',)
    rule = ('(a) acquire(n, t) of LCBSC / MaxVar / RandMaxVar(metropolis) / ExpIntVar / UniformAcquisition on fitted GPyRegression '
            'surrogates over random 1-3-D boxes (free or pairwise-disjoint intervals) whose bounds dict is written in the order of '
            'parameter_names, reversed or shuffled (parameter names drawn from a pool, in any order), noise None / scalar / per-parameter '
            'dict (own key order) with zeros, priors wider than the box, with the inner optimiser results and the truncated-normal calls '
            'spied; the box of the model and of the predicate is box_of(parameter_names, dict); direct calls of bo.utils.minimize with '
            'bounded and unbounded inner methods; (b) real BayesianOptimization / BOLFI runs under the scripted client (parameter nodes '
            'created in any order, bounds dict / acq_noise_var dict / precomputed-evidence dict in permuted key orders, surrogate given or '
            'built by the method, initial evidence as count / precomputed dict / zero, batch_size 1-3, batches_per_acquisition 1-3, '
            'update_interval 1-100, async on/off, max_parallel 1-4, random is_ready answers, lazy/eager/shuffled execution), every '
            'simulator call, acquire call, prepare_new_batch and surrogate update logged, every LCBSC evaluate/evaluate_gradient call of '
            'the optimiser compared with a freshly constructed LCBSC; (c) values of the translated LCBSC formulas; (d) histories on ONE '
            'LCBSC (+ ONE MaxVar) object over ONE surrogate: queries (value / gradient / both, either order) at 1-3 points (box corners '
            'included) separated by surrogate updates (1-3 rows, anywhere or next to the query point, with/without hyper-parameter '
            'optimisation), optimize() and acquire(n, t) calls, every query compared with the translated formulas on the surrogate\'s '
            'current outputs, with a fresh object and with central differences; (c)+(d) at every scale: three quarters of the gradient and '
            'history surrogates are fitted to the toy target in other units -- target values x 1e-4 ... 1e4 (log-distance or distance), '
            'parameter boxes x 1e-3 ... 1e3, first fit with or without hyper-parameter optimisation (5 or 30 iterations), 4-15 evidence '
            'rows -- so that the noiseless predictive variance at the query points spans 1e-16 ... 1e6 (histogram predictive_var=1e..); '
            'value and gradient must equal the translated formulas at 1e-9 of |mean| + sqrt(beta var) resp. |grad_mean| + |1/2 grad_var '
            'sqrt(beta/var)| per coordinate, with NO absolute term, in agree and in ok; central differences with steps 1e-5 / 1e-6 of the box '
            'width are a second opinion wherever the surrogate is self-consistent (fd_second_opinion=ok/abstain); '
            'non-trivial = acquisition with an optimiser end point or '
            'noise draw that needed the clip/truncation or n > 1, a BO run with >= 1 acquisition and >= 1 "not ready" answer, a history '
            'with a query repeating the previous query\'s point after a surrogate change; distinct by case')
    trusted = ('translator harness/translate_c11.py (Python ast -> Gallina, fail-closed) and the reading "numpy element-wise op on one row/coordinate = scalar op on reals"',
               'oracles, modelled not verified: scipy.optimize.minimize (arbitrary end points), scipy.stats.truncnorm/uniform (range hypothesis stated in Proofs/C11_Acq.v), numpy sqrt, GPy (surrogate mean/variance/gradients), the MCMC kernels (C09)',
               'harness shim paramz.Param.__float__ for 1-element parameters (numpy 2), as in harness/c10.py; no repo change',
               'the scripted client stands for any ClientBase that answers is_ready arbitrarily and computes submitted nets faithfully',
               'finite-difference clauses are a second opinion only (the exact clause is: returned gradient = translated gradient formula on the '
               'surrogate\'s outputs, relative 1e-9, and that formula is proved to be the derivative of the translated value formula): LCBSC in '
               'Coq, BoCase.fd_coord (binary64 replica harness/c11.py fd_verdict for the one-coordinate grad cases): per coordinate, steps h = 1e-5 '
               'and 1e-6 of the box width; a step has an opinion when GPy\'s own mean/variance gradients equal the central differences of its '
               'mean/variance at 1e-4 relative and h |grad_var| <= 1e-3 var; then |g - fd| <= 5e-4 (|g| + |fd| + |grad_mean| + |1/2 grad_var '
               'sqrt(beta/var)|) + (4 x measured roughness of evaluate + 1e-14 (|mean| + sqrt(beta var))) / h; no opinion for either step = pass '
               '(about 13 % of the coordinates: ill-conditioned kernel matrices, query points on an evidence point); observed worst error/tolerance '
               'ratio 0.09 over 9600 comparisons; MaxVar: central differences h=1e-5, 2e-3 relative + 1e-6 |value|, at the unit scale only',
               'histories: the surrogate\'s "current" mean/variance/gradients are read directly from GPyRegression.predict / predictive_gradients '
               '(GPy itself is an oracle); "fresh object" = a new LCBSC / MaxVar (same eps) constructed at the moment of the query')

    def gen_translated(self):
        translate_c11.generate(REPO, COQ)

    # ---- generation ---------------------------------------------------------------------------
    def _box(self, r, dim):
        bs = []
        if dim > 1 and r.random() < 0.5:
            # clearly different intervals per parameter: pairwise disjoint, in a random assignment
            self.bump('box=disjoint')
            lo = r.choice([-4.0, -1.0, 0.0, r.uniform(-5, 0)])
            for _ in range(dim):
                w = r.choice([1.0, 2.0, 0.5, r.uniform(0.3, 3)])
                bs.append([lo, lo + w])
                lo = lo + w + r.choice([0.5, 1.0, 3.0])
            r.shuffle(bs)
            return bs
        self.bump('box=free')
        for _ in range(dim):
            lo = r.choice([-1.0, 0.0, -2.5, 0.25, r.uniform(-3, 2)])
            w = r.choice([1.0, 2.0, 0.5, r.uniform(0.3, 3)])
            bs.append([lo, lo + w])
        return bs

    def _names(self, r, dim, sort=False):
        """dim distinct parameter names (GPyRegression takes them in any order; an ElfiModel sorts them)"""
        names = r.sample(NAME_POOL, dim)
        return sorted(names) if sort else names

    def _order(self, r, names, key='dict_order'):
        """a key order for a dict over the names: as parameter_names, reversed, or shuffled"""
        o = list(names)
        k = r.choice(['same', 'reversed', 'shuffled', 'shuffled'])
        if k == 'reversed':
            o.reverse()
        elif k == 'shuffled':
            r.shuffle(o)
        self.bump('%s=%s' % (key, 'as_parameter_names' if o == list(names) else 'permuted'))
        return o

    def _noise(self, r, dim):
        k = r.choice(['none', 'zero', 'scalar', 'dict', 'dictzero', 'big'])
        if k == 'none':
            return k, None
        if k == 'zero':
            return k, 0
        if k == 'scalar':
            return k, r.choice([0.01, 0.1, 1e-6, 0.5])
        if k == 'big':
            return k, r.choice([4.0, 25.0])
        vals = [r.choice([0.0, 0.02, 0.3]) if k == 'dictzero' else r.choice([0.01, 0.2, 1.0]) for _ in range(dim)]
        if k == 'dictzero':
            vals[r.randrange(dim)] = 0.0
        return k, vals

    YSCALES = [1e-4, 1e-3, 1e-2, 1e-1, 1.0, 1.0, 1e1, 1e2, 1e4]
    XSCALES = [1e-3, 1e-1, 1.0, 1.0, 1e1, 1e3]

    def _scales(self, r, bounds, legacy=False):
        """units of the target and of the parameters: the surrogate's predictive variance goes with yscale**2
        (or, without hyper-parameter optimisation, with GPy's unit default kernel variance), its gradients with 1/xscale"""
        if legacy:
            sc = dict(yscale=1.0, xscale=1.0, tkind='log', fit_opt=False, opt_iters=5, legacy_units=True)
        else:
            sc = dict(yscale=r.choice(self.YSCALES), xscale=r.choice(self.XSCALES), tkind=r.choice(['log', 'raw', 'raw']),
                      fit_opt=r.random() < 0.6, opt_iters=r.choice([5, 5, 30]), legacy_units=False)
        self.bump('yscale=%g' % sc['yscale'])
        self.bump('xscale=%g' % sc['xscale'])
        self.bump('target=%s' % sc['tkind'])
        self.bump('first_fit_optimised=%s' % sc['fit_opt'])
        sc['bounds'] = [[lo * sc['xscale'], hi * sc['xscale']] for lo, hi in bounds]
        return sc

    def generate(self):
        r = self.rng
        quick = self.tier == 'quick'
        n_acq = 50 if quick else 1000
        n_min = 14 if quick else 250
        n_bo = 60 if quick else 1200
        n_grad = 16 if quick else 300
        n_hist = 20 if quick else 360
        n_bad = 6 if quick else 30
        classes = ['lcbsc', 'lcbsc', 'lcbsc', 'maxvar', 'randmaxvar_metropolis', 'randmaxvar_metropolis', 'expintvar', 'uniform',
                   'lcbsc_prior', 'maxvar']   # RandMaxVar(sampler='nuts') dies under numpy 2 (float(1-element array) in mcmc._build_tree_nuts)
        for i in range(n_acq):
            cls = classes[i % len(classes)]
            dim = r.choice([1, 2, 2, 3]) if cls in ('lcbsc', 'lcbsc_prior', 'maxvar', 'uniform') else r.choice([1, 2, 2])
            nk, nz = self._noise(r, dim) if cls.startswith('lcbsc') else ('none', None)
            names = self._names(r, dim)
            case = dict(kind='acq', cls=cls, dim=dim, names=names, bounds=self._box(r, dim), dict_order=self._order(r, names),
                        noise=nz, noise_order=self._order(r, names, 'noise_dict_order') if isinstance(nz, list) else None,
                        n=r.choice([1, 1, 2, 3, 5]),
                        t=r.choice([0, 1, 3, 7]), n_ev=r.choice([4, 6, 9]), seed=r.randrange(2 ** 31),
                        prior_shift=r.choice([-2.0, 0.0, 1.5]), prior_scale=r.choice([1.0, 3.0]))
            self.bump('acq=' + cls)
            self.bump('noise=' + nk)
            self.bump('dim=%d' % dim)
            yield case
        for i in range(n_min):
            dim = r.choice([1, 2])
            names = ['x%d' % j for j in range(dim)]
            case = dict(kind='minimize', dim=dim, names=names, dict_order=names, bounds=self._box(r, dim),
                        method=r.choice(['L-BFGS-B', 'BFGS', 'CG', 'BFGS']),
                        centre=[r.uniform(-6, 6) for _ in range(dim)], prior=r.random() < 0.5, n_start=r.choice([1, 3, 5]),
                        seed=r.randrange(2 ** 31))
            self.bump('minimize=' + case['method'])
            yield case
        for i in range(n_bo):
            dim = r.choice([1, 2])
            b = r.choice([1, 1, 2, 3])
            bpa = r.choice([1, 2, 3])
            form = r.choice(['count', 'count', 'count_odd', 'precomputed', 'zero'])
            if form == 'count':
                init = b * r.choice([1, 2, 3])
            elif form == 'count_odd':
                init = r.choice([1, 2, 3, 4, 5, 7])
            elif form == 'precomputed':
                init = r.choice([2, 3, 5])
            else:
                init = 0
            maxp = r.choice([1, 2, 3, 4])
            n_more = r.choice([3, 4, 6, 8])
            names = self._names(r, dim, sort=True)        # model.parameter_names is alphabetical
            create_order = list(names)
            r.shuffle(create_order)
            acq = r.choice(['uniform', 'uniform', 'uniform', 'lcbsc', 'lcbsc_noise', 'lcbsc_prior', 'default', 'default'])
            case = dict(kind='bo', dim=dim, names=names, create_order=create_order, bounds=self._box(r, dim),
                        dict_order=self._order(r, names), b=b, bpa=bpa, form=form, init=init,
                        n_evidence=max(1, init + n_more + r.choice([0, 1])), upd=r.choice([1, 2, 3, 5, 100, 100]),
                        async_acq=(i % 3 == 2), maxp=maxp, mode=r.choice(['lazy', 'eager', 'shuffle']),
                        oracle=[r.random() < r.choice([0.2, 0.5, 0.8]) for _ in range(200)],
                        acq=acq, tm=(r.choice(['given', 'default']) if acq == 'default' else 'given'),
                        acq_noise=(r.choice(['scalar', 'dict']) if acq == 'default' else 'scalar'),
                        pre_order=self._order(r, names + ['d'], 'precomputed_dict_order') if form == 'precomputed' else None,
                        cls=r.choice(['BayesianOptimization', 'BOLFI']), seed=r.randrange(2 ** 31),
                        via=r.choice(['infer', 'iterate']))
            self.bump('bo_init=' + form)
            self.bump('bo_async=%s' % case['async_acq'])
            self.bump('bo_maxp=%d' % maxp)
            self.bump('bo_acq=' + case['acq'])
            self.bump('bo_target_model=' + case['tm'])
            yield case
        for i in range(n_grad):
            dim = r.choice([1, 2])
            names = self._names(r, dim)
            case = dict(kind='grad', dim=dim, names=names, dict_order=self._order(r, names),
                        n_ev=r.choice([4, 7, 10, 15]), seed=r.randrange(2 ** 31),
                        t=r.choice([0, 1, 4, 20, 50]), u=[r.random() for _ in range(dim)], exploration_rate=r.choice([10, 2, 100]))
            case.update(self._scales(r, self._box(r, dim), legacy=(i % 4 == 0)))
            self.bump('grad')
            yield case
        # ---- histories of calls on ONE acquisition object over ONE surrogate that changes in between
        for i in range(n_hist):
            dim = r.choice([1, 2, 2, 3])
            names = self._names(r, dim)
            npts = r.choice([1, 2, 3])
            pts = [[r.choice([0.0, 1.0, r.random(), r.random()]) for _ in range(dim)] for _ in range(npts)]
            ops, last = [], None
            for _ in range(r.choice([4, 6, 8])):
                # a query, then (mostly) a change of the surrogate, then (mostly) a query at the SAME point
                p = last if (last is not None and r.random() < 0.6) else r.randrange(npts)
                t = r.choice([0, 1, 4, 20])
                ops.append(dict(op='q', p=p, t=t, what=r.choice(['val', 'grad', 'valgrad', 'gradval'])))
                self.bump('hist_query=' + ops[-1]['what'])
                last = p
                ch = r.choice(['update', 'update_opt', 'update_near', 'optimize', 'acquire', 'none', 'update'])
                self.bump('hist_change=' + ch)
                if ch.startswith('update'):
                    ops.append(dict(op='update', k=r.choice([1, 2, 3]), optimize=(ch == 'update_opt'), near=(p if ch == 'update_near' else None),
                                    seed=r.randrange(2 ** 31)))
                elif ch == 'optimize':
                    ops.append(dict(op='optimize'))
                elif ch == 'acquire':
                    ops.append(dict(op='acquire', n=r.choice([1, 2, 3]), t=r.choice([0, 2, 5])))
            ops.append(dict(op='q', p=last, t=r.choice([0, 1, 4]), what=r.choice(['val', 'grad', 'valgrad', 'gradval'])))
            nk, nz = self._noise(r, dim)
            case = dict(kind='hist', dim=dim, names=names, dict_order=self._order(r, names),
                        n_ev=r.choice([4, 7, 10, 15]), seed=r.randrange(2 ** 31), exploration_rate=r.choice([10, 2, 100]),
                        noise=nz, noise_order=self._order(r, names, 'noise_dict_order') if isinstance(nz, list) else None,
                        pts=pts, ops=ops)
            case.update(self._scales(r, self._box(r, dim), legacy=(i % 4 == 0)))
            self.bump('hist')
            self.bump('dim=%d' % dim)
            yield case
        # ---- malformed stream: must be refused
        bad = ['noise_dict_missing', 'noise_negative', 'noise_dict_negative', 'noise_bad_type', 'init_negative', 'randmaxvar_n_too_big']
        for i in range(n_bad):
            self.bump('malformed')
            yield dict(kind='bad', what=bad[i % len(bad)], seed=r.randrange(2 ** 31))

    # ---- implementation drivers -----------------------------------------------------------------
    def run_impl(self, case):
        _shim_param_float()
        return getattr(self, '_run_' + case['kind'])(case)

    def _prior(self, case, bounds):
        mid = np.array([(lo + hi) / 2 for lo, hi in bounds])
        w = np.array([hi - lo for lo, hi in bounds])
        return NormalPrior(mid + case.get('prior_shift', 0.0) * w, case.get('prior_scale', 3.0) * w)

    @staticmethod
    def _noise_arg(case):
        """noise_var as the user writes it: None / scalar / dict whose keys come in case['noise_order']"""
        nz = case['noise']
        if isinstance(nz, list):
            by_name = dict(zip(case['names'], nz))
            return {n: by_name[n] for n in case['noise_order']}
        return nz

    def _run_acq(self, case):
        import elfi.methods.bo.acquisition as A
        bounds = case['bounds']
        dim = case['dim']
        gp = make_gp(case, case['n_ev'], case['seed'])
        names = gp.parameter_names
        prior = self._prior(case, bounds)
        cls = case['cls']
        nz = case['noise']
        kw = dict(n_inits=3, max_opt_iters=30, seed=case['seed'] % 1000)
        if cls in ('lcbsc', 'lcbsc_prior'):
            noise_var = self._noise_arg(case)
            m = A.LCBSC(gp, prior=(prior if cls == 'lcbsc_prior' else None), noise_var=noise_var, **kw)
        elif cls == 'maxvar':
            m = A.MaxVar(gp, prior, quantile_eps=0.2, **kw)
        elif cls.startswith('randmaxvar'):
            m = A.RandMaxVar(gp, prior, quantile_eps=0.2, sampler=cls.split('_')[1], n_samples=12, warmup=4,
                             init_from_prior=(case['seed'] % 2 == 0), **kw)
        elif cls == 'expintvar':
            m = A.ExpIntVar(gp, prior, quantile_eps=0.2, integration='grid', d_grid=max(0.26, 0.26 * max(hi - lo for lo, hi in bounds)), **kw)
        else:
            m = A.UniformAcquisition(gp, seed=case['seed'] % 1000)
        with Spy() as spy:
            out = np.array(m.acquire(case['n'], t=case['t']), dtype=float)
        return dict(out=out.tolist(), shape=list(out.shape), locs=[l.tolist() for l in spy.locs], vals=spy.vals,
                    mbounds=[[float(b[0]), float(b[1])] for b in gp.bounds],
                    tn=[dict(a=np.broadcast_to(c['a'], c['out'].shape).tolist(), b=np.broadcast_to(c['b'], c['out'].shape).tolist(),
                             scale=c['scale'], out=c['out'].tolist()) for c in spy.tn])

    def _run_minimize(self, case):
        from elfi.methods.bo.utils import minimize
        centre = np.array(case['centre'])

        def fun(x):
            return float(np.sum((np.asarray(x).reshape(-1) - centre) ** 2))

        def grad(x):
            return 2 * (np.asarray(x).reshape(-1) - centre)
        prior = self._prior(case, case['bounds']) if case['prior'] else None
        with Spy() as spy:
            loc, val = minimize(fun, [tuple(b) for b in case['bounds']], method=case['method'], grad=grad, prior=prior,
                                n_start_points=case['n_start'], maxiter=50, random_state=np.random.RandomState(case['seed'] % 1000))
        return dict(out=[np.asarray(loc, dtype=float).tolist()], shape=[1, case['dim']], locs=[l.tolist() for l in spy.locs],
                    vals=spy.vals, tn=[], val=float(val), mbounds=[[float(lo), float(hi)] for lo, hi in case['bounds']])

    def _bo_once(self, case, client, maxp, record):
        import elfi
        from elfi.methods.bo.gpy_regression import GPyRegression
        import elfi.methods.bo.acquisition as A
        elfi.set_client(client)
        dim, bounds = case['dim'], case['bounds']
        names = list(case['names'])
        m = build_model(names, bounds, case['create_order'])
        assert m.parameter_names == names, (m.parameter_names, names)
        bdict = user_dict(case)
        rs = np.random.RandomState(case['seed'] % 100000)
        init = case['init']
        pre_rows = []
        if case['form'] == 'precomputed':
            X = np.column_stack([rs.uniform(lo, hi, init) for lo, hi in bounds])
            Y = target_fn(X)
            cols = {n: X[:, j].copy() for j, n in enumerate(names)}
            cols['d'] = Y.copy()
            init_arg = {n: cols[n] for n in case['pre_order']}
            pre_rows = [(X[i].tolist(), float(Y[i])) for i in range(init)]
        else:
            init_arg = init
        # the surrogate is either built here from (parameter_names, the user's dict) or left to the method
        tm = GPyRegression(names, bounds=bdict, max_opt_iters=4) if case['tm'] == 'given' else None
        kw = dict(n_inits=2, max_opt_iters=15, seed=case['seed'] % 1000)
        acq = None
        if case['acq'] == 'uniform':
            acq = A.UniformAcquisition(tm, seed=case['seed'] % 1000)
        elif case['acq'] == 'lcbsc':
            acq = A.LCBSC(tm, noise_var=0, **kw)
        elif case['acq'] == 'lcbsc_noise':
            acq = A.LCBSC(tm, noise_var=0.05, **kw)
        elif case['acq'] == 'lcbsc_prior':
            # start points drawn from a prior much wider than the box are clipped onto its faces and recur
            acq = A.LCBSC(tm, noise_var=0.02, prior=self._prior(dict(prior_shift=0.0, prior_scale=4.0), bounds), **kw)
        if case['acq_noise'] == 'dict':
            acq_noise = {n: v for n, v in zip(reversed(names), [0.01, 0.0, 0.2])}
        else:
            acq_noise = 0.01
        cls = getattr(elfi, case['cls'])
        SIMLOG.clear()
        bo = cls(m, 'd', bounds=bdict, initial_evidence=init_arg, update_interval=case['upd'], target_model=tm,
                 acquisition_method=acq, acq_noise_var=acq_noise, batch_size=case['b'], batches_per_acquisition=case['bpa'],
                 async_acq=case['async_acq'], max_parallel_batches=maxp, seed=case['seed'] % 100000)
        if hasattr(client, 'handler'):
            client.handler = bo.batches
        if case['tm'] == 'default':
            bo.target_model.max_opt_iters = 4
        if case['acq'] == 'default':
            bo.acquisition_method.n_inits = 2
            bo.acquisition_method.max_opt_iters = 15
        acqlog, optlog, supplied = [], [], {}
        stale = dict(calls=0, bad=0, first=None)
        if record and isinstance(bo.acquisition_method, A.LCBSC):
            # every value / gradient the optimiser is given during the run must be the one of the CURRENT surrogate
            am = bo.acquisition_method

            def _wrap(name):
                orig = getattr(am, name)

                def f(x, t=None):
                    got = orig(x, t)
                    # a freshly constructed object has no history: its answer is the definition on the surrogate as it is now
                    ref = getattr(A.LCBSC(am.model, exploration_rate=am.exploration_rate, seed=0), name)
                    exp = ref(np.array(x, dtype=float, copy=True), t)
                    stale['calls'] += 1
                    g, e = np.asarray(got, dtype=float).reshape(-1), np.asarray(exp, dtype=float).reshape(-1)
                    # (a degenerate surrogate answers nan to both objects: the same answer, not a stale one)
                    if np.any(np.isnan(e)):
                        stale['nan'] = stale.get('nan', 0) + 1
                    if g.shape != e.shape or not np.all((np.abs(g - e) <= 1e-9 * (1 + np.abs(e))) | (np.isnan(g) & np.isnan(e))):
                        stale['bad'] += 1
                        if stale['first'] is None:
                            stale['first'] = dict(method=name, x=np.asarray(x, dtype=float).reshape(-1).tolist(), t=t,
                                                  got=g.tolist(), current=e.tolist(), n_evidence=int(am.model.n_evidence))
                    return got
                setattr(am, name, f)
            _wrap('evaluate')
            _wrap('evaluate_gradient')
        if record:
            orig_acquire = bo.acquisition_method.acquire

            def acquire(n, t=None):
                idx, cnt = bo.batches.next_index, bo.target_model.n_evidence
                x = orig_acquire(n, t=t)
                acqlog.append(dict(i=int(idx), n=int(n), t=int(t), cnt=int(cnt), x=np.array(x, dtype=float).tolist(),
                                   shape=list(np.shape(x))))
                return x
            bo.acquisition_method.acquire = acquire
            orig_update = bo.target_model.update

            def update(x, y, optimize=False):
                optlog.append(bool(optimize))
                return orig_update(x, y, optimize)
            bo.target_model.update = update
            orig_prepare = bo.prepare_new_batch

            def prepare(batch_index):
                bt = orig_prepare(batch_index)
                supplied[int(batch_index)] = None if bt is None else np.column_stack(
                    [np.asarray(bt[n], dtype=float).reshape(-1) for n in names]).tolist()
                return bt
            bo.prepare_new_batch = prepare
        N = case['n_evidence']
        if case['via'] == 'infer':
            bo.extract_result = lambda: None       # the differential-evolution search over the fitted mean is not part of C11
            if case['cls'] == 'BOLFI':
                bo.infer(N, bar=False)
            else:
                bo.infer(n_evidence=N, bar=False)
        else:
            bo.set_objective(N)
            while not bo.finished:
                bo.iterate()
            bo.batches.cancel_pending()
        gp = bo.target_model
        X = np.array(gp.X, dtype=float) if gp.n_evidence else np.zeros((0, dim))
        Y = np.array(gp.Y, dtype=float).reshape(-1) if gp.n_evidence else np.zeros(0)
        sim = {}
        for bi, rows in SIMLOG:
            sim[bi] = rows
        return dict(X=X.tolist(), Y=Y.tolist(), n_evidence=int(bo.state['n_evidence']), n_batches=int(bo.state['n_batches']),
                    last_gp=int(bo.state['last_GP_update']), n_init=int(bo.n_initial_evidence), n_pre=int(bo.n_precomputed_evidence),
                    bpa=int(bo.batches_per_acquisition), acqlog=acqlog, optlog=optlog,
                    supplied=[[k, supplied[k]] for k in sorted(supplied)], pre=pre_rows,
                    sim=[[k, sim[k].tolist()] for k in sorted(sim)], n_sim_calls=len(SIMLOG),
                    gp_n=int(gp.n_evidence), queue_left=len(bo.state['acquisition']),
                    mbounds=[[float(b[0]), float(b[1])] for b in gp.bounds], tm_names=list(gp.parameter_names), stale=stale)

    def _run_bo(self, case):
        import elfi
        import elfi.clients.native as native
        try:
            client = ScriptedClient(oracle=case['oracle'], mode=case['mode'], num_cores=2, seed=case['seed'])
            got = self._bo_once(case, client, case['maxp'], True)
            ref = None
            if not case['async_acq']:
                ref = self._bo_once(case, ScriptedClient(oracle=[], mode='lazy', num_cores=1, seed=0), 1, False)
        finally:
            elfi.set_client(native.Client())
        events = []
        for e in client.events:
            if e[0] == 'submit':
                events.append('(ESubmit %s)' % cnat(e[2]))
            elif e[0] == 'ask':
                events.append('(EAsk %s %s)' % (cnat(e[2]), cbool(e[3])))
            elif e[0] == 'get':
                events.append('(EGet %s)' % cnat(e[2]))
            elif e[0] == 'remove':
                events.append('(ECancel %s)' % cnat(e[2]))
        got['events'] = events
        got['answers'] = [bool(e[3]) for e in client.events if e[0] == 'ask']
        got['leftover'] = client.leftover()
        got['problems'] = client.problems
        got['same_as_sequential'] = None if ref is None else (ref['X'] == got['X'] and ref['Y'] == got['Y'])
        got['ref_X'] = None if ref is None else ref['X']
        return got

    def _run_grad(self, case):
        import elfi.methods.bo.acquisition as A
        bounds, dim = case['bounds'], case['dim']
        gp = make_gp(case, case['n_ev'], case['seed'])
        x = np.array([[lo + u * (hi - lo) for (lo, hi), u in zip(bounds, case['u'])]])
        lc = A.LCBSC(gp, exploration_rate=case['exploration_rate'], seed=1)
        t = case['t']
        beta = float(lc._beta(t))
        mean, var = gp.predict(x, noiseless=True)
        gm, gv = gp.predictive_gradients(x)
        val = float(np.asarray(lc.evaluate(x, t)).reshape(-1)[0])
        grad = np.asarray(lc.evaluate_gradient(x, t), dtype=float).reshape(-1)
        mean, var = float(np.asarray(mean).reshape(-1)[0]), float(np.asarray(var).reshape(-1)[0])
        gm, gv = np.asarray(gm, dtype=float).reshape(-1), np.asarray(gv, dtype=float).reshape(-1)
        self.bump(var_decade(var))
        # second opinion: central differences, steps relative to the box, see fd_verdict
        probes = [fd_probe(gp, lambda z: lc.evaluate(z, t), x, j, bounds[j][1] - bounds[j][0]) for j in range(dim)]
        verdicts = [fd_verdict(grad[j], gm[j], gv[j], beta, mean, var, probes[j]) if var > 0 and beta > 0 else 'abstain'
                    for j in range(dim)]
        for v in verdicts:
            self.bump('fd_second_opinion=' + v)
        out = dict(beta=beta, mean=mean, var=var, gm=gm.tolist(), gv=gv.tolist(), val=val, grad=grad.tolist(),
                   fd_lcb=[p_['fd'] for p_ in probes], fd_probes=probes, fd_verdicts=verdicts,
                   sqrt=[[beta * var, float(np.sqrt(beta * var))], [beta / var, float(np.sqrt(beta / var))]])
        if case.get('legacy_units', True):
            # MaxVar: sampled in the wave-1 setting only (log target of order one, unit box scale, no first optimisation: its tolerance is not scale-free)
            h = 1e-5

            def fd(f):
                g = []
                for j in range(dim):
                    e = np.zeros((1, dim))
                    e[0, j] = h
                    g.append((float(np.asarray(f(x + e)).reshape(-1)[0]) - float(np.asarray(f(x - e)).reshape(-1)[0])) / (2 * h))
                return g
            prior = self._prior(dict(prior_shift=0.3, prior_scale=1.0), bounds)
            mv = A.MaxVar(gp, prior, quantile_eps=0.3, seed=1)
            mv.eps = float(np.percentile(gp.Y, 30))
            out.update(mv_grad=np.asarray(mv.evaluate_gradient(x), dtype=float).reshape(-1).tolist(), fd_mv=fd(lambda z: mv.evaluate(z)),
                       mv_val=float(np.asarray(mv.evaluate(x)).reshape(-1)[0]))
        return out

    def _run_hist(self, case):
        """ONE LCBSC (and ONE MaxVar) object over ONE surrogate; between the queries the surrogate gets new evidence,
        new hyper-parameters, or the object itself is asked to acquire.  Per query: what the surrogate says NOW
        (asked directly), what the long-lived object answers, what a freshly constructed object answers."""
        import elfi.methods.bo.acquisition as A
        bounds, dim = case['bounds'], case['dim']
        gp = make_gp(case, case['n_ev'], case['seed'])
        er = case['exploration_rate']
        lc = A.LCBSC(gp, exploration_rate=er, noise_var=self._noise_arg(case), n_inits=2, max_opt_iters=10, seed=case['seed'] % 1000)
        prior = self._prior(dict(prior_shift=0.3, prior_scale=1.0), bounds)
        mv = A.MaxVar(gp, prior, quantile_eps=0.3, seed=1)
        mv.eps = float(np.percentile(gp.Y, 30))
        pts = [np.array([[lo + u * (hi - lo) for (lo, hi), u in zip(bounds, p)]]) for p in case['pts']]
        steps, acqs = [], []

        def f1(v):
            return float(np.asarray(v, dtype=float).reshape(-1)[0])

        def vec(v):
            return np.asarray(v, dtype=float).reshape(-1).tolist()
        for op in case['ops']:
            if op['op'] == 'update':
                rs = np.random.RandomState(op['seed'])
                k = op['k']
                if op['near'] is None:
                    X = np.column_stack([rs.uniform(lo, hi, k) for lo, hi in bounds])
                else:
                    w = np.array([hi - lo for lo, hi in bounds])
                    X = pts[op['near']] + 0.05 * w * rs.randn(k, dim)
                    X = np.column_stack([np.clip(X[:, j], *bounds[j]) for j in range(dim)])
                Y = case_target(case, X) + case_noise(case) * rs.randn(k)
                gp.update(X, Y, optimize=op['optimize'])
            elif op['op'] == 'optimize':
                gp.optimize()
            elif op['op'] == 'acquire':
                out = np.array(lc.acquire(op['n'], t=op['t']), dtype=float)
                acqs.append(dict(n=op['n'], shape=list(out.shape), out=out.tolist()))
            else:
                x, t = pts[op['p']], op['t']
                beta = float(lc._beta(t))
                mean, var = gp.predict(x.copy(), noiseless=True)
                gm, gv = gp.predictive_gradients(x.copy())
                mean, var = f1(mean), f1(var)
                val = grad = mval = mgrad = None
                for w in (('val', 'grad') if op['what'] == 'valgrad' else ('grad', 'val') if op['what'] == 'gradval' else (op['what'],)):
                    if w == 'val':
                        val = f1(lc.evaluate(x.copy(), t))
                        mval = f1(mv.evaluate(x.copy()))
                    else:
                        grad = vec(lc.evaluate_gradient(x.copy(), t))
                        mgrad = vec(mv.evaluate_gradient(x.copy()))
                fresh = A.LCBSC(gp, exploration_rate=er, seed=1)
                fval = f1(fresh.evaluate(x.copy(), t))
                fgrad = vec(fresh.evaluate_gradient(x.copy(), t))
                self.bump(var_decade(var))
                probes = [fd_probe(gp, lambda z: A.LCBSC(gp, exploration_rate=er, seed=1).evaluate(z, t), x, j,
                                   bounds[j][1] - bounds[j][0]) for j in range(dim)]
                fd, fd2 = [p_['fd'] for p_ in probes], [p_['fd2'] for p_ in probes]
                if var > 0 and beta > 0:
                    for j in range(dim):
                        self.bump('fd_second_opinion=' + fd_verdict(fgrad[j], vec(gm)[j], vec(gv)[j], beta, mean, var, probes[j]))
                mfresh = A.MaxVar(gp, prior, quantile_eps=0.3, seed=1)
                mfresh.eps = mv.eps
                steps.append(dict(p=op['p'], t=t, beta=beta, mean=mean, var=var, gm=vec(gm), gv=vec(gv), val=val, grad=grad,
                                  fval=fval, fgrad=fgrad, fd=fd, fd2=fd2, probes=probes, n_evidence=int(gp.n_evidence),
                                  sqrt=[[beta * var, float(np.sqrt(beta * var))], [beta / var, float(np.sqrt(beta / var))]],
                                  mval=mval, mgrad=mgrad, mfval=f1(mfresh.evaluate(x.copy())), mfgrad=vec(mfresh.evaluate_gradient(x.copy()))))
        return dict(steps=steps, acqs=acqs, mbounds=[[float(b[0]), float(b[1])] for b in gp.bounds])

    def _run_bad(self, case):
        import elfi
        import elfi.methods.bo.acquisition as A
        gp = make_gp(dict(names=['t1', 't2'], bounds=[[0, 1], [0, 1]], dict_order=['t1', 't2']), 4, case['seed'])
        w = case['what']
        try:
            if w == 'noise_dict_missing':
                A.LCBSC(gp, noise_var={'t1': 0.1})
            elif w == 'noise_negative':
                A.LCBSC(gp, noise_var=-0.1)
            elif w == 'noise_dict_negative':
                A.LCBSC(gp, noise_var={'t1': 0.1, 't2': -1.0})
            elif w == 'noise_bad_type':
                A.LCBSC(gp, noise_var=[0.1, 0.1])
            elif w == 'init_negative':
                m = build_model(['t1'], [[0, 1]])
                elfi.BayesianOptimization(m, 'd', bounds={'t1': (0, 1)}, initial_evidence=-1)
            elif w == 'randmaxvar_n_too_big':
                A.RandMaxVar(gp, NormalPrior([0.5, 0.5], [1, 1]), sampler='metropolis', n_samples=5).acquire(6)
            return dict(refused=False)
        except ValueError as e:
            return dict(refused=True, msg=str(e)[:100])

    # ---- python-side clauses ----------------------------------------------------------------------
    def py_check(self, case, out):
        f = []
        k = case['kind']
        if k in ('acq', 'minimize'):
            if out['shape'] != [case.get('n', 1), case['dim']]:
                f.append(('acquire_shape', 'acquire(n) did not return an array of shape (n, input_dim) (see impl_output.shape)'))
            for row in out['out']:
                for (lo, hi), v in zip(case['bounds'], row):
                    if not (lo <= v <= hi):
                        f.append(('point_in_bounds', 'a point returned by %s lies outside the bounds (see impl_output.out)'
                                  % case.get('cls', 'minimize')))
                        break
                else:
                    continue
                break
        elif k == 'hist':
            def same(a, b):
                # the same computation on the same surrogate: relative 1e-9, no absolute term (any scale of the target)
                a, b = np.asarray(a, dtype=float).reshape(-1), np.asarray(b, dtype=float).reshape(-1)
                return a.shape == b.shape and bool(np.all((np.abs(a - b) <= 1e-9 * np.maximum(np.abs(a), np.abs(b))) | (np.isnan(a) & np.isnan(b))))
            for i, st in enumerate(out['steps']):
                if (st['val'] is not None and not same(st['val'], st['fval'])) or (st['grad'] is not None and not same(st['grad'], st['fgrad'])):
                    f.append(('lcbsc_history_independent', 'query %d (point %d, %d evidence rows): the LCBSC object that was queried before the '
                              'surrogate changed answers differently from a freshly constructed LCBSC on the same surrogate '
                              '(see impl_output.steps[%d]: val/fval, grad/fgrad)' % (i, st['p'], st['n_evidence'], i)))
                    break
            for i, st in enumerate(out['steps']):
                if (st['mval'] is not None and not same(st['mval'], st['mfval'])) or (st['mgrad'] is not None and not same(st['mgrad'], st['mfgrad'])):
                    f.append(('maxvar_history_independent', 'query %d: the long-lived MaxVar object answers differently from a freshly '
                              'constructed MaxVar (same eps) on the same surrogate (see impl_output.steps[%d]: mval/mfval, mgrad/mfgrad)' % (i, i)))
                    break
            for a in out['acqs']:
                if a['shape'] != [a['n'], case['dim']] or not all(all(lo <= v <= hi for (lo, hi), v in zip(case['bounds'], row)) for row in a['out']):
                    f.append(('history_acquire_in_bounds', 'an acquire call made after the surrogate changed returned a wrong number of points '
                              'or a point outside the user bounds (see impl_output.acqs)'))
                    break
        elif k == 'bo':
            if out['stale']['bad']:
                f.append(('bo_acquisition_on_current_surrogate', '%d of %d LCBSC evaluate/evaluate_gradient calls made by the optimiser during the '
                          'run differ from a freshly constructed LCBSC on the surrogate as it was at the call (see impl_output.stale.first)'
                          % (out['stale']['bad'], out['stale']['calls'])))
            if out['tm_names'] != list(case['names']):
                f.append(('target_model_names', 'target_model.parameter_names differ from model.parameter_names'))
            if out['leftover']:
                f.append(('no_task_left', 'tasks left in the client after the inference returned'))
            if out['problems']:
                f.append(('client_protocol', '; '.join(out['problems'][:2])))
            if out['same_as_sequential'] is False:
                f.append(('sync_schedule_independent', 'async_acq=False but the fitted evidence under this schedule differs from the sequential run'))
            for bi, rows in out['sim']:
                for row in rows:
                    if not all(lo <= v <= hi for (lo, hi), v in zip(case['bounds'], row)):
                        f.append(('simulated_in_bounds', 'a batch was simulated at a parameter row outside the bounds (see impl_output.sim)'))
                        break
                else:
                    continue
                break
            b = case['b']
            exp_init = case['init'] if case['form'] in ('precomputed', 'zero') else int(math.ceil(case['init'] / b) * b)
            if out['n_init'] != exp_init:
                f.append(('initial_evidence_resolution', 'n_initial_evidence is not the requested count rounded up to whole batches'))
            if out['gp_n'] != len(out['X']):
                f.append(('n_evidence_property', 'target_model.n_evidence differs from the number of rows of X'))
        elif k == 'grad':
            if 'bad' in out['fd_verdicts']:
                f.append(('lcbsc_gradient_fd', 'LCBSC.evaluate_gradient differs from central finite differences of LCBSC.evaluate at a point '
                          'where the surrogate\'s own gradients match the differences of its mean and variance (see impl_output.fd_probes, '
                          'fd_verdicts; rule: BoCase.fd_coord)'))
            if 'mv_val' in out:
                scale = max(1e-300, abs(out['mv_val']))
                if not all(abs(a - b) <= 2e-3 * max(abs(a), abs(b)) + 1e-6 * scale + 1e-12 for a, b in zip(out['mv_grad'], out['fd_mv'])):
                    f.append(('maxvar_gradient_fd', 'MaxVar.evaluate_gradient differs from central finite differences of MaxVar.evaluate'))
        elif k == 'bad':
            if not out['refused']:
                f.append(('malformed_refused', 'malformed configuration %s was accepted' % case['what']))
        return f

    def classify(self, case, out, clause):
        return None

    def nontrivial(self, case, out):
        k = case['kind']
        if k in ('acq', 'minimize'):
            clipped = any(not all(lo <= v <= hi for (lo, hi), v in zip(case['bounds'], l)) for l in out['locs'])
            noisy = any(t['out'] for t in out['tn'])
            if not (clipped or noisy or case.get('n', 1) > 1):
                return None
        elif k == 'bo':
            if not out['acqlog'] or all(out['answers']):
                return None
        elif k == 'hist':
            # some query repeats the previous query's point on a surrogate that has more evidence or was re-optimised
            qs = [o for o in case['ops'] if o['op'] != 'acquire']
            if not any(a['op'] == 'q' and b['op'] != 'q' and c['op'] == 'q' and a['p'] == c['p'] for a, b, c in zip(qs, qs[1:], qs[2:])):
                return None
        elif k == 'bad':
            return None
        return json.dumps(case, sort_keys=True)

    # ---- Coq terms --------------------------------------------------------------------------------
    def to_coq(self, case, out):
        k = case['kind']
        if k in ('acq', 'minimize'):
            if len(out['shape']) != 2:
                return None
            cls = case.get('cls', 'minimize')
            dim = case['dim']
            nz = case.get('noise')
            if cls.startswith('lcbsc') or cls == 'minimize':
                if nz is None:
                    noise = 'NoNoise'
                elif isinstance(nz, list):
                    noise = '(PerParam %s)' % clist([cq(v) for v in nz])
                else:
                    noise = '(Scalar %s)' % cq(nz)
                kind = '(KBase %s)' % noise
            elif cls in ('maxvar', 'expintvar'):
                kind = 'KTiled'
            elif cls == 'uniform':
                kind = 'KUniform'
            else:
                kind = 'KSampled'
            varlist = [] if nz is None else (nz if isinstance(nz, list) else [nz] * dim)
            sq = clist(['(%s, %s)' % (cq(v), cq(float(np.sqrt(v)))) for v in sorted(set(float(v) for v in varlist))])
            tn_cols, ab_cols = [], []
            calls = list(out['tn'])
            for i in range(dim):
                std = float(np.sqrt(varlist[i])) if i < len(varlist) else 0.0
                if std != 0 and calls:
                    c = calls.pop(0)
                    tn_cols.append(clist([cq(v) for v in c['out']]))
                    ab_cols.append(clist(['(%s, %s)' % (cq(a), cq(b)) for a, b in zip(c['a'], c['b'])]))
                else:
                    tn_cols.append('[]')
                    ab_cols.append('[]')
            if calls:
                return None   # more sampler calls than noisy columns: left to the python clauses (cannot happen for the coded loop)
            uni = crows(out['out']) if cls == 'uniform' else '[]'
            return ('(CAcq {| a_kind := %s; a_names := %s; a_dict := %s; a_mbounds := %s; a_n := %s; a_locs := %s; a_vals := %s; a_sqrt := %s; a_tn := %s; '
                    'a_tn_ab := %s; a_uni := %s; a_out := %s |})'
                    % (kind, cnames(case['names']), cdict(case), cbox(out['mbounds']), cnat(case.get('n', 1)), crows(out['locs']), clist([cq(v) for v in out['vals']]),
                       sq, clist(tn_cols), clist(ab_cols), uni, crows(out['out'])))
        if k == 'bo':
            cfg = ('{| c_b := %s; c_bpa := %s; c_ninit := %s; c_npre := %s; c_upd := %s; c_async := %s; c_nev := %s |}'
                   % (cnat(case['b']), cnat(out['bpa']), cz(out['n_init']), cz(out['n_pre']), cz(case['upd']),
                      cbool(case['async_acq']), cz(case['n_evidence'])))
            sim = dict((bi, rows) for bi, rows in out['sim'])
            nbt = max(sim) + 1 if sim else 0
            batches = []
            for bi in range(nbt):
                rows = sim.get(bi, [])
                ys = target_fn(rows) if rows else []
                batches.append(clist([cerow(r, y) for r, y in zip(rows, ys)]))
            sup = clist(['(%s, %s)' % (cnat(i), 'None' if rows is None else '(Some %s)' % crows(rows)) for i, rows in out['supplied']])
            alog = clist(['(%s, %s, %s, %s)' % (cnat(a['i']), cnat(a['n']), cz(a['t']), cnat(a['cnt'])) for a in out['acqlog']])
            return ('(CBo {| k_cfg := %s; k_maxp := %s; k_names := %s; k_dict := %s; k_mbounds := %s; k_pre := %s; k_oracle := %s; k_acq_tab := %s; k_batches := %s; '
                    'k_trace := %s; k_X := %s; k_nev := %s; k_nbatches := %s; k_lastgp := %s; k_acqlog := %s; k_optlog := %s; '
                    'k_supplied := %s |})'
                    % (cfg, cnat(case['maxp']), cnames(case['names']), cdict(case), cbox(out['mbounds']),
                       clist([cerow(p, y) for p, y in out['pre']]),
                       clist([cbool(a) for a in out['answers']]), clist([crows(a['x']) for a in out['acqlog']]), clist(batches),
                       clist(out['events']), clist([cerow(x, y) for x, y in zip(out['X'], out['Y'])]), cz(out['n_evidence']),
                       cnat(out['n_batches']), cz(out['last_gp']), alog, clist([cbool(o) for o in out['optlog']]), sup))
        if k == 'grad':
            if not np.all(np.isfinite(np.array([out['mean'], out['var']] + list(out['gm']) + list(out['gv']), dtype=float))):
                self.bump('grad_surrogate_nonfinite_skipped')
                return None
            terms = []
            for j in range(case['dim']):
                terms.append('(CGrad {| g_beta := %s; g_mean := %s; g_var := %s; g_gmean := %s; g_gvar := %s; g_sqrt := %s; '
                             'g_val := %s; g_grad := %s |})'
                             % (cq(out['beta']), cq(out['mean']), cq(out['var']), cq(out['gm'][j]), cq(out['gv'][j]),
                                clist(['(%s, %s)' % (cq(a), cq(b)) for a, b in out['sqrt']]), cq(out['val']), cq(out['grad'][j])))
            return terms[case['seed'] % len(terms)]
        if k == 'hist':
            if any(len(a['shape']) != 2 for a in out['acqs']):
                return None
            steps = []
            for st in out['steps']:
                if not np.all(np.isfinite(np.array([st['mean'], st['var']] + list(st['gm']) + list(st['gv']), dtype=float))):
                    # GPy's own predict / predictive_gradients answered nan or inf (a degenerate hyperparameter fit after
                    # update(optimize=True)): the surrogate gives the acquisition nothing to differentiate, the step is
                    # outside what the gradient clause quantifies over (the python clauses still compare the stale and the
                    # fresh object on it, nan with nan)
                    self.bump('hist_step_surrogate_nonfinite_skipped')
                    continue
                steps.append('{| h_beta := %s; h_mean := %s; h_var := %s; h_gmean := %s; h_gvar := %s; h_sqrt := %s; h_val := %s; '
                             'h_grad := %s; h_fval := %s; h_fgrad := %s; h_fd := %s; h_fd2 := %s; h_aux := %s |}'
                             % (cq(st['beta']), cq(st['mean']), cq(st['var']), crow(st['gm']), crow(st['gv']),
                                clist(['(%s, %s)' % (cq(a), cq(b)) for a, b in st['sqrt']]),
                                copt(st['val'], cq), copt(st['grad'], crow), cq(st['fval']), crow(st['fgrad']), crow(st['fd']), crow(st['fd2']),
                                clist(['{| x_h := %s; x_rough := %s; x_sm := %s; x_sv := %s; x_sm2 := %s; x_sv2 := %s |}'
                                       % tuple(cq(float(p_[k_])) for k_ in ('h', 'rough', 'sm', 'sv', 'sm2', 'sv2')) for p_ in st['probes']])))
            return ('(CHist {| hs_names := %s; hs_dict := %s; hs_mbounds := %s; hs_steps := %s; hs_acq := %s |})'
                    % (cnames(case['names']), cdict(case), cbox(out['mbounds']), clist(steps),
                       clist(['(%s, %s)' % (cnat(a['n']), crows(a['out'])) for a in out['acqs']])))
        return None


if __name__ == '__main__':
    sys.exit(run_check(C11))
