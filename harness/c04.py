"""C04 — results do not depend on worker scheduling or parallelism: scripted client."""
import numpy as np
from common import *
import rejmodels
from sclient import ScriptedClient
from c01 import cdisc


def blob(outputs):
    return {k: (np.asarray(v).shape, np.asarray(v).tobytes().hex()) for k, v in sorted(outputs.items())}


class C04(PropCheck):
    pid = 'C04'
    header = ('From Coq Require Import List ZArith NArith Bool PrimFloat.\n'
              'From Elfi Require Import Base.Harness Sched.Sched Sched.Reject Sched.SchedCase.\nImport ListNotations.\n')
    case_type = 'SchedCase.case'
    preds = (('SchedCase.agree', 'agree'), ('SchedCase.ok', 'ok'))
    chunk = 100
    case_timeout = 60
    build_targets = ('Sched/SchedCase.vo',)
    rule = ('seeded Rejection (threshold | quantile | n_sim) and multi-round SMC runs under a scripted ClientBase: random is_ready '
            'answer sequences, task execution at submit / at get_result / in shuffled order at random client calls, max_parallel 1-6; '
            'every submit/is_ready/get_result/remove_task recorded by batch index; outputs, thresholds, n_sim compared bit for bit '
            'with the sequential run (native client, max_parallel 1); non-trivial = at least one "not ready" answer led to a '
            'speculative submission or a cancellation happened; distinct by (config, oracle)')
    trusted = ('the scripted client stands for any ClientBase implementation that answers is_ready arbitrarily and computes submitted nets faithfully',)

    def generate(self):
        n = 90 if self.tier == 'quick' else 1500
        r = self.rng
        for i in range(n):
            kind = 'smc' if i % 3 == 2 else 'rejection'
            b = r.choice([1, 2, 3, 5])
            ns = r.choice([2, 3, 5, 8])
            cfg = dict(two_params=r.random() < 0.3, width=r.choice([1, 2]), levels=r.choice([3, 4, 8]), inf_above=None)
            case = dict(kind=kind, cfg=cfg, b=b, n=ns, seed=r.randrange(2 ** 31), maxp=r.choice([1, 2, 3, 4, 6]),
                        mode=r.choice(['lazy', 'eager', 'shuffle']),
                        oracle=[r.random() < r.choice([0.2, 0.5, 0.8]) for _ in range(400)])
            if kind == 'rejection':
                case['form'] = r.choice(['threshold', 'quantile', 'n_sim'])
                case['threshold'] = r.choice([1, 2, 3])
                case['quantile'] = r.choice([0.5, 0.25, 0.2])
                case['n_sim'] = ns + r.randint(0, 3 * b + 2)
            else:
                case['rounds'] = r.choice([2, 3])
                case['smc_form'] = r.choice(['thresholds', 'quantiles'])
                case['thresholds'] = sorted([r.choice([6, 5, 4]), r.choice([4, 3]), r.choice([3, 2])], reverse=True)[:case['rounds']]
                case['quantiles'] = [r.choice([0.5, 0.3]) for _ in range(case['rounds'])]
            self.bump('kind=' + kind)
            self.bump('maxp=%d' % case['maxp'])
            self.bump('mode=' + case['mode'])
            yield case

    def _run(self, case, client, maxp, pool=None):
        import elfi
        elfi.set_client(client)
        m = rejmodels.build(case['cfg'])
        if case['kind'] == 'rejection':
            inf = elfi.Rejection(m['d'], batch_size=case['b'], seed=case['seed'], output_names=['s1'],
                                 max_parallel_batches=maxp, pool=pool)
            if hasattr(client, 'handler'):
                client.handler = inf.batches
            kw = {case['form']: {'threshold': float(case['threshold']), 'quantile': case['quantile'], 'n_sim': case['n_sim']}[case['form']]}
            res = inf.sample(case['n'], bar=False, **kw)
            return dict(outputs=blob(res.outputs), threshold=float(res.threshold), n_sim=int(res.n_sim), n_batches=int(res.n_batches))
        inf = elfi.SMC(m['d'], batch_size=case['b'], seed=case['seed'], output_names=['s1'], max_parallel_batches=maxp)
        if hasattr(client, 'handler'):
            client.handler = inf.batches
        if case['smc_form'] == 'thresholds':
            res = inf.sample(case['n'], thresholds=[float(t) for t in case['thresholds']], bar=False)
        else:
            res = inf.sample(case['n'], quantiles=list(case['quantiles']), bar=False)
        pops = [dict(outputs=blob(p.outputs), threshold=float(p.threshold), n_sim=int(p.n_sim),
                     weights=np.asarray(p.weights).tobytes().hex()) for p in res.populations]
        return dict(outputs=blob(res.outputs), threshold=float(res.threshold), n_sim=int(res.n_sim),
                    n_batches=int(res.n_batches), populations=pops)

    def run_impl(self, case):
        import elfi
        import elfi.clients.native as native
        from elfi.store import OutputPool
        try:
            ref = self._run(case, native.Client(), 1)
            pool = OutputPool(['d', 't1', 'sim', 's1'] + (['t2'] if case['cfg']['two_params'] else [])) if case['kind'] == 'rejection' else None
            client = ScriptedClient(oracle=case['oracle'], mode=case['mode'], num_cores=2, seed=case['seed'])
            got = self._run(case, client, case['maxp'], pool=pool)
        finally:
            elfi.set_client(native.Client())
        events = []
        asked = 0
        for e in client.events:
            if e[0] == 'submit':
                events.append('(ESubmit %s)' % cnat(e[2]))
            elif e[0] == 'ask':
                events.append('(EAsk %s %s)' % (cnat(e[2]), cbool(e[3])))
                asked += 1
            elif e[0] == 'get':
                events.append('(EGet %s)' % cnat(e[2]))
            elif e[0] == 'remove':
                events.append('(ECancel %s)' % cnat(e[2]))
        model = 'None'
        if case['kind'] == 'rejection':
            names = ['d', 't1', 'sim', 's1'] + (['t2'] if case['cfg']['two_params'] else [])
            codes = {}
            table = []
            for bi in range(len(pool)):
                batch = pool.get_batch(bi)
                table.append([(rejmodels.disc_value(batch['d'][i]), codes.setdefault(rejmodels.row_key(batch, names, i), len(codes)))
                              for i in range(case['b'])])
            if case['form'] == 'threshold':
                form = '(ByThreshold %s %s)' % (cdisc(case['threshold']), cnat(case['maxp']))
            elif case['form'] == 'quantile':
                form = '(ByQuantile %s)' % cfloat(case['quantile'])
            else:
                form = '(ByNsim %s)' % cz(case['n_sim'])
            tab = clist([clist(['{| d_disc := %s; d_code := %s |}' % (cdisc(d), cn(c)) for d, c in rows]) for rows in table])
            answers = [e[3] for e in client.events if e[0] == 'ask']
            model = ('(Some {| rc_n := %s; rc_b := %s; rc_form := %s; rc_table := %s; rc_oracle := %s |})'
                     % (cnat(case['n']), cnat(case['b']), form, tab, clist([cbool(a) for a in answers])))
        n_false = sum(1 for e in client.events if e[0] == 'ask' and not e[3])
        n_cancel = sum(1 for e in client.events if e[0] == 'remove')
        return dict(same_as_sequential=(ref == got), ref_n_sim=ref['n_sim'], got_n_sim=got['n_sim'], n_batches=got['n_batches'],
                    leftover=client.leftover(), problems=client.problems, n_events=len(client.events), n_not_ready=n_false,
                    n_cancelled=n_cancel,
                    coq='{| k_maxp := %s; k_trace := %s; k_consumed := %s; k_model := %s |}' % (
                        cnat(case['maxp']), clist(events), cnat(got['n_batches']), model))

    def py_check(self, case, out):
        f = []
        if not out['same_as_sequential']:
            f.append(('same_as_sequential', 'samples/thresholds/n_sim under this schedule (n_sim %s) differ from the sequential run (n_sim %s)'
                      % (out['got_n_sim'], out['ref_n_sim'])))
        if out['leftover']:
            f.append(('no_task_left', 'tasks left in the client after inference returned: %r' % out['leftover']))
        if out['problems']:
            f.append(('client_protocol', '; '.join(out['problems'][:2])))
        return f

    def nontrivial(self, case, out):
        if out['n_not_ready'] == 0 and out['n_cancelled'] == 0:
            return None
        return json.dumps(case, sort_keys=True)

    def to_coq(self, case, out):
        return out['coq']


if __name__ == '__main__':
    sys.exit(run_check(C04))
